#!/bin/bash
# usage: selftest/seeded.sh <patch.diff> <PROP> [tier]  -- apply a seeded patch to a scratch copy of /repo and run the property's check
set -u
P=$1; PROP=$2; TIER=${3:-quick}
D=$(mktemp -d /var/tmp/mscript-seed.XXXXXX)
rsync -a --exclude target --exclude .git /repo/ $D/
( cd $D && git init -q . && ( git apply --unsafe-paths $P 2>/dev/null || patch -p1 -s -F3 --no-backup-if-mismatch < $P ) ) || { echo "patch does not apply"; rm -rf $D; exit 3; }
VERIF_REPO=$D VERIF_SELFTEST=1 /verif/vcheck check $PROP --tier $TIER | grep -v conda
rc=${PIPESTATUS[0]}
rm -rf $D
echo "exit=$rc"

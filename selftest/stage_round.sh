#!/bin/bash
# usage: stage_round.sh <round> <out-dir> <commit> : copy every confirmed seed of that round from <out-dir> into /verif/seeded/<ID>-<k>/ with its confirmation record
R=$1; OUT=$2; COMMIT=$3; LOG=$OUT/confirm.log
rm -f $OUT/confirm_verif.log
grep "demo_patched=[1-9][0-9]* demo_clean=0" $LOG | grep -E "tests\[193 passed 0 failed\]|retry single-thread: 193 passed 0 failed" | while read -r line; do
  d=${line%%:*}; id=$(basename $(dirname $d)); k=$(basename $d)
  t=/verif/seeded/$id-$k
  [ -d $t ] && continue
  mkdir -p $t; cp $d/patch.diff $d/demo.sh $d/meta.json $t/ 2>/dev/null
  echo "/verif/seeded/$id-$k: ${line#*: }" >> $OUT/confirm_verif.log
  echo staged $id-$k
done
[ -f $OUT/confirm_verif.log ] && python3 /verif/selftest/mark_confirmed.py $OUT/confirm_verif.log $R $COMMIT > /dev/null

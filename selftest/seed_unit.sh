#!/bin/bash
# usage: selftest/seed_unit.sh <SEED> <unit> : apply seeded/<SEED>/patch.diff to a scratch copy of /repo and run one unit there (--show)
set -e
d=$(mktemp -d /var/tmp/mscript-seed.XXXXXX)
trap 'rm -rf "$d"' EXIT
rsync -a --exclude target --exclude .git /repo/ "$d/"
( cd "$d" && git init -q . && ( git apply --unsafe-paths /verif/seeded/$1/patch.diff 2>/dev/null || patch -p1 -s -F3 --no-backup-if-mismatch < /verif/seeded/$1/patch.diff ) )
VERIF_REPO="$d" VERIF_SELFTEST=1 /verif/vcheck unit "$2" --show 2>&1 | grep -v conda

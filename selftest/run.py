#!/usr/bin/env python3
"""Self-mutation run (DESIGN.md 3.6): apply each listed property-breaking edit to a scratch copy of /repo and
check that the property's check reports a VIOLATION (exit 1); also run harmless refactors and expect exit 0.
usage: selftest/run.py [PROP ...] [--only NAME]"""
import json, os, re, shutil, subprocess, sys, tempfile
from pathlib import Path
VERIF = Path(__file__).resolve().parent.parent
REPO = Path(os.environ.get("VERIF_REPO", "/repo"))

def main():
    args = [a for a in sys.argv[1:] if not a.startswith("--")]
    only = None
    if "--only" in sys.argv:
        only = sys.argv[sys.argv.index("--only") + 1]; args = [a for a in args if a != only]
    muts = json.loads((VERIF / "selftest/mutants.json").read_text())
    bad = 0
    for m in muts:
        if args and m["property"] not in args: continue
        if only and m["name"] != only: continue
        wd = Path(tempfile.mkdtemp(prefix="mscript-mut.", dir="/var/tmp"))
        try:
            subprocess.run(["rsync", "-a", "--exclude", "target", "--exclude", ".git", str(REPO) + "/", str(wd) + "/"], check=True)
            f = wd / m["file"]
            s = f.read_text()
            n = s.count(m["old"])
            if n != m.get("count", 1):
                print(f"SKIP  {m['name']}: pattern occurs {n} times"); bad += 1; continue
            f.write_text(s.replace(m["old"], m["new"]))
            env = dict(os.environ, VERIF_REPO=str(wd), VERIF_SELFTEST="1")
            p = subprocess.run([str(VERIF / "vcheck"), "check", m["property"], "--tier", m.get("tier", "quick")], env=env, capture_output=True, text=True)
            want = m.get("expect", 1)
            ok = p.returncode == want
            viol = [l for l in p.stdout.splitlines() if l.startswith("VIOLATION")]
            print(f"{'ok   ' if ok else 'MISS '} {m['property']} {m['name']}: exit {p.returncode} (want {want}) {viol[:1]}")
            if not ok:
                bad += 1
                print("\n".join(p.stdout.splitlines()[-6:]))
        finally:
            shutil.rmtree(wd, ignore_errors=True)
    # restore evidence of the real tree is the caller's business (selftest overwrites evidence files)
    return 1 if bad else 0
sys.exit(main())

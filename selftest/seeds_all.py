#!/usr/bin/env python3
"""Apply every seeded change (seeded/<PROP>-<k>/patch.diff) to a scratch copy of /repo, run the property's check there and
record exit code / VIOLATION lines in seeded/RESULTS.json.  usage: selftest/seeds_all.py [-j N] [SEED ...]"""
import json, os, subprocess, sys, shutil, tempfile
from concurrent.futures import ThreadPoolExecutor
from pathlib import Path
V = Path(__file__).resolve().parent.parent
# a seed may be caught by the check of another property that shares the mechanism
EXTRA = {"C05-2": ["C06"], "C09-1": ["C01"], "C01-1": ["C09"], "C05-8": ["C06"]}

def run(seed):
    prop = seed.split("-")[0]
    out = {}
    for p in [prop] + EXTRA.get(seed, []):
        d = Path(tempfile.mkdtemp(prefix="mscript-seed.", dir="/var/tmp"))
        try:
            subprocess.run(["rsync", "-a", "--exclude", "target", "--exclude", ".git", "/repo/", str(d) + "/"], check=True)
            patch = V / "seeded" / seed / "patch.diff"
            subprocess.run(["git", "init", "-q", "."], cwd=d)
            r = subprocess.run(f"git apply --unsafe-paths {patch} 2>/dev/null || patch -p1 -s -F3 --no-backup-if-mismatch < {patch}", shell=True, cwd=d, capture_output=True, text=True)
            if r.returncode != 0:
                out[p] = {"exit": None, "note": "patch does not apply to the current tree (the code it changes was rewritten by a fix: commit)"}
                continue
            env = dict(os.environ, VERIF_REPO=str(d), VERIF_SELFTEST="1", VERIF_KANI_JOBS="6")
            q = subprocess.run([str(V / "vcheck"), "check", p], env=env, capture_output=True, text=True)
            lines = [l for l in q.stdout.splitlines() if l.startswith("VIOLATION") or l.startswith("UNDECIDED")]
            out[p] = {"exit": q.returncode, "lines": [l[:300] for l in lines[:4]]}
        finally:
            shutil.rmtree(d, ignore_errors=True)
    return seed, out

def main():
    args = sys.argv[1:]
    jobs = 3
    if "-j" in args:
        jobs = int(args[args.index("-j") + 1]); del args[args.index("-j"):args.index("-j") + 2]
    seeds = args or sorted(p.name for p in (V / "seeded").iterdir() if p.is_dir())
    res_path = V / "seeded" / "RESULTS.json"
    res = json.loads(res_path.read_text()) if res_path.exists() else {}
    with ThreadPoolExecutor(max_workers=jobs) as ex:
        for seed, out in ex.map(run, seeds):
            res[seed] = out
            print(seed, {p: o.get("exit") for p, o in out.items()}, flush=True)
            res_path.write_text(json.dumps(res, indent=1, sort_keys=True))
main()

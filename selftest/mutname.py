#!/usr/bin/env python3
"""usage: selftest/mutname.py <mutant-name> <unit>: apply the named mutant of mutants.json to a scratch copy and run ONE unit there"""
import json, subprocess, sys
from pathlib import Path
V = Path(__file__).resolve().parent.parent
name, unit = sys.argv[1:3]
ms = [m for m in json.loads((V / "selftest/mutants.json").read_text()) if m["name"] == name]
if not ms: sys.exit("no such mutant")
m = ms[0]
print(f"-- {name} (expect {m.get('expect', 1)})")
sys.exit(subprocess.call([sys.executable, str(V / "selftest/mutunit.py"), unit, m["file"], m["old"], m["new"]]))

#!/usr/bin/env python3
"""usage: selftest/mutunit.py <unit> <file> <old> <new>: apply one textual edit to a scratch copy of /repo and run one unit there"""
import os, shutil, subprocess, sys, tempfile
from pathlib import Path
unit, rel, old, new = sys.argv[1:5]
wd = Path(tempfile.mkdtemp(prefix="mscript-mut.", dir="/var/tmp"))
try:
    subprocess.run(["rsync", "-a", "--exclude", "target", "--exclude", ".git", "/repo/", str(wd) + "/"], check=True)
    f = wd / rel; s = f.read_text()
    if s.count(old) != 1: sys.exit(f"pattern occurs {s.count(old)} times")
    f.write_text(s.replace(old, new))
    p = subprocess.run(["/verif/vcheck", "unit", unit, "--show"], env=dict(os.environ, VERIF_REPO=str(wd), VERIF_SELFTEST="1"), capture_output=True, text=True)
    for l in p.stdout.splitlines():
        if " main " in l or "UNDECIDED" in l or " aux " in l: print(l[:220])
    print("exit", p.returncode)
finally:
    shutil.rmtree(wd, ignore_errors=True)

#!/bin/bash
# usage: stage_round7.sh : copy every confirmed round-7 seed from /tmp/seed7-out into /verif/seeded/<ID>-<k>/ with its confirmation record
LOG=/tmp/seed7-out/confirm.log
grep "demo_patched=[1-9][0-9]* demo_clean=0" $LOG | grep -E "tests\[193 passed 0 failed\]|retry single-thread: 193 passed 0 failed" | while read -r line; do
  d=${line%%:*}; id=$(basename $(dirname $d)); k=$(basename $d)
  t=/verif/seeded/$id-$k
  [ -d $t ] && continue
  mkdir -p $t; cp $d/patch.diff $d/demo.sh $d/meta.json $t/ 2>/dev/null
  echo "/verif/seeded/$id-$k: ${line#*: }" >> /tmp/seed7-out/confirm_verif.log
  echo staged $id-$k
done
[ -f /tmp/seed7-out/confirm_verif.log ] && python3 /verif/selftest/mark_confirmed.py /tmp/seed7-out/confirm_verif.log 7 8e2041e > /dev/null

#!/bin/bash
# usage: confirm_seeds.sh <seed-dir>...   (each dir has patch.diff, demo.sh) -- confirms in a scratch worktree of /repo
WT=/tmp/confirm-wt
LOG=${CONFIRM_LOG:-/tmp/seed-out/confirm.log}
[ -d $WT ] || git -C /repo worktree add --detach $WT HEAD >/dev/null 2>&1
cd $WT
for d in "$@"; do
  git checkout -q -- . ; git clean -fdq -e target
  if ! git apply $d/patch.diff 2>/dev/null; then echo "$d: PATCH-DOES-NOT-APPLY" >> $LOG; continue; fi
  t=$(cargo test --workspace --no-fail-fast --offline 2>&1 | grep -E "^test result" | awk '{p+=$4; f+=$6} END {print p" passed "f" failed"}')
  if echo "$t" | grep -qv " 0 failed"; then
     t2=$(cargo test --workspace --no-fail-fast --offline -- --test-threads=1 2>&1 | grep -E "^test result" | awk '{p+=$4; f+=$6} END {print p" passed "f" failed"}')
     t="$t (retry single-thread: $t2)"
  fi
  RUST_BACKTRACE=0 bash $d/demo.sh $WT >/dev/null 2>&1; rp=$?
  git checkout -q -- . ; git clean -fdq -e target
  RUST_BACKTRACE=0 bash $d/demo.sh $WT >/dev/null 2>&1; rc=$?
  echo "$d: tests[$t] demo_patched=$rp demo_clean=$rc" >> $LOG
done
git checkout -q -- . ; git clean -fdq -e target

#!/usr/bin/env python3
"""usage: mark_confirmed.py <confirm.log> <round> <commit>: copy each line of a confirm_seeds.sh log into the seed's meta.json (confirmed_by_me)"""
import json, re, sys
log, rnd, commit = sys.argv[1], int(sys.argv[2]), sys.argv[3]
for l in open(log):
    m = re.match(r"(/verif/seeded/[^:]+): (.*)", l.strip())
    if not m: continue
    p = m.group(1) + "/meta.json"
    try: meta = json.load(open(p))
    except Exception: meta = {}
    meta["confirmed_by_me"] = {"how": f"selftest/confirm_seeds.sh in a scratch worktree of /repo at {commit} (the commit the round-{rnd} sub-agents worked on): git apply patch.diff; cargo test --workspace --no-fail-fast --offline (re-run single-threaded when the flaky gc assertion hits); demo.sh on the patched tree; git checkout; demo.sh on the clean tree",
                               "result": m.group(2), "round": rnd}
    json.dump(meta, open(p, "w"), indent=1)
    print(p, m.group(2))

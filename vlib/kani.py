"""Kani runner for K-t crates (real text extracted into a dependency-free crate) and result parsing."""
import os, re, shutil, subprocess, time, json
from pathlib import Path
from .core import UnitResult, Obl, Undecided

PANIC_CLASSES = ("attempt to add with overflow", "attempt to subtract with overflow", "attempt to multiply with overflow",
                 "attempt to divide by zero", "attempt to divide with overflow", "attempt to calculate the remainder with a divisor of zero",
                 "attempt to calculate the remainder with overflow", "attempt to negate with overflow", "attempt to shift left with overflow",
                 "attempt to shift right with overflow", "index out of bounds", "called `Option::unwrap()` on a `None` value",
                 "called `Result::unwrap()` on an `Err` value", "explicit panic", "arithmetic overflow", "already borrowed", "already mutably borrowed",
                 "slice index", "byte index", "is not a char boundary", "removal index", "insertion index", "range start", "range end",
                 "capacity overflow", "This is a placeholder message", "internal error: entered unreachable code", "not implemented", "not yet implemented")
# Kani's own float sanity checks are not Rust panics: an IEEE NaN / infinity is the exact result
IGNORED = ("NaN on addition", "NaN on subtraction", "NaN on multiplication", "NaN on division", "NaN on remainder",
           "arithmetic overflow on floating-point", "NaN on")


def write_crate(dirpath, name, lib_rs, repo=None):
    d = Path(dirpath)
    (d / "src").mkdir(parents=True, exist_ok=True)
    (d / ".cargo").mkdir(exist_ok=True)
    (d / "Cargo.toml").write_text(f"""[package]
name = "{name}"
version = "0.0.0"
edition = "2021"

[lib]
path = "src/lib.rs"

[workspace]

[lints.rust]
unexpected_cfgs = {{ level = "allow", check-cfg = ['cfg(kani)'] }}
""")
    (d / ".cargo" / "config.toml").write_text("[net]\noffline = true\n")
    (d / "src" / "lib.rs").write_text(lib_rs + CANARY)
    return d


# vacuity guard: this harness must FAIL on every run; if it is missing from the results or verifies, nothing the run reports is trusted
CANARY = """
#[cfg(kani)]
mod verif_canary {
    #[kani::proof]
    fn verif_canary_must_fail() { let x: u8 = kani::any(); assert!(x != 3, "verif canary"); }
}
"""


def _limit_memory():
    """address-space cap per process (inherited by every cbmc): a runaway SAT problem ends as `out of memory` = undecided, not as an OOM-killed sandbox"""
    import resource
    gb = int(os.environ.get("VERIF_KANI_MEM_GB", "24"))
    resource.setrlimit(resource.RLIMIT_AS, (gb << 30, gb << 30))


def run_kani(crate_dir, harness_filter=None, jobs=8, timeout=1800, extra=(), harness_timeout=None):
    """run all harnesses (terse, parallel). returns (per_harness dict, raw output, wall)"""
    cmd = ["cargo", "kani", "--output-format=terse", "-j", str(jobs), *extra]
    if harness_timeout:
        cmd += ["-Z", "unstable-options", "--harness-timeout", f"{harness_timeout}s"]
    if harness_filter:
        for h in harness_filter:
            cmd += ["--harness", h]
    env = dict(os.environ, CARGO_NET_OFFLINE="true", RUST_BACKTRACE="0")
    env.pop("RUSTUP_TOOLCHAIN", None)
    t0 = time.time()
    try:
        p = subprocess.run(cmd, cwd=crate_dir, capture_output=True, text=True, timeout=timeout, env=env, preexec_fn=_limit_memory)
        out = p.stdout + "\n" + p.stderr
        timed_out = False
    except subprocess.TimeoutExpired as e:
        out = (e.stdout.decode() if isinstance(e.stdout, bytes) else (e.stdout or "")) + "\n" + (e.stderr.decode() if isinstance(e.stderr, bytes) else (e.stderr or ""))
        timed_out = True
    per = parse_kani(out)
    if harness_filter is None or "verif_canary_must_fail" in (harness_filter or []):
        c = per.pop("verif_canary_must_fail", None)
        if per and not timed_out and (c is None or c["status"] != "FAILED"):
            out = "VERIF: the canary harness did not fail (" + repr(c and c["status"]) + "): run not trusted\n" + out
            per = {}
    return per, out, time.time() - t0, " ".join(cmd), timed_out


def parse_kani(out):
    """per harness: {status: SUCCESSFUL|FAILED|None, failed: [(description, location)], time: s, oom, timeout, ...}"""
    cur = {}          # thread -> harness
    blocks = {}       # harness -> text
    active = None
    for line in out.split("\n"):
        m = re.match(r"^(?:Thread (\d+): )?Checking harness (.+?)\.\.\.", line)
        if m:
            th = m.group(1) or "0"
            cur[th] = m.group(2).strip()
            blocks.setdefault(cur[th], "")
            active = cur[th] if m.group(1) is None else None
            continue
        m = re.match(r"^Thread (\d+):\s*(.*)$", line)
        if m:
            active = cur.get(m.group(1))
            if active is not None and m.group(2):
                blocks[active] += m.group(2) + "\n"
            continue
        if line.startswith("Manual Harness Summary") or line.startswith("Complete - "):
            active = None
            continue
        if active is not None:
            blocks[active] += line + "\n"
    res = {}
    for name, b in blocks.items():
        short = name.split("::")[-1]
        st = None
        m = re.search(r"VERIFICATION:- (SUCCESSFUL|FAILED)", b)
        if m:
            st = m.group(1)
        failed = []
        for fm in re.finditer(r"Failed Checks: (.*?)\n(?:\s*File: \"([^\"]*)\", line (\d+), in (.*?)\n)?", b):
            loc = f"{fm.group(2)}:{fm.group(3)} in {fm.group(4)}" if fm.group(2) else ""
            failed.append((fm.group(1).strip(), loc))
        tm = re.search(r"Verification Time: ([0-9.]+)s", b)
        oom = "out of memory" in b
        timeout = "CBMC timed out" in b
        unwind = any("unwinding assertion" in f[0] for f in failed)
        unsupported = any("not currently supported" in f[0] or "unsupported" in f[0].lower() for f in failed)
        crashed = bool(re.search(r"CBMC failed with status|CBMC crashed|signal|Killed", b)) and not failed
        if timeout or oom or crashed:
            st = None
        if st == "FAILED" and not failed:
            st = None            # a FAILED verdict without a single failed check is a tool failure (solver killed, crashed), never a result
        res[short] = {"status": st, "failed": failed, "time": float(tm.group(1)) if tm else 0.0, "oom": oom, "timeout": timeout,
                      "unwind": unwind, "unsupported": unsupported, "raw": b[-3000:]}
    return res


def classify(failed):
    """split failed checks into (named assertion failures, panic-class failures, ignored, other)"""
    named, panics, ign, other = [], [], [], []
    for desc, loc in failed:
        if any(desc.startswith(i) or i in desc for i in IGNORED):
            ign.append((desc, loc))
        elif re.match(r"C\d\d\.", desc) or desc.startswith("\"C"):
            named.append((desc.strip('"'), loc))
        elif "verif::" in loc:
            other.append((desc + " [inside the harness, not the code under contract]", loc))
        elif any(k in desc for k in PANIC_CLASSES):
            panics.append((desc, loc))
        else:
            other.append((desc, loc))
    return named, panics, ign, other

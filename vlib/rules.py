"""Shared rewrite rules (the rule table of DESIGN.md 3.3) and unit helpers."""
import re
from pathlib import Path

from .lexer import lex, render, text, match_close
from .pattern import Rule, G, Pat
from .extract import read_tokens, extract_fn, extract_item, extract_match_arm, extract_macro_rules
from .core import Undecided, translate, check_closed, header, Obl, VERIF


def opcode_ids(repo):
    """instruction name -> opcode, read from the real instruction_constants.rs on every run"""
    src = (Path(repo) / "bytecode/src/instruction_constants.rs").read_text()
    m = re.search(r"generate_consts!\s*\{(.*?)\n\}", src, re.S)
    if not m:
        raise Undecided("instruction_constants.rs: generate_consts! table not found")
    ids = {}
    for name, num in re.findall(r"^\s*([A-Z_0-9]+)\s+(\d+)\s*$", m.group(1), re.M):
        ids[name.lower()] = int(num)
    if len(ids) < 10:
        raise Undecided("instruction_constants.rs: table too small")
    return ids


def opcode_consts(ids, names):
    return "\n".join(f"pub const {n.upper()}: u8 = {ids[n]};" for n in names)


def r_instruction(ids):
    """R4: instruction!(name a b ..) -> mk_instr(ID, argsN(a.to_vs(), ..))"""

    def repl(b):
        inner = b["args"][1:-1]
        if not inner:
            raise Undecided("instruction!() without a name")
        name = inner[0]
        if name not in ids:
            raise Undecided(f"not translatable: instruction `{name}` is not in instruction_constants.rs")
        # each remaining token tree is one argument
        args, i = [], 1
        while i < len(inner):
            if inner[i] in ("(", "[", "{"):
                c = match_close(inner, i)
                args.append(inner[i:c + 1]); i = c + 1
            else:
                args.append([inner[i]]); i += 1
        if len(args) > 3:
            raise Undecided(f"instruction! with {len(args)} arguments not supported")
        parts = []
        for a in args:
            if a[0].startswith('"'):
                parts.append(f"strlit_vs({a[0]})")
            else:
                parts.append(f"({text(a)}).to_vs()")
        return f"mk_instr({ids[name]}u8 /*{name}*/, args{len(args)}({', '.join(parts)}))"

    return Rule("R4", "instruction ! $args", repl, why="instruction! -> constructor with opcode from instruction_constants.rs")


def _vec_literal(b):
    """R12: `vec![a, b, ..]` (not `vec![x; n]`) -> a block that pushes the items in order"""
    items, cur, d = [], [], 0
    for t in b["items"]:
        if t in ("(", "[", "{"): d += 1
        elif t in (")", "]", "}"): d -= 1
        if t == ";" and d == 0:
            return None
        if t == "," and d == 0:
            if cur: items.append(cur)
            cur = []
        else:
            cur.append(t)
    if cur: items.append(cur)
    if not items:
        return None
    return "{ let mut verif_vec = Vec :: new ( ) ; " + " ".join("verif_vec . push ( " + text(i) + " ) ;" for i in items) + " verif_vec }"


R12_VEC_LITERAL = Rule("R12", "vec ! [ $$items ]", _vec_literal, why="vec![a, b, ..] -> Vec::new() + pushes in order")
R12_VEC_EMPTY = Rule("R12", "vec ! [ ]", "Vec::new()", why="vec![] -> Vec::new()")
R12_RESERVE = Rule("R12", "$v . reserve_exact ( $$e ) ;", "", why="capacity hint dropped")
R_CONST_LOCAL = Rule("R0", "const $n : $t = $$e ;", "let $n : $t = $$e ;", why="fn-local const -> let")
R7_TRY_INTO_ISIZE = Rule("R7", "let $n : isize = $$e . try_into ( ) ? ;", "let $n : isize = usize_to_isize ( $$e ) ? ;",
                         why="usize -> isize conversion with value-preserving contract")


def for_enumerate_into_iter(label, invariant, vec_name=None, pre_body="", post_body="", before=""):
    """R2: `for (i, x) in v.into_iter().enumerate() { B }` -> indexed while over clones of the items.
    The index is advanced before the body so `continue` cannot skip it; `idx` is the pre-increment value."""

    def repl(b):
        v = text(b["v"])
        i, x = text(b["i"]), text(b["x"])
        body = b["body"]
        return [*([G(before.replace("$V", v))] if before else []),
                f"let mut verif_k_{label} : usize = 0 ; while verif_k_{label} < {v} . len ( )",
                G(invariant.replace("$K", f"verif_k_{label}").replace("$V", v)),
                "{", f"let {i} = verif_k_{label} ; let {x} = clone_item ( & {v} [ {i} ] ) ; verif_k_{label} += 1 ;",
                *( [G(pre_body.replace("$K", f"verif_k_{label}").replace("$V", v))] if pre_body else []),
                *body,
                *( [G(post_body.replace("$K", f"verif_k_{label}").replace("$V", v))] if post_body else []),
                "}"]

    return Rule("R2", "for ( $i , $x ) in $v . into_iter ( ) . enumerate ( ) { $$body }", repl, count=1,
                why="for over into_iter().enumerate() -> indexed while (iteration order of std::vec::IntoIter + Enumerate)")


def prelude(name):
    t = (VERIF / "prelude" / name).read_text()
    return t


class Source:
    """token access to the real tree"""

    def __init__(self, repo):
        self.repo = Path(repo)
        self.cache = {}

    def toks(self, rel):
        if rel not in self.cache:
            p = self.repo / rel
            if not p.exists():
                raise Undecided(f"source file missing: {rel}")
            self.cache[rel] = read_tokens(p)
        return self.cache[rel]

    def fn(self, rel, name, within=None, nth=0):
        from .extract import ExtractError
        try:
            return extract_fn(self.toks(rel), name, within, nth)
        except Exception as e:
            raise Undecided(f"{rel}: cannot locate fn {name} in `{within}`: {e}")

    def item(self, rel, header_pat, within=None):
        try:
            return extract_item(self.toks(rel), header_pat, within)
        except Exception as e:
            raise Undecided(f"{rel}: cannot locate `{header_pat}`: {e}")


class VUnit:
    engine = "verus"

    def __init__(self, uid, props, title, build, timeout=300):
        self.uid, self.props, self.title, self.build, self.timeout = uid, props, title, build, timeout


def for_each_iter_mut_enumerate(label, invariant, pre_body="", post_body="", before=""):
    """R2/R13: `v.iter_mut().enumerate().for_each(|(i, x)| BODY);` -> indexed while; `*x = e` -> `v.set(i, e)`;
    `x` is bound to a clone of the element (the closure only reads it before overwriting)."""

    def repl(b):
        v, i, x = text(b["v"]), text(b["i"]), text(b["x"])
        body = list(b["body"])
        log = []
        body = Rule("R13", f"* {x} = $$e ;", f"{v} . set ( {i} , $$e ) ;").apply(body, log)
        body = Rule("R13", f"* {x} = $$e }}", f"{v} . set ( {i} , $$e ) ; }}").apply(body, log)
        body = Rule("R13", "( ref $n )", "( $n )").apply(body, log)
        K = f"verif_k_{label}"
        sub = lambda s: s.replace("$K", K).replace("$V", v)
        return [*([G(sub(before))] if before else []),
                f"let mut {K} : usize = 0 ; while {K} < {v} . len ( )", G(sub(invariant)), "{",
                f"let {i} = {K} ; let {x} = clone_item ( & {v} [ {i} ] ) ; {K} += 1 ;",
                *([G(sub(pre_body))] if pre_body else []), *body, ";",
                *([G(sub(post_body))] if post_body else []), "}"]

    return Rule("R2", "$v . iter_mut ( ) . enumerate ( ) . for_each ( | ( $i , $x ) | $$body ) ;", repl, count=1,
                why="iter_mut().enumerate().for_each(closure) -> indexed while; `*item = e` -> v.set(i, e) (iteration order of std iterators)")


# ---------------------------------------------------------------------------------------------------------------------
# R2 iterator idioms with a boolean closure -> indexed loops.  `spec(i_expr)` / `spec2(a_i, b_i)` give the ghost text of "the closure
# body holds for this element" (the callee's contract); the loop invariants are generic in it.  Every idiom keeps its own meaning
# (`all` = for all, `any` = exists, `windows(2)` = adjacent pairs, `chunks_exact(2)` = disjoint pairs): a changed adapter still
# translates and then fails the postcondition of the function instead of losing the anchor.
def _tok_subst(body, mapping):
    """replace token sequences (tuples of tokens) in body by replacement token lists"""
    out, i = [], 0
    while i < len(body):
        for k, v in mapping:
            if tuple(body[i:i + len(k)]) == k:
                out.extend(v); i += len(k)
                break
        else:
            out.append(body[i]); i += 1
    return out


def iter_idiom_rules(label, elem_spec, pair_spec, adj_spec=None):
    """elem_spec(vec_name, j) -> ghost bool text for closure-over-one-element idioms (all/any over `a.iter()`);
    pair_spec(a_name, ja, b_name, jb) -> ghost bool text for two-element closures (zip, windows, chunks_exact)"""
    n = [0]
    if adj_spec is None:
        adj_spec = lambda a, j: pair_spec(a, j, a, f"{j} + 1")

    def fresh():
        n[0] += 1
        return f"{label}{n[0]}"

    def zip_all(b):
        a, bb, x, y, body = text(b["a"]), text(b["b"]), text(b["x"]), text(b["y"]), b["body"]
        k = fresh(); i, r = f"verif_i_{k}", f"verif_r_{k}"
        inv = (f"invariant {i} <= {a}.len(), {i} <= {bb}.len(), forall|j: int| 0 <= j < {i} ==> {pair_spec(a, 'j', bb, 'j')}, "
               f"!{r} ==> ({i} < {a}.len() && {i} < {bb}.len() && !({pair_spec(a, i + ' as int', bb, i + ' as int')})) "
               f"decreases {a}.len() - {i} + (if {r} {{ 1int }} else {{ 0int }})")
        return ["{", f"let mut {i} : usize = 0 ; let mut {r} = true ; while {r} && {i} < {a} . len ( ) && {i} < {bb} . len ( )", G(inv),
                "{", f"let {x} = & {a} [ {i} ] ; let {y} = & {bb} [ {i} ] ; if ! (", *body, f") {{ {r} = false ; }} else {{ {i} += 1 ; }}", "}", r, "}"]

    def one(kind):
        def repl(b):
            a, x, body = text(b["a"]), text(b["x"]), b["body"]
            k = fresh(); i, r = f"verif_i_{k}", f"verif_r_{k}"
            if kind == "all":
                inv = (f"invariant {i} <= {a}.len(), forall|j: int| 0 <= j < {i} ==> {elem_spec(a, 'j')}, !{r} ==> ({i} < {a}.len() && !({elem_spec(a, i + ' as int')})) "
                       f"decreases {a}.len() - {i} + (if {r} {{ 1int }} else {{ 0int }})")
                return ["{", f"let mut {i} : usize = 0 ; let mut {r} = true ; while {r} && {i} < {a} . len ( )", G(inv),
                        "{", f"let {x} = & {a} [ {i} ] ; if ! (", *body, f") {{ {r} = false ; }} else {{ {i} += 1 ; }}", "}", r, "}"]
            inv = (f"invariant {i} <= {a}.len(), forall|j: int| 0 <= j < {i} ==> !({elem_spec(a, 'j')}), {r} ==> ({i} < {a}.len() && {elem_spec(a, i + ' as int')}) "
                   f"decreases {a}.len() - {i} + (if {r} {{ 0int }} else {{ 1int }})")
            return ["{", f"let mut {i} : usize = 0 ; let mut {r} = false ; while ! {r} && {i} < {a} . len ( )", G(inv),
                    "{", f"let {x} = & {a} [ {i} ] ; if (", *body, f") {{ {r} = true ; }} else {{ {i} += 1 ; }}", "}", r, "}"]
        return repl

    def pairs(step, kind="all"):
        def repl(b):
            a, x, body = text(b["a"]), text(b["x"]), b["body"]
            k = fresh(); i, r = f"verif_i_{k}", f"verif_r_{k}"
            body2 = _tok_subst(body, [((x, "[", "0", "]"), [a, "[", i, "]"]), ((x, "[", "1", "]"), [a, "[", i, "+", "1", "]"])])
            if x in body2:
                return None                       # the closure uses the window other than as x[0] / x[1]: decline
            dom = f"0 <= j < {i}" + (" && j % 2 == 0" if step == 2 else "")
            par = f"{i} % 2 == 0, " if step == 2 else ""
            if kind == "all":
                inv = (f"invariant {i} <= {a}.len(), {par}forall|j: int| {dom} ==> {adj_spec(a, 'j')}, "
                       f"!{r} ==> ({i} + 1 < {a}.len() && !({adj_spec(a, i + ' as int')})) "
                       f"decreases {a}.len() - {i} + (if {r} {{ 1int }} else {{ 0int }})")
                return ["{", f"let mut {i} : usize = 0 ; let mut {r} = true ; while {r} && {a} . len ( ) - {i} > 1", G(inv),
                        "{", "if ! (", *body2, f") {{ {r} = false ; }} else {{ {i} += {step} ; }}", "}", r, "}"]
            inv = (f"invariant {i} <= {a}.len(), {par}forall|j: int| {dom} ==> !({adj_spec(a, 'j')}), "
                   f"{r} ==> ({i} + 1 < {a}.len() && {adj_spec(a, i + ' as int')}) "
                   f"decreases {a}.len() - {i} + (if {r} {{ 0int }} else {{ 1int }})")
            return ["{", f"let mut {i} : usize = 0 ; let mut {r} = false ; while ! {r} && {a} . len ( ) - {i} > 1", G(inv),
                    "{", "if (", *body2, f") {{ {r} = true ; }} else {{ {i} += {step} ; }}", "}", r, "}"]
        return repl

    why = "iterator adapter with a boolean closure -> indexed loop with the adapter's own meaning"
    return [
        Rule("R2", "$a . iter ( ) . zip ( $b . iter ( ) ) . all ( | ( $x , $y ) | $$body )", zip_all, why=why + " (zip + all: common prefix, every pair)"),
        Rule("R2", "$a . iter ( ) . as_ref ( ) . windows ( 2 ) . all ( | $x | $$body )", pairs(1, "all"), why=why + " (windows(2) + all: every adjacent pair)"),
        Rule("R2", "$a . iter ( ) . as_ref ( ) . windows ( 2 ) . any ( | $x | $$body )", pairs(1, "any"), why=why + " (windows(2) + any: some adjacent pair)"),
        Rule("R2", "$a . iter ( ) . as_ref ( ) . chunks_exact ( 2 ) . all ( | $x | $$body )", pairs(2, "all"), why=why + " (chunks_exact(2) + all: disjoint pairs, trailing element ignored)"),
        Rule("R2", "$a . iter ( ) . as_ref ( ) . chunks_exact ( 2 ) . any ( | $x | $$body )", pairs(2, "any"), why=why + " (chunks_exact(2) + any: disjoint pairs, trailing element ignored)"),
        Rule("R2", "$a . windows ( 2 ) . all ( | $x | $$body )", pairs(1, "all"), why=why + " (windows(2) + all: every adjacent pair)"),
        Rule("R2", "$a . windows ( 2 ) . any ( | $x | $$body )", pairs(1, "any"), why=why + " (windows(2) + any: some adjacent pair)"),
        Rule("R2", "$a . chunks_exact ( 2 ) . all ( | $x | $$body )", pairs(2, "all"), why=why + " (chunks_exact(2) + all: disjoint pairs, trailing element ignored)"),
        Rule("R2", "$a . chunks_exact ( 2 ) . any ( | $x | $$body )", pairs(2, "any"), why=why + " (chunks_exact(2) + any: disjoint pairs, trailing element ignored)"),
        Rule("R2", "$a . iter ( ) . all ( | $x | $$body )", one("all"), why=why + " (all)"),
        Rule("R2", "$a . iter ( ) . any ( | $x | $$body )", one("any"), why=why + " (any)"),
    ]


def for_in_vec(label, invariant):
    """R2: `for x in v { B }` over a `&Vec` -> indexed while; `invariant` is ghost text with $K (index) and $V (vector)"""
    def repl(b):
        v, x, body = text(b["v"]), text(b["x"]), b["body"]
        k = f"verif_k_{label}"
        return [f"let mut {k} : usize = 0 ; while {k} < {v} . len ( )", G(invariant.replace("$K", k).replace("$V", v)),
                "{", f"let {x} = & {v} [ {k} ] ; {k} += 1 ;", *body, "}"]      # index advanced first: `continue` cannot skip it
    return Rule("R2", "for $x in $v { $$body }", repl, why="for over &Vec -> indexed while (iteration order of slice::Iter)")


# ---------------------------------------------------------------------------------------------------------------------
# R14: `let f = |p, q: T| BODY;` whose only uses are direct calls `f(a, b)` -> `{ let p = a; let q: T = b; BODY }` at each call
# (beta reduction).  Declines (leaving the closure in place, which then fails closed) when the closure is used as a value, has
# pattern parameters, or a name its body mentions is re-bound between the definition and a call.
IDENT_RE = re.compile(r"^[A-Za-z_][A-Za-z0-9_]*$")


def inline_closures(toks, log):
    out = list(toks)
    progress = True
    while progress:
        progress = False
        i = 0
        while i + 4 < len(out):
            m = 1 if out[i + 1] == "mut" else 0
            if out[i] == "let" and i + 5 + m < len(out) and IDENT_RE.match(out[i + 1 + m]) and out[i + 2 + m] == "=" and (out[i + 3 + m] == "|" or (out[i + 3 + m] == "move" and out[i + 4 + m] == "|")):
                name = out[i + 1 + m]
                p0 = i + 4 + m if out[i + 3 + m] == "|" else i + 5 + m
                p1 = p0
                while p1 < len(out) and out[p1] != "|":
                    p1 += 1
                params_t = out[p0:p1]
                # split params at top-level commas
                params, cur, depth = [], [], 0
                for t in params_t:
                    if t in ("(", "[", "{", "<"): depth += 1
                    if t in (")", "]", "}", ">"): depth -= 1
                    if t == "," and depth == 0:
                        params.append(cur); cur = []
                    else:
                        cur.append(t)
                if cur: params.append(cur)
                if any(not IDENT_RE.match(p[0]) or (len(p) > 1 and p[1] != ":") for p in params):
                    i += 1; continue
                # body: up to the `;` at depth 0 (an explicit `-> Type` in front of a block body becomes the type of a local holding the result)
                k = p1 + 1
                body_start = k
                ret_ty = None
                if k < len(out) and out[k] == "->":
                    while k < len(out) and out[k] != "{":
                        k += 1
                    ret_ty = out[body_start + 1:k]
                    body_start = k
                while k < len(out) and out[k] != ";":
                    if out[k] in ("(", "[", "{"):
                        k = match_close(out, k)
                    k += 1
                if k >= len(out):
                    i += 1; continue
                body = out[body_start:k]
                rest = out[k + 1:]
                # uses
                uses = [j for j, t in enumerate(rest) if t == name]
                ok = bool(uses)
                for j in uses:
                    if j + 1 >= len(rest) or rest[j + 1] != "(" or (j > 0 and rest[j - 1] in (".", "::", "let", "&", "mut")):
                        ok = False
                body_ids = {t for t in body if IDENT_RE.match(t)} - {p[0] for p in params}
                last = uses[-1] if uses else 0
                rebound = {rest[j + 1] if rest[j + 1] != "mut" else rest[j + 2] for j in range(min(last, len(rest) - 2)) if rest[j] == "let"}
                # `?` inside the closure leaves the closure, not the function: inlining keeps the meaning only if every call is itself
                # immediately followed by `?` (the error goes to the caller's caller either way); `return` in the body: decline
                if "return" in body:
                    ok = False
                if "?" in body:
                    for j in uses:
                        c = match_close(rest, j + 1) if j + 1 < len(rest) and rest[j + 1] == "(" else None
                        if c is None or c + 1 >= len(rest) or rest[c + 1] != "?":
                            ok = False
                if not ok or (rebound & body_ids) or name in body:
                    i += 1; continue
                new_rest, j = [], 0
                while j < len(rest):
                    if rest[j] == name and j + 1 < len(rest) and rest[j + 1] == "(":
                        c = match_close(rest, j + 1)
                        args_t = rest[j + 2:c]
                        args, cur, depth = [], [], 0
                        for t in args_t:
                            if t in ("(", "[", "{"): depth += 1
                            if t in (")", "]", "}"): depth -= 1
                            if t == "," and depth == 0:
                                args.append(cur); cur = []
                            else:
                                cur.append(t)
                        if cur: args.append(cur)
                        if len(args) != len(params):
                            raise Undecided(f"closure `{name}` called with {len(args)} arguments, declared with {len(params)}")
                        new_rest.append("{")
                        for p, a in zip(params, args):
                            new_rest += ["let", *p, "=", *a, ";"]
                        if ret_ty:
                            new_rest += ["let", "verif_closure_result", ":", *ret_ty, "=", *body, ";", "verif_closure_result", "}"]
                        else:
                            new_rest += [*body, "}"]
                        j = c + 1
                    else:
                        new_rest.append(rest[j]); j += 1
                log.append(("R14", text(out[i:k + 1])[:160], f"inlined at {len(uses)} call site(s)", "closure used only by direct calls -> body inlined (beta reduction)"))
                out = out[:i] + new_rest
                progress = True
                break
            i += 1
    return out


# ---------------------------------------------------------------------------------------------------------------------
# R2 (normalisation): iterator chains `SRC.iter()[.rev()] .skip_while(..) .take_while(..) .filter(..) .map(..) .skip(n)` consumed by a
# `for` loop, or ending in find / find_map / any / all in tail / `return` position, are rewritten into the canonical
# `for it in SRC.iter()[.rev()] { <adapter tests> ; BODY }` form (each adapter with its own std meaning).  The unit's ordinary loop rule
# (with its invariant) then applies, so an algorithm re-expressed with adapters is DECIDED against the same invariant instead of
# losing the anchor.
_ADAPTERS = {"skip_while", "take_while", "filter", "map", "skip", "cloned", "copied"}
_TERMINALS = {"find", "find_map", "any", "all"}


def _closure_parts(arg_toks):
    """`| p | body...` -> (param_name, body tokens) or None"""
    if len(arg_toks) < 3 or arg_toks[0] != "|":
        return None
    if arg_toks[2] == "|" and IDENT_RE.match(arg_toks[1]):
        return arg_toks[1], arg_toks[3:]
    if arg_toks[1] == "&" and len(arg_toks) > 3 and arg_toks[3] == "|" and IDENT_RE.match(arg_toks[2]):
        return None
    return None


def _recv_start(out, i):
    """start index of the postfix expression that ends just before out[i] (a `.`)"""
    s = i
    while s > 0:
        t = out[s - 1]
        if t in (")", "]"):
            depth, q = 0, s - 1
            while q >= 0:
                if out[q] in (")", "]", "}"): depth += 1
                if out[q] in ("(", "[", "{"):
                    depth -= 1
                    if depth == 0: break
                q -= 1
            s = q; continue
        if IDENT_RE.match(t) and t not in ("in", "return", "let", "if", "else", "match", "mut") or t in (".", "::", "self", "?") or (t.isdigit() and s >= 2 and out[s - 2] == "."):
            s -= 1; continue
        break
    return s


def option_idioms(toks, log):
    """R9: `RECV.is_some_and(|x| BODY)` -> `(match RECV { Some(x) => BODY, None => false })`; likewise is_none_or / map_or(D, |x| BODY) / map(|x| BODY)
    (a `map` that was not an Option's gives text that does not compile: fails closed)"""
    out = list(toks)
    for _ in range(40):
        hit = None
        for j in range(len(out) - 3):
            if out[j] == "." and out[j + 1] in ("is_some_and", "is_none_or", "map_or") and out[j + 2] == "(":
                hit = j; break
            # Option::map with a closure, directly on a call result (`x.find(o).map(|at| ..)`); an iterator's map is handled before (normalize_chains)
            if out[j] == "." and out[j + 1] == "map" and out[j + 2] == "(" and out[j + 3] == "|" and j > 0 and out[j - 1] == ")":
                hit = j; break
        if hit is None:
            return out
        j = hit
        c = match_close(out, j + 2)
        args = out[j + 3:c]
        if args and args[-1] == ",":
            args = args[:-1]
        dflt = None
        if out[j + 1] == "map_or":
            d, k = 0, None
            for q, t in enumerate(args):
                if t in ("(", "[", "{"): d += 1
                elif t in (")", "]", "}"): d -= 1
                elif t == "," and d == 0:
                    k = q; break
            if k is None:
                out[j + 1] = "verif_untranslated_" + out[j + 1]; continue
            dflt, args = args[:k], args[k + 1:]
        elif out[j + 1] == "map":
            dflt = ["None"]
        else:
            dflt = ["false"] if out[j + 1] == "is_some_and" else ["true"]
        cp = _closure_parts(args)
        if cp is None:
            out[j + 1] = "verif_untranslated_" + out[j + 1]; continue        # fails closed (unknown method)
        x, body = cp
        s = _recv_start(out, j)
        some = ["Some", "(", "{", *body, "}", ")"] if out[j + 1] == "map" else ["{", *body, "}"]
        new = ["(", "match", *out[s:j], "{", "Some", "(", x, ")", "=>", *some, ",", "None", "=>", *dflt, "}", ")"]
        log.append(("R9", text(out[s:c + 1])[:170], text(new)[:170], f"Option::{out[j + 1]} with a closure -> match"))
        out = out[:s] + new + out[c + 1:]
    return out


def parser_idioms():
    """vocabulary of the parser units (prelude/parser.rs): tests on the kind of a pest node or of a parsed value that a change may add.
    Their results are uninterpreted: a decision routed through one of them is a decision the contract knows nothing about."""
    return [
        Rule("R6", "$n . as_rule ( ) == Rule :: $r", lambda b: f'node_has_rule ( & {text(b["n"])} , "{text(b["r"])}" )', why="pest rule test abstract (uninterpreted per node and rule name)"),
        Rule("R6", "$n . as_rule ( ) != Rule :: $r", lambda b: f'! node_has_rule ( & {text(b["n"])} , "{text(b["r"])}" )', why="pest rule test abstract"),
        Rule("R6", "matches ! ( $v , Value :: $k ( $$p ) )", lambda b: f'value_has_kind ( & {text(b["v"])} , "{text(b["k"])}" )', why="test on the syntactic kind of a parsed value: abstract (uninterpreted)"),
        Rule("R6", "matches ! ( $v , Value :: $k { $$p } )", lambda b: f'value_has_kind ( & {text(b["v"])} , "{text(b["k"])}" )', why="test on the syntactic kind of a parsed value: abstract (uninterpreted)"),
    ]


def normalize_chains(toks, log):
    out = list(toks)
    guard = 0
    start = 0
    while guard < 50:
        guard += 1
        # locate `. iter ( )` followed by something from the sets
        i = None
        for j in range(start, len(out) - 3):
            if out[j] == "." and out[j + 1] == "iter" and out[j + 2] == "(" and out[j + 3] == ")":
                k = j + 4
                rev = False
                if out[k:k + 4] == [".", "rev", "(", ")"]:
                    rev = True; k += 4
                if k + 2 < len(out) and out[k] == "." and out[k + 1] in (_ADAPTERS | _TERMINALS) and out[k + 2] == "(":
                    i = j; break
        if i is None:
            return out
        # source expression: walk backwards over a postfix expression
        s = i
        while s > 0:
            t = out[s - 1]
            if t in (")", "]"):
                # find the matching opener
                depth, q = 0, s - 1
                while q >= 0:
                    if out[q] in (")", "]", "}"): depth += 1
                    if out[q] in ("(", "[", "{"):
                        depth -= 1
                        if depth == 0: break
                    q -= 1
                s = q; continue
            if IDENT_RE.match(t) and t not in ("in", "return", "let", "if", "else", "match", "mut") or t in (".", "::", "self") or (t.isdigit() and s >= 2 and out[s - 2] == "."):
                s -= 1; continue
            break
        src = out[s:i]
        k = i + 4
        rev = False
        if out[k:k + 4] == [".", "rev", "(", ")"]:
            rev = True; k += 4
        chain = []
        while k + 2 < len(out) and out[k] == "." and out[k + 1] in (_ADAPTERS | _TERMINALS) and out[k + 2] == "(":
            c = match_close(out, k + 2)
            chain.append((out[k + 1], out[k + 3:c]))
            k = c + 1
            if chain[-1][0] in _TERMINALS:
                break
        end = k
        has_term = bool(chain) and chain[-1][0] in _TERMINALS
        head = [*src, ".", "iter", "(", ")"] + ([".", "rev", "(", ")"] if rev else [])
        n = guard
        it = f"verif_it_{n}"

        def adapters(lst):
            pre, code, cur = [], [], it
            for a_i, (name, args) in enumerate(lst):
                if name in ("cloned", "copied"):
                    continue
                if name == "skip":
                    cnt = f"verif_skip_{n}_{a_i}"
                    pre += ["let", "mut", cnt, ":", "usize", "=", *args, ";"]
                    code += ["if", cnt, ">", "0", "{", cnt, "-=", "1", ";", "continue", ";", "}"]
                    continue
                cp = _closure_parts(args)
                if cp is None:
                    return None
                p, body = cp
                if name == "skip_while":
                    fl = f"verif_skipping_{n}_{a_i}"
                    pre += ["let", "mut", fl, "=", "true", ";"]
                    code += ["if", fl, "{", "let", p, "=", "&", cur, ";", "if", *body, "{", "continue", ";", "}", fl, "=", "false", ";", "}"]
                elif name == "take_while":
                    code += ["{", "let", p, "=", "&", cur, ";", "if", "!", "(", *body, ")", "{", "break", ";", "}", "}"]
                elif name == "filter":
                    code += ["{", "let", p, "=", "&", cur, ";", "if", "!", "(", *body, ")", "{", "continue", ";", "}", "}"]
                elif name == "map":
                    nxt = f"verif_m_{n}_{a_i}"
                    code += ["let", nxt, "=", "{", "let", p, "=", cur, ";", *body, "}", ";"]
                    cur = nxt
            return pre, code, cur

        # ---- FOR form:  for PAT in CHAIN {
        if not has_term and s >= 2 and out[s - 1] == "in" and end < len(out) and out[end] == "{":
            f0 = s - 2
            while f0 >= 0 and out[f0] != "for":
                f0 -= 1
            pat = out[f0 + 1:s - 1] if f0 >= 0 else None
            r = adapters(chain)
            if pat is None or r is None or len(pat) != 1:
                start = i + 1; continue
            pre, code, cur = r
            bc = match_close(out, end)
            new = [*pre, "for", it, "in", *head, "{", *code, "let", pat[0], "=", cur, ";", *out[end + 1:bc], "}"]
            log.append(("R2", text(out[f0:end])[:170], text(new[:len(pre) + 12])[:170] + " ..", "iterator adapters -> canonical for loop with the adapters' tests in front of the body"))
            out = out[:f0] + new + out[bc + 1:]
            start = 0
            continue
        # ---- RETURN / tail form
        is_ret = s >= 1 and out[s - 1] == "return" and end < len(out) and out[end] == ";"
        is_tail = end == len(out) and (s == 0 or out[s - 1] in (";", "}"))
        if has_term and (is_ret or is_tail):
            r = adapters(chain[:-1])
            cp = _closure_parts(chain[-1][1])
            if r is None or cp is None:
                start = i + 1; continue
            pre, code, cur = r
            p, body = cp
            tname = chain[-1][0]
            if tname == "find":
                test = ["{", "let", p, "=", "&", cur, ";", "if", *body, "{", "return", "Some", "(", cur, ")", ";", "}", "}"]; dflt = ["None"]
            elif tname == "find_map":
                test = ["{", "let", p, "=", cur, ";", "let", f"verif_fm_{n}", "=", *body, ";", "if", f"verif_fm_{n}", ".", "is_some", "(", ")", "{", "return", f"verif_fm_{n}", ";", "}", "}"]; dflt = ["None"]
            elif tname == "any":
                test = ["{", "let", p, "=", cur, ";", "if", *body, "{", "return", "true", ";", "}", "}"]; dflt = ["true" if False else "false"]
            else:
                test = ["{", "let", p, "=", cur, ";", "if", "!", "(", *body, ")", "{", "return", "false", ";", "}", "}"]; dflt = ["true"]
            new = [*pre, "for", it, "in", *head, "{", *code, *test, "}"]
            a0 = s - 1 if is_ret else s
            tailtoks = (["return", *dflt, ";"] if is_ret else dflt)
            log.append(("R2", text(out[a0:end + (1 if is_ret else 0)])[:170], text(new[:14])[:170] + " ..", f"iterator chain ending in {tname}() in return position -> canonical for loop with early return"))
            out = out[:a0] + new + tailtoks + out[end + (1 if is_ret else 0):]
            start = 0
            continue
        # ---- `let NAME = CHAIN ;` used once by a later `for x in NAME {`
        if not has_term and s >= 3 and out[s - 1] == "=" and out[s - 3] == "let" and IDENT_RE.match(out[s - 2]) and end < len(out) and out[end] == ";":
            name = out[s - 2]
            uses = [q for q in range(end + 1, len(out)) if out[q] == name]
            if len(uses) == 1 and out[uses[0] - 1] == "in" and uses[0] + 1 < len(out) and out[uses[0] + 1] == "{":
                chain_toks = out[s:end]
                u = uses[0]
                out = out[:s - 3] + out[end + 1:u] + chain_toks + out[u + 1:]
                log.append(("R2", f"let {name} = <iterator chain>; .. for _ in {name}", "chain written at its single use", "single-use binding of an iterator chain inlined"))
                start = 0
                continue
        start = i + 1
    return out


# ---------------------------------------------------------------------------------------------------------------------
# R15: pure predicate helpers.  A change may route a decision through a helper method the unit has never seen (`scope.owns_runtime_frame()`).
# Every `fn name(&self) -> bool { EXPR }` of the given impl whose body is ONE expression (no statement) and that is not already under
# contract is carried along with its own body as its contract (`ensures r == (EXPR)`): nothing is assumed about it, the callers'
# contracts are checked against what it computes.  A body Verus cannot read as a specification expression fails closed (unit does
# not compile -> undecided).
def pure_helpers(src, rel, within, have, log, rules=()):
    from .extract import find_block_after
    toks = src.toks(rel)
    try:
        _, lo, hi = find_block_after(toks, within)
    except Exception as e:
        raise Undecided(f"{rel}: cannot locate `{within}`: {e}")
    out, j = [], lo + 1
    while j < hi:
        t = toks[j]
        if t == "fn":
            name = toks[j + 1]
            k = j
            while k < hi and toks[k] not in ("{", ";"):
                if toks[k] in ("(", "["):
                    k = match_close(toks, k)
                k += 1
            if k >= hi or toks[k] == ";":
                j = k + 1
                continue
            c = match_close(toks, k)
            sig, body = toks[j:k], toks[k + 1:c]
            j = c + 1
            if name in have or ";" in body or "self" not in sig:
                continue
            if text(sig[2:]).replace(" ", "") != "(&self)->bool":
                continue
            b = translate(body, list(rules), log, f"{within} :: {name}")
            try:
                check_closed(b, name)
            except Undecided:
                continue
            # a specification expression: no calls (tuple-variant patterns `Type::Variant(..)` are not calls)
            if any(b[i + 1] == "(" and re.match(r"[a-z_]\w*$", b[i]) and b[i] not in ("match", "if") for i in range(len(b) - 1)):
                continue
            log.append(("R15", f"fn {name}(&self) -> bool", f"carried along, contract = its own body", "pure predicate helper"))
            out.append(f"    pub fn {name}(&self) -> (r: bool) ensures r == ({render(b, 0).strip()})\n    {{\n{render(b, 2)}\n    }}")
        elif t == "{":
            j = match_close(toks, j) + 1
        else:
            j += 1
    return "\n".join(out)


# ---------------------------------------------------------------------------------------------------------------------
# R16: `match &BUF[..] { [a, b, rest @ .., z] if G => BODY, ... , other => BODY }` over a byte vector -> if / else-if chain.
# Each slice pattern becomes a length test plus element tests in pattern order; an identifier element binds a reference to that
# element, `name @ ..` binds the sub-slice (through `slice_sub`, contract: the sub-range).  Arms are tried in source order, an arm's
# guard after its pattern -- the order `match` itself uses.
def slice_match_to_if(toks, buf, log, sub_fn="slice_sub", all_fn="slice_all"):
    from .extract import split_arms
    p = Pat(f"match & {buf} [ .. ] {{")
    out = list(toks)
    for i in range(len(out)):
        r = p.match_at(out, i)
        if r is None:
            continue
        o = r[0] - 1
        c = match_close(out, o)
        arms = split_arms(out[o + 1:c])
        chain = []
        for pat, body in arms:
            guard = None
            d = 0
            for q, t in enumerate(pat):
                if t in ("(", "[", "{"): d += 1
                elif t in (")", "]", "}"): d -= 1
                elif t == "if" and d == 0:
                    guard, pat = pat[q + 1:], pat[:q]
                    break
            # alternatives
            alts, cur, d = [], [], 0
            for t in pat:
                if t in ("(", "[", "{"): d += 1
                elif t in (")", "]", "}"): d -= 1
                if t == "|" and d == 0:
                    alts.append(cur); cur = []
                else:
                    cur.append(t)
            alts.append(cur)
            if len(alts) == 1 and len(alts[0]) == 1 and IDENT_RE.match(alts[0][0]):
                # catch-all binding
                name = alts[0][0]
                chain.append((["true"], [] if name == "_" else ["let", name, "=", all_fn, "(", "&", buf, ")", ";"], guard, body))
                continue
            conds, binds = [], []
            for alt in alts:
                if not (alt and alt[0] == "[" and alt[-1] == "]"):
                    raise Undecided(f"slice match on {buf}: pattern `{text(alt)}` is not a slice pattern")
                elems, cur, d = [], [], 0
                for t in alt[1:-1]:
                    if t in ("(", "[", "{"): d += 1
                    elif t in (")", "]", "}"): d -= 1
                    if t == "," and d == 0:
                        elems.append(cur); cur = []
                    else:
                        cur.append(t)
                if cur:
                    elems.append(cur)
                rest_at = [k for k, e in enumerate(elems) if e[-1] == ".."]
                if len(rest_at) > 1:
                    raise Undecided(f"slice match on {buf}: two rest patterns")
                n = len(elems)
                tests, b = [], []
                if rest_at:
                    k0 = rest_at[0]
                    tests.append([buf, ".", "len", "(", ")", ">=", str(n - 1)])
                else:
                    k0 = None
                    tests.append([buf, ".", "len", "(", ")", "==", str(n)])
                for k, e in enumerate(elems):
                    if k0 is not None and k == k0:
                        if len(e) == 3 and e[1] == "@":
                            after = n - 1 - k
                            b += ["let", e[0], "=", sub_fn, "(", "&", buf, ",", str(k), ",", buf, ".", "len", "(", ")", "-", str(after), ")", ";"]
                        elif e != [".."]:
                            raise Undecided(f"slice match on {buf}: rest pattern `{text(e)}`")
                        continue
                    idx = [str(k)] if (k0 is None or k < k0) else [buf, ".", "len", "(", ")", "-", str(n - k)]
                    if len(e) == 1 and IDENT_RE.match(e[0]) and not e[0][0].isupper():
                        b += ["let", e[0], "=", "&", buf, "[", *idx, "]", ";"]
                    elif len(e) == 1:
                        tests.append([buf, "[", *idx, "]", "==", e[0]])
                    else:
                        raise Undecided(f"slice match on {buf}: element pattern `{text(e)}`")
                conds.append(tests)
                binds.append(b)
            if len(alts) > 1 and any(binds):
                raise Undecided(f"slice match on {buf}: bindings inside alternatives")
            cond = []
            for a_i, tests in enumerate(conds):
                if a_i:
                    cond.append("||")
                cond.append("(")
                for t_i, t in enumerate(tests):
                    if t_i:
                        cond.append("&&")
                    cond += t
                cond.append(")")
            chain.append((cond, binds[0], guard, body))
        new = []
        # an arm whose guard fails falls through to the next arm: each arm is `if PAT && GUARD` (guards here never use the bindings
        # unless stated: a guard mentioning a bound name fails closed)
        for a_i, (cond, b, guard, body) in enumerate(chain):
            bound = {b[k + 1] for k in range(len(b)) if b[k] == "let"}
            if guard and bound & set(guard):
                raise Undecided(f"slice match on {buf}: guard uses a name bound by its pattern")
            full = ["(", *cond, ")"] + (["&&", "(", *guard, ")"] if guard else [])
            bd = body[1:-1] if body and body[0] == "{" else [*body, ";"]
            new += (["else"] if a_i else []) + ["if", *full, "{", *b, *bd, "}"]
        log.append(("R16", f"match &{buf}[..] {{ {len(chain)} slice-pattern arms }}", "if / else-if chain (length test, element tests, bindings), arms in source order", "slice patterns"))
        return out[:i] + new + out[c + 1:]
    raise Undecided(f"`match &{buf}[..]` not found")


# ---------------------------------------------------------------------------------------------------------------------
# R2 (expression position): `V.iter().all(|x| BODY)` / `.any(..)` on a vector named by one identifier, anywhere an expression may stand
# -> a counting loop whose invariant is BODY itself read as a specification (`forall j < i: BODY[x := &V[j]]`).  BODY must be pure and
# readable in specification context (comparisons, the vocabulary's when_used_as_spec functions); otherwise the text does not compile
# and the unit is undecided.
_self_spec_n = [0]


def self_spec_all_any():
    def mk(kind):
        def repl(b):
            a, x, body = text(b["a"]), text(b["x"]), b["body"]
            _self_spec_n[0] += 1
            k = _self_spec_n[0]
            i, r = f"verif_si_{k}", f"verif_sr_{k}"
            spec = lambda j: "(" + text([f"(&{a}@[{j}])" if t == x else t for t in body]) + ")"
            if kind == "all":
                inv = (f"invariant {i} <= {a}.len(), {r} == (forall|verif_j: int| 0 <= verif_j < {i} ==> {spec('verif_j')}) decreases {a}.len() - {i}")
                return ["{", f"let mut {i} : usize = 0 ; let mut {r} = true ; while {i} < {a} . len ( )", G(inv),
                        "{", f"let {x} = & {a} [ {i} ] ; if ! (", *body, f") {{ {r} = false ; }} {i} += 1 ;", "}", r, "}"]
            inv = (f"invariant {i} <= {a}.len(), {r} == (exists|verif_j: int| 0 <= verif_j < {i} && {spec('verif_j')}) decreases {a}.len() - {i}")
            return ["{", f"let mut {i} : usize = 0 ; let mut {r} = false ; while {i} < {a} . len ( )", G(inv),
                    "{", f"let {x} = & {a} [ {i} ] ; if (", *body, f") {{ {r} = true ; }} {i} += 1 ;", "}", r, "}"]
        return repl
    return [Rule("R2", "$a . iter ( ) . all ( | $x | $$body )", mk("all"), why="all() over a vector in expression position -> loop; the closure body doubles as the invariant"),
            Rule("R2", "$a . iter ( ) . any ( | $x | $$body )", mk("any"), why="any() over a vector in expression position -> loop; the closure body doubles as the invariant")]


# ---------------------------------------------------------------------------------------------------------------------
# R9: `P1 | P2 if G => B` (Verus: or-pattern with a guard is not supported) -> `P1 if G => B, P2 if G => B`.  Rust tries the guard for each
# alternative in order and moves on to the next alternative / arm when it fails, which is what the two consecutive arms do.
def split_or_guard_arms(toks, log):
    from .extract import split_arms
    out = list(toks)
    for _ in range(60):
        changed = False
        i = 0
        while i < len(out):
            if out[i] != "match":
                i += 1; continue
            j = i + 1
            while j < len(out) and out[j] != "{":
                if out[j] in ("(", "["):
                    j = match_close(out, j)
                j += 1
            if j >= len(out):
                break
            c = match_close(out, j)
            arms = split_arms(out[j + 1:c])
            new, did = [], False
            for pat, body in arms:
                d, g = 0, None
                for q, t in enumerate(pat):
                    if t in ("(", "[", "{"): d += 1
                    elif t in (")", "]", "}"): d -= 1
                    elif t == "if" and d == 0:
                        g = q; break
                alts, cur, d = [], [], 0
                for t in (pat[:g] if g is not None else pat):
                    if t in ("(", "[", "{"): d += 1
                    elif t in (")", "]", "}"): d -= 1
                    if t == "|" and d == 0:
                        alts.append(cur); cur = []
                    else:
                        cur.append(t)
                alts.append(cur)
                if g is not None and len(alts) > 1:
                    did = True
                    for a in alts:
                        new += [*a, *pat[g:], "=>", *body, ","]
                else:
                    new += [*pat, "=>", *body, ","]
            if did:
                log.append(("R9", "P1 | P2 if G => B", "P1 if G => B, P2 if G => B", "or-pattern with a guard split into consecutive arms"))
                out = out[:j + 1] + new + out[c:]
                changed = True
                break
            i = j + 1
        if not changed:
            return out
    return out


# R9: an iterator, by the sequence it yields -- the adapters a chain may use, each with std's meaning
VITER_SPEC = r"""
// an iterator, by the sequence it yields (R9: the adapters a chain may use)
pub struct VIter<T> { pub v: Vec<T> }
impl<T> VIter<T> {
    pub fn cloned(self) -> (r: VIter<T>) ensures r.v@ == self.v@ { self }
    #[verifier::external_body] pub fn rev(self) -> (r: VIter<T>) ensures r.v@ == self.v@.reverse() { unimplemented!() }
    #[verifier::external_body] pub fn skip(self, n: usize) -> (r: VIter<T>) ensures r.v@ == (if n <= self.v@.len() { self.v@.skip(n as int) } else { Seq::empty() }) { unimplemented!() }
    #[verifier::external_body] pub fn take(self, n: usize) -> (r: VIter<T>) ensures r.v@ == (if n <= self.v@.len() { self.v@.take(n as int) } else { self.v@ }) { unimplemented!() }
    pub fn collect_vec(self) -> (r: Vec<T>) ensures r@ == self.v@ { self.v }
}
"""


# ---------------------------------------------------------------------------------------------------------------------
# format!/write! argument lists with `{}` and inline `{name}` placeholders only: the pieces appended in order.  The generated file needs
# FORMAT_PRELUDE (trait Disp: Display of a char / a text / a number).
FORMAT_PRELUDE = r"""
pub fn strlit_chars(s: &'static str) -> (r: Vec<char>) ensures r@ == s@ { s.chars().collect() }
pub fn push_chars(dst: &mut Vec<char>, src: &Vec<char>)
    ensures final(dst)@ == old(dst)@ + src@
{
    let mut i: usize = 0;
    while i < src.len()
        invariant i <= src@.len(), dst@ == old(dst)@ + src@.subrange(0, i as int)
        decreases src@.len() - i
    { dst.push(src[i]); i += 1; proof { assert(src@.subrange(0, i as int) =~= src@.subrange(0, i - 1).push(src@[i - 1])); } }
    proof { assert(src@.subrange(0, src@.len() as int) =~= src@); }
}
pub uninterp spec fn dec_text(n: int) -> Seq<char>;          // the decimal numeral of n (Display of an integer)
pub trait Disp { spec fn disp(&self) -> Seq<char>; fn push_to(&self, out: &mut Vec<char>) ensures final(out)@ == old(out)@ + self.disp(); }
impl Disp for char { open spec fn disp(&self) -> Seq<char> { seq![*self] } fn push_to(&self, out: &mut Vec<char>) { out.push(*self); } }
impl Disp for Vec<char> { open spec fn disp(&self) -> Seq<char> { self@ } fn push_to(&self, out: &mut Vec<char>) { push_chars(out, self); } }
impl Disp for usize { open spec fn disp(&self) -> Seq<char> { dec_text(*self as int) } #[verifier::external_body] fn push_to(&self, out: &mut Vec<char>) { unimplemented!() } }
"""


def format_args(b):
    """argument list `"lit{}lit{name}..", a, b` (pattern variable `a`) -> a block that appends the pieces in order"""
    toks = b["a"]
    lit = toks[0]
    if not (lit.startswith('"') and lit.endswith('"')):
        return None
    rest, cur, d = [], [], 0
    for t in toks[1:]:
        if t in ("(", "[", "{"): d += 1
        elif t in (")", "]", "}"): d -= 1
        if t == "," and d == 0:
            if cur: rest.append(cur)
            cur = []
        else:
            cur.append(t)
    if cur: rest.append(cur)
    s = lit[1:-1]
    parts, i, acc = [], 0, ""
    while i < len(s):
        if s[i] == "{":
            j = s.find("}", i)
            if j < 0: return None
            name = s[i + 1:j]
            if acc: parts.append(("lit", acc)); acc = ""
            if name == "":
                if not rest: return None
                parts.append(("expr", text(rest.pop(0))))
            elif re.match(r"[A-Za-z_]\w*$", name):
                parts.append(("expr", name))
            else:
                return None
            i = j + 1
        elif s[i] == "\\":
            acc += s[i:i + 2]; i += 2
        else:
            acc += s[i]; i += 1
    if acc: parts.append(("lit", acc))
    if rest: return None
    out = ["{ let mut verif_out : Vec < char > = Vec :: new ( ) ;"]
    for k, v in parts:
        if k == "lit":
            out.append(f'push_chars ( & mut verif_out , & strlit_chars ( "{v}" ) ) ;')
            out.append(G(f'proof {{ reveal_strlit("{v}"); }}'))
        else:
            out.append(f"( {v} ) . push_to ( & mut verif_out ) ;")
    out.append("verif_out }")
    return out

"""Minimal Rust lexer used by the V-t / K-t extractor.

It yields a flat list of token strings (comments dropped, whitespace dropped).  Strings, raw strings,
byte strings, char literals, lifetimes, numbers and multi-character punctuation are single tokens, so
that brace matching and pattern matching cannot be confused by braces inside literals.
"""
import re

PUNCT3 = ["<<=", ">>=", "...", "..="]
PUNCT2 = ["::", "->", "=>", "==", "!=", "<=", ">=", "&&", "||", "+=", "-=", "*=", "/=", "%=", "^=",
          "&=", "|=", "<<", ">>", ".."]

_ident = re.compile(r"[A-Za-z_][A-Za-z0-9_]*")
_number = re.compile(r"0[xX][0-9a-fA-F_]+(?:[iu](?:8|16|32|64|128|size))?|0[bB][01_]+(?:[iu](?:8|16|32|64|128|size))?|0[oO][0-7_]+|"
                     r"[0-9][0-9_]*(?:\.[0-9][0-9_]*)?(?:[eE][+-]?[0-9_]+)?(?:[iuf](?:8|16|32|64|128|size))?")


class LexError(Exception):
    pass


def lex(src: str):
    toks = []
    i, n = 0, len(src)
    while i < n:
        c = src[i]
        if c.isspace():
            i += 1
            continue
        if src.startswith("//", i):
            j = src.find("\n", i)
            i = n if j < 0 else j
            continue
        if src.startswith("/*", i):
            depth, j = 1, i + 2
            while j < n and depth:
                if src.startswith("/*", j):
                    depth += 1; j += 2
                elif src.startswith("*/", j):
                    depth -= 1; j += 2
                else:
                    j += 1
            i = j
            continue
        # raw strings r"..", r#".."#, br"..."
        m = re.match(r"b?r(#*)\"", src[i:])
        if m:
            hashes = m.group(1)
            end = src.find('"' + hashes, i + m.end())
            if end < 0:
                raise LexError("unterminated raw string")
            j = end + 1 + len(hashes)
            toks.append(src[i:j]); i = j
            continue
        if c == '"' or (c == 'b' and i + 1 < n and src[i + 1] == '"'):
            j = i + (2 if c == 'b' else 1)
            while j < n and src[j] != '"':
                j += 2 if src[j] == '\\' else 1
            if j >= n:
                raise LexError("unterminated string")
            toks.append(src[i:j + 1]); i = j + 1
            continue
        if c == "'" or (c == 'b' and i + 1 < n and src[i + 1] == "'"):
            k = i + (1 if c == 'b' else 0)
            # char literal or lifetime
            m = re.match(r"'(?:\\(?:x[0-9a-fA-F]{2}|u\{[0-9a-fA-F_]+\}|.)|[^\\'])'", src[k:])
            if m:
                toks.append(src[i:k + m.end()]); i = k + m.end()
                continue
            m = re.match(r"'[A-Za-z_][A-Za-z0-9_]*", src[k:])
            if m and c == "'":
                toks.append(src[i:i + m.end()]); i += m.end()
                continue
            raise LexError(f"bad quote at {i}: {src[i:i+20]!r}")
        m = _ident.match(src, i)
        if m:
            # raw identifiers r#type
            if m.group(0) == "r" and src.startswith("#", m.end()):
                m2 = _ident.match(src, m.end() + 1)
                if m2:
                    toks.append(src[i:m2.end()]); i = m2.end()
                    continue
            toks.append(m.group(0)); i = m.end()
            continue
        m = _number.match(src, i)
        if m:
            # do not swallow `1..2` or `1.method()`
            t = m.group(0)
            if "." in t and (src.startswith("..", i + t.index(".")) or
                             re.match(r"\.[A-Za-z_]", src[i + t.index("."):])):
                t = t[:t.index(".")]
            toks.append(t); i += len(t)
            continue
        for p in PUNCT3:
            if src.startswith(p, i):
                toks.append(p); i += 3
                break
        else:
            for p in PUNCT2:
                if src.startswith(p, i):
                    toks.append(p); i += 2
                    break
            else:
                toks.append(c); i += 1
    return toks


OPEN = {"(": ")", "[": "]", "{": "}"}
CLOSE = {")", "]", "}"}


def match_close(toks, i):
    """index of the bracket closing toks[i] (which must be an opening bracket)"""
    depth = 0
    j = i
    while j < len(toks):
        t = toks[j]
        if t in OPEN:
            depth += 1
        elif t in CLOSE:
            depth -= 1
            if depth == 0:
                return j
        j += 1
    raise LexError("unbalanced")


NOSPACE_BEFORE = {")", "]", ",", ";", ".", "?", ":", "::"}
NOSPACE_AFTER = {"(", "[", ".", "!", "::", "&", "#"}


def render(toks, indent=2):
    """Pretty-ish rendering of a token list (one statement per line)."""
    out, line, depth = [], [], indent
    paren = 0

    def flush():
        nonlocal line
        if line:
            s = ""
            for k, t in enumerate(line):
                if k and not (t in NOSPACE_BEFORE or line[k - 1] in NOSPACE_AFTER or
                              (t == "(" and re.match(r"[A-Za-z_0-9]", line[k - 1][-1:]) and line[k - 1] not in ("if", "while", "match", "in", "return", "let", "=", "for"))
                              or (t == "[" and re.match(r"[A-Za-z_0-9\)\]]", line[k - 1][-1:]))
                              or (t == "!" and k + 1 < len(line) and line[k + 1] in ("(", "[", "{") and re.match(r"[A-Za-z_]", line[k - 1]))):
                    s += " "
                s += t
            out.append("    " * depth + s)
            line = []

    for t in toks:
        if t.startswith("\x01"):
            flush(); out.append("    " * depth + t[1:].replace("\n", "\n" + "    " * depth)); continue
        if t in ("(", "["):
            paren += 1
        elif t in (")", "]"):
            paren -= 1
        if t == "{" and paren == 0:
            line.append(t); flush(); depth += 1
        elif t == "}" and paren == 0:
            flush(); depth -= 1; line.append(t); flush()
        elif t == ";" and paren == 0:
            line.append(t); flush()
        else:
            line.append(t)
    flush()
    # join `}` followed by `else`/`,`/`?`/`;`/`)` lines
    res = []
    for l in out:
        st = l.strip()
        if res and res[-1].strip().endswith("}") and (st.startswith("else") or st[:1] in (",", "?", ";", ")", ".")):
            res[-1] = res[-1] + " " + st
        else:
            res.append(l)
    return "\n".join(res)


def text(toks):
    return render(toks, 0).replace("\n", " ")

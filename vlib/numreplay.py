"""Replay of Kani counterexamples of the numeric units on the real CLI: decode kani's concrete-playback byte vectors into MScript
literals, build a program, compute what the property statement demands (exact value, promoted kind, failure) in Python, run the program
on the binary built from the tree under check and compare.  A replay aid only: the obligation has already failed."""
import math, re, struct
from . import cli

KIND_NAMES = ["int", "bigint", "float", "byte"]
SIZES = {"int": 4, "bigint": 16, "float": 8, "byte": 1}
SYMS = {"add": "+", "sub": "-", "mul": "*", "div": "/", "rem": "%", "bitand": "&", "bitor": "|", "bitxor": "^", "shl": "<<", "shr": ">>",
        "lt": "<", "le": "<=", "gt": ">", "ge": ">=", "eq": "=="}


def parse_playback(text):
    """[[bytes], ...] from a `kani concrete playback` unit test"""
    return [[int(x) for x in m.group(1).split(",") if x.strip()] for m in re.finditer(r"vec!\[([0-9, ]*)\],", text)]


def decode(kind, bs):
    b = bytes(bs)
    if kind == "int":
        return int.from_bytes(b, "little", signed=True)
    if kind == "bigint":
        return int.from_bytes(b, "little", signed=True)
    if kind == "byte":
        return b[0]
    return struct.unpack("<d", b)[0]


def literal(kind, v):
    """an MScript expression of exactly this kind and value (None: not expressible, e.g. NaN)"""
    if kind == "int":
        if v == -2**31:
            return "(0 - 2147483647 - 1)"          # `-2147483648` would be read as a negated bigint literal
        return str(v) if v >= 0 else f"(0 - {-v})"
    if kind == "bigint":
        if v == -2**127:
            return f"(B0 - B{2**127 - 1} - B1)"
        return f"B{v}" if v >= 0 else f"(B0 - B{-v})"
    if kind == "byte":
        return "0b" + bin(v)[2:]
    if math.isnan(v) or math.isinf(v):
        return None
    s = ("%.1100f" % abs(v)).rstrip("0")
    if s.endswith("."):
        s += "0"
    if len(s) > 1200:
        return None
    return s if math.copysign(1.0, v) > 0 else f"(0.0 - {s})"


def promote(l, r):
    if "float" in (l, r): return "float"
    if l == r: return l
    if l == "byte": return r
    if r == "byte": return l
    return "bigint"


RANGE = {"int": (-2**31, 2**31 - 1), "bigint": (-2**127, 2**127 - 1), "byte": (0, 255)}
WIDTH = {"int": 32, "bigint": 128, "byte": 8}


def tdiv(x, y):
    q = abs(x) // abs(y)
    return q if (x >= 0) == (y >= 0) else -q


def spec_binop(op, lk, a, rk, b):
    """('ok', kind, value) or ('fail',) as the property statement defines it"""
    if op in ("lt", "le", "gt", "ge", "eq"):
        x, y = (float(a), float(b)) if "float" in (lk, rk) else (a, b)
        return ("ok", "bool", {"lt": x < y, "le": x <= y, "gt": x > y, "ge": x >= y, "eq": x == y}[op])
    pk = promote(lk, rk)
    if pk == "float":
        if op in ("bitand", "bitor", "bitxor", "shl", "shr"):
            return ("fail",)
        x, y = float(a), float(b)
        if op in ("div", "rem") and y == 0.0:
            return ("fail",)
        try:
            v = {"add": lambda: x + y, "sub": lambda: x - y, "mul": lambda: x * y, "div": lambda: x / y, "rem": lambda: math.fmod(x, y)}[op]()
        except (OverflowError, ValueError):
            return ("skip",)
        return ("ok", "float", v)
    lo, hi = RANGE[pk]
    if op in ("div", "rem") and b == 0:
        return ("fail",)
    if op in ("shl", "shr"):
        if b < 0 or b >= WIDTH[pk]:
            return ("fail",)
        if op == "shl":
            m = (a << b) & ((1 << WIDTH[pk]) - 1)
            v = m - (1 << WIDTH[pk]) if pk != "byte" and m >> (WIDTH[pk] - 1) else m
        else:
            v = a >> b
        return ("ok", pk, v)
    v = {"add": lambda: a + b, "sub": lambda: a - b, "mul": lambda: a * b, "div": lambda: tdiv(a, b), "rem": lambda: a - tdiv(a, b) * b,
         "bitand": lambda: a & b, "bitor": lambda: a | b, "bitxor": lambda: a ^ b}[op]()
    if op == "rem" and not (lo <= v <= hi):
        return ("fail",)
    return ("ok", pk, v) if lo <= v <= hi else ("fail",)


def parse_value(kind, text):
    t = text.strip()
    try:
        if kind == "bool": return {"true": True, "false": False}[t]
        if kind == "byte": return int(t[2:], 2) if t.startswith("0b") else int(t)
        if kind == "float": return float(t)
        return int(t)
    except Exception:
        return None


def judge(expect, run):
    """-> (reproduced: bool, actual: str)"""
    out = [l for l in run["stdout"].splitlines() if l.strip() and not l.startswith("Compiled in")]
    panicked = run["exit"] == 101 or "panicked at" in run["stderr"]
    if run["exit"] != 0:
        actual = "Rust panic (exit 101)" if panicked else f"MScript error (exit {run['exit']})"
        if expect[0] == "fail":
            return (panicked, actual + (" -- a Rust panic is not an MScript run-time error (C17)" if panicked else ""))
        return (True, actual)
    if len(out) < 2:
        return (False, "unexpected output: " + run["stdout"][-200:])
    kind, val = out[-2].strip(), out[-1]
    actual = f"{kind} {val.strip()}"
    if expect[0] == "fail":
        return (True, actual)
    v = parse_value(expect[1], val)
    same = kind == expect[1] and v is not None and (v == expect[2] or (isinstance(v, float) and math.isnan(v) and math.isnan(expect[2])))
    return (not same, actual)


def replay_binop(repo, op, lk, rk, a, b):
    la, lb = literal(lk, a), literal(rk, b)
    if la is None or lb is None:
        return {"replayed_on_real_cli": False, "why": "an operand (NaN / infinity / very long decimal) cannot be written as an MScript literal", "operands": [repr(a), repr(b)]}
    expect = spec_binop(op, lk, a, rk, b)
    if expect[0] == "skip":
        return {"replayed_on_real_cli": False, "why": "expected value not computable in the replay aid", "operands": [repr(a), repr(b)]}
    # the equ handler pops the right operand first and calls right.equals(left): the harness's receiver is the right operand of `==`
    expr = f"b {SYMS[op]} a" if op == "eq" else f"a {SYMS[op]} b"
    prog = f"a = {la}\nb = {lb}\nr = {expr}\nprint typeof r\nprint r\n"
    run = cli.run_program(repo, prog)
    rep, actual = judge(expect, run)
    return {"replayed_on_real_cli": True, "reproduced_on_real_cli": rep, "operands": {"a": f"{lk} {a!r}", "b": f"{rk} {b!r}"},
            "expected_by_the_property": "a failure (no value)" if expect[0] == "fail" else f"{expect[1]} {expect[2]!r}", "actual": actual, **run}


def replay_neg(repo, k, a):
    la = literal(k, a)
    if la is None:
        return {"replayed_on_real_cli": False, "why": "operand cannot be written as an MScript literal", "operands": [repr(a)]}
    if k == "float":
        expect = ("ok", "float", -a)
    else:
        lo, hi = RANGE[k]
        expect = ("ok", k, -a) if lo <= -a <= hi else ("fail",)
    prog = f"a = {la}\nr = -a\nprint typeof r\nprint r\n"
    run = cli.run_program(repo, prog)
    rep, actual = judge(expect, run)
    return {"replayed_on_real_cli": True, "reproduced_on_real_cli": rep, "operands": {"a": f"{k} {a!r}"},
            "expected_by_the_property": "a failure (no value)" if expect[0] == "fail" else f"{expect[1]} {expect[2]!r}", "actual": actual, **run}

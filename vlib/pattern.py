"""Token-tree patterns (a tiny macro_rules-like matcher) over flat token lists.

Pattern syntax (the pattern string is lexed with the same Rust lexer):
  literal tokens     match themselves
  $x                 one token tree (a single token, or a balanced (...) [...] {...} group)
  $$x                a (possibly empty) sequence of token trees, shortest match first
A sequence variable never crosses an unbalanced bracket, so `{ $$body }` captures exactly a block.
"""
from .lexer import lex, OPEN, CLOSE, match_close, text


class Pat:
    def __init__(self, src):
        self.src = src
        raw = lex(src.replace("$$", "__SEQ__").replace("$", "__ONE__"))
        self.items = []
        for t in raw:
            if t.startswith("__SEQ__"):
                self.items.append(("seq", t[7:]))
            elif t.startswith("__ONE__"):
                self.items.append(("one", t[7:]))
            else:
                self.items.append(("lit", t))

    def match_at(self, toks, i, end=None):
        """try to match at position i; returns (end_index, bindings) or None"""
        end = len(toks) if end is None else end
        return self._m(toks, i, 0, {}, end)

    def _tt_end(self, toks, i, end):
        """end index (exclusive) of the token tree starting at i, or None"""
        if i >= end:
            return None
        t = toks[i]
        if t in CLOSE:
            return None
        if t in OPEN:
            return match_close(toks, i) + 1
        return i + 1

    def _m(self, toks, i, p, b, end):
        if p == len(self.items):
            return i, b
        kind, v = self.items[p]
        if kind == "lit":
            if i < end and toks[i] == v:
                return self._m(toks, i + 1, p + 1, b, end)
            return None
        if kind == "one":
            e = self._tt_end(toks, i, end)
            if e is None:
                return None
            if v in b and b[v] != toks[i:e]:
                return None
            nb = dict(b); nb[v] = toks[i:e]
            return self._m(toks, e, p + 1, nb, end)
        # seq: shortest first
        j = i
        while True:
            nb = dict(b); nb[v] = toks[i:j]
            r = self._m(toks, j, p + 1, nb, end)
            if r is not None:
                return r
            e = self._tt_end(toks, j, end)
            if e is None:
                return None
            j = e


def subst(template, b):
    """template is a string with $x / $$x; returns token list"""
    raw = lex(template.replace("$$", "__SEQ__").replace("$", "__ONE__"))
    out = []
    for t in raw:
        if t.startswith("__SEQ__") or t.startswith("__ONE__"):
            out.extend(b[t[7:]])
        else:
            out.append(t)
    return out


class AnchorLost(Exception):
    pass


class Rule:
    """rewrite rule: pattern -> replacement (template string or callable(bindings)->str|tokens).

    count: exact number of applications required (None = any number, '+' = at least one).
    Applied left to right, non overlapping, one pass (matches inside the replacement are not revisited).
    """

    def __init__(self, rid, pat, repl, count=None, why=""):
        self.rid, self.pat, self.repl, self.count, self.why = rid, Pat(pat), repl, count, why

    def apply(self, toks, log):
        out, i, n = [], 0, 0
        while i < len(toks):
            r = self.pat.match_at(toks, i)
            if r is None or r[0] == i:
                out.append(toks[i]); i += 1
                continue
            e, b = r
            if callable(self.repl):
                new = self.repl(b)
                if new is None:          # rule declined
                    out.append(toks[i]); i += 1
                    continue
                new = lex_keep_ghost(new)
            else:
                new = lex_keep_ghost_subst(self.repl, b)
            log.append((self.rid, text(toks[i:e])[:160], text(new)[:200], self.why))
            out.extend(new); i = e; n += 1
        if self.count == "+" and n == 0:
            raise AnchorLost(f"rule {self.rid}: pattern `{self.pat.src}` matched nowhere")
        if isinstance(self.count, int) and n != self.count:
            raise AnchorLost(f"rule {self.rid}: pattern `{self.pat.src}` matched {n} times, expected {self.count}")
        return out


GHOST = "\x01"


def G(s):
    """an opaque pseudo-token carrying verbatim Verus ghost text (never lexed, never matched)"""
    return GHOST + s


def _pieces(x):
    out = []
    for piece in ([x] if isinstance(x, str) else x):
        if piece.startswith(GHOST):
            out.append(piece)
        else:
            out.extend(lex(piece))
    return out


def lex_keep_ghost(s):
    return _pieces(s)


def lex_keep_ghost_subst(template, b):
    from .lexer import text as _text
    out = []
    for piece in ([template] if isinstance(template, str) else template):
        if piece.startswith(GHOST):
            s = piece
            for k in sorted(b, key=len, reverse=True):
                s = s.replace("$" + k, _text(b[k]))
            out.append(s)
        else:
            out.extend(subst(piece, b))
    return out

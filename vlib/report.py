"""Per-property aggregation: run units, classify, known findings, replay files, evidence, exit code."""
import json, os, shutil, sys, time, subprocess
from concurrent.futures import ThreadPoolExecutor
from pathlib import Path

from . import core
from .core import VERIF, REPO

KF_FILE = VERIF / "KNOWN_FINDINGS.json"


def load_findings():
    if not KF_FILE.exists():
        return []
    return json.loads(KF_FILE.read_text())["findings"]


def props_meta():
    out = {}
    for l in (VERIF / "properties.jsonl").read_text().splitlines():
        if l.strip():
            p = json.loads(l); out[p["id"]] = p
    return out


def check_property(prop, tier, units, run_unit, keep=False, jobs=8):
    t0 = time.time()
    os.environ["VERIF_TIER_CUR"] = tier
    seed = int(os.environ.get("VERIF_SEED", "0") or 0)
    mine = [u for u in units.values() if prop in u.props and (tier == "thorough" or not getattr(u, "thorough_only", False))]
    ev_path = VERIF / "evidence" / f"{prop}.json"
    ev_path.parent.mkdir(exist_ok=True)
    if os.environ.get("VERIF_SELFTEST"):
        ev_path = Path(os.environ.get("VERIF_SELFTEST_EVIDENCE", "/dev/null"))   # self-mutation runs never touch the real evidence
    if not mine:
        print(f"no unit serves {prop}")
        return 2
    # VERIF_SEED only permutes unit order
    import random
    random.Random(seed).shuffle(mine)
    wd = core.scratch_dir()
    findings = load_findings()
    known = {f["id"]: f for f in findings if f["property"] == prop and f["status"] == "known"}
    try:
        # heavy (kani) units first so they overlap with the cheap ones
        mine.sort(key=lambda u: 0 if u.engine != "verus" else 1)
        with ThreadPoolExecutor(max_workers=jobs) as ex:
            results = list(ex.map(lambda u: run_unit(u, _sub(wd, u.uid), tier), mine))
        violations, undecided, kf_lines = [], [], []
        kf_hits = {}
        obl_rows = []
        n_obl = n_dis = n_b = n_bd = n_kf = 0
        functions, assumptions, cmds, engines, samples = [], [], [], set(), []
        solver_s = 0.0
        rep_dir = VERIF / "replays" / prop
        if rep_dir.exists():
            shutil.rmtree(rep_dir)
        for res in results:
            u = res.unit
            if res.undecided:
                undecided.append(f"{u.uid}: {res.undecided}")
            for a in res.assumptions:
                if a not in assumptions:
                    assumptions.append(a)
            for f in res.functions:
                functions.append(f"{u.uid}: {f}")
            if res.checker_cmd:
                cmds.append(res.checker_cmd)
            if res.engine:
                engines.add(res.engine)
            samples.extend(res.samples[:2])
            for o in res.obls:
                if prop not in o.props:
                    continue
                row = {"id": o.oid, "unit": u.uid, "kind": o.kind, "engine": o.engine if o.engine != "verus" else res.engine,
                       "status": o.status, "solver_s": round(o.time_s, 3), "desc": o.desc}
                if o.rlimit:
                    row["rlimit"] = o.rlimit
                if o.bounded:
                    row["bounded"] = o.bounded
                solver_s += o.time_s
                if o.kind == "kf":
                    # twin obligation restricted to a known-finding region: expected to fail while the finding is open
                    row["finding"] = o.finding
                    if o.status == "failed":
                        if o.finding in known:
                            kf_lines.append(f"KNOWN-FINDING: property={prop} {o.finding}: {known[o.finding]['what']}")
                            row["status"] = "known-finding"
                        else:
                            violations.append((o, res))
                    elif o.status == "undecided":
                        undecided.append(f"{o.oid}: {o.detail[:300]}")
                    obl_rows.append(row)
                    continue
                if o.bounded:
                    n_b += 1
                else:
                    n_obl += 1
                if o.status == "discharged":
                    if o.bounded:
                        n_bd += 1
                    else:
                        n_dis += 1
                elif o.status == "failed":
                    kf = _match_known(o, known)
                    if kf:
                        kf_hits.setdefault(kf["id"], []).append(o.oid)
                        row["status"] = "known-finding"; row["finding"] = kf["id"]
                        n_kf += 1
                        if o.bounded:
                            n_b -= 1
                        else:
                            n_obl -= 1
                    else:
                        violations.append((o, res))
                else:
                    undecided.append(f"{o.oid}: {(o.detail or 'not run')[:300]}")
                obl_rows.append(row)
        for fid, oids in kf_hits.items():
            kf_lines.append(f"KNOWN-FINDING: property={prop} {fid}: {known[fid]['what']} [{len(oids)} obligation(s), e.g. {oids[0]}]")
        # ---- replay files + VIOLATION lines
        out_lines = []
        for o, res in violations:
            rep_dir.mkdir(parents=True, exist_ok=True)
            rp = rep_dir / (o.oid.replace("/", "_") + ".json")
            witness = None
            wfn = getattr(res.unit, "witness", None)
            if wfn:
                try:
                    witness = wfn(REPO, o, res)
                except Exception as e:
                    witness = {"error": f"witness search failed to run: {e}"}
            gen_copy = None
            if res.gen_path and Path(res.gen_path).exists():
                gen_copy = rep_dir / (o.oid.replace("/", "_") + Path(res.gen_path).suffix)
                shutil.copy(res.gen_path, gen_copy)
            rp.write_text(json.dumps({
                "property": prop, "obligation": o.oid, "unit": res.unit.uid, "engine": res.engine,
                "what_the_obligation_states": o.desc,
                "verifier_output": o.detail[-6000:],
                "generated_file": str(gen_copy) if gen_copy else None,
                "checker_cmd": res.checker_cmd,
                "failing_input": witness,
                "rerun": f"{VERIF}/vcheck unit {res.unit.uid} --show",
            }, indent=1))
            has_input = bool(witness and witness.get("found"))
            out_lines.append(f"VIOLATION property={prop} replay={rp}" + ("" if has_input else " no-failing-input-found"))
        # ---- thorough tier: self-mutation run of this property's mutants (cross-validation of the contracts, never counted as obligations)
        cross = None
        if tier == "thorough" and not os.environ.get("VERIF_SELFTEST") and not violations and not undecided:
            try:
                env = dict(os.environ); env.pop("VERIF_TIER_CUR", None)
                q = subprocess.run([sys.executable, str(VERIF / "selftest" / "run.py"), prop], capture_output=True, text=True, timeout=6 * 3600, env=env)
                lines = [l for l in q.stdout.splitlines() if l.startswith(("ok ", "MISS", "SKIP"))]
                cross = {"what": "every hand-written property-breaking edit of selftest/mutants.json for this property applied to a scratch copy; the check must report it (harmless.* edits must stay silent)",
                         "mutants": len(lines), "as_expected": sum(l.startswith("ok ") for l in lines),
                         "not_as_expected": [l[:200] for l in lines if not l.startswith("ok ")]}
                for l in cross["not_as_expected"]:
                    print("NOTE (self-mutation, not a verdict on /repo):", l)
            except Exception as e:
                cross = {"error": str(e)}
        # ---- evidence
        level = "proof"
        trusted = ["Verus 0.2026.09.13 + Z3 (SMT back end)", "rustc toolchains",
                   "V-t rewrite rule table R0-R13 (DESIGN.md 3.3): every rewrite applied is listed in the header of the generated file"]
        if any("kani" in e for e in engines):
            trusted.append("Kani 0.68 / CBMC 6.11 / SAT back end")
        ev = {
            "property_id": prop, "tier": tier if tier in ("quick", "thorough") else "quick", "seed": seed, "level": level,
            "coverage": {
                "obligations": n_obl, "discharged": n_dis,
                "bounded_obligations": n_b, "bounded_discharged": n_bd,
                "known_finding_obligations": n_kf,
                "checker_cmd": " ; ".join(sorted(set(cmds)))[:2000] or "n/a",
                "trusted_base": trusted + assumptions,
                "functions_under_contract": functions,
                "obligation_list": obl_rows,
                "back_ends": sorted(engines),
                "solver_s": round(solver_s, 2),
                "samples": samples[:8] or [r["id"] for r in obl_rows[:3]],
                "undecided": undecided,
                "known_findings_matched": kf_lines,
                "units": [r.unit.uid for r in results],
                **({"cross_validation": cross} if cross else {}),
                **({"proof_stability": [{"unit": r.unit.uid, "runs": getattr(r, "stability", None)} for r in results if getattr(r, "stability", None)]} if tier == "thorough" else {}),
            },
            "assumptions": _prop_assumptions(prop, results),
            "wall_s": round(time.time() - t0, 2),
            "violations": len(violations),
        }
        if n_obl == 0 or n_dis == 0:
            # nothing proved: do not claim proof level
            ev["level"] = "other"
            ev["coverage"]["explanation"] = "no unbounded obligation was discharged in this run"
        ev_path.write_text(json.dumps(ev, indent=1))
        for l in kf_lines:
            print(l)
        for l in out_lines:
            print(l)
        print(f"[{prop}] tier={tier} obligations={n_obl} discharged={n_dis} bounded={n_b}/{n_bd} known-findings={len(kf_lines)} "
              f"violations={len(violations)} undecided={len(undecided)} wall={time.time()-t0:.1f}s")
        if violations:
            return 1
        if undecided:
            for x in undecided:
                print("UNDECIDED:", x[:600])
            return 2
        if n_obl + n_b == 0:
            print("UNDECIDED: zero obligations ran (vacuity guard)")
            return 2
        return 0
    finally:
        if not keep:
            shutil.rmtree(wd, ignore_errors=True)
        else:
            print("kept", wd)


def _match_known(o, known):
    """a failed obligation is a known finding only if its id matches and EVERY reported failure matches the finding's
    signature, so a second, different failure of the same obligation is still a violation"""
    import re
    detail = o.detail or ""
    if detail.lstrip().startswith("error"):
        items = [b for b in detail.split("\n\n") if b.strip()]      # verus: one diagnostic block per failure
    else:
        items = [l for l in detail.split("\n") if l.strip()]         # kani: one failed check per line
    for f in known.values():
        ms = f.get("match")
        if not ms:
            continue
        for m in (ms if isinstance(ms, list) else [ms]):
            if not re.search(m["obligation"], o.oid):
                continue
            if items and all(re.search(m["detail"], it) for it in items):
                return f
    return None


def _sub(wd, uid):
    p = Path(wd) / uid
    p.mkdir(parents=True, exist_ok=True)
    return p


def _prop_assumptions(prop, results):
    out = []
    for r in results:
        for a in getattr(r.unit, "assumes", []):
            if a not in out:
                out.append(a)
    return out


def replay(path):
    d = json.loads(Path(path).read_text())
    print(json.dumps({k: v for k, v in d.items() if k != "verifier_output"}, indent=1))
    print("---- verifier output ----")
    print(d.get("verifier_output", ""))
    fi = d.get("failing_input") or {}
    rc = fi.get("real_cli") or {}
    if rc.get("program"):
        from . import cli
        print("---- re-running the counterexample on the real code (binary rebuilt from the tree under check) ----")
        print(rc["program"])
        os.environ["VERIF_CLI_REPLAY"] = "1"
        run = cli.run_program(str(REPO), rc["program"])
        print(f"exit {run['exit']}\n{run['stdout']}\n{run['stderr'][-1500:]}")
        print("expected by the property:", rc.get("expected_by_the_property"), "| recorded at check time:", rc.get("actual"))
        return 0
    if fi.get("cmd"):
        print("---- re-running failing input on the real code ----")
        print(fi["cmd"])
        return subprocess.call(fi["cmd"], shell=True)
    return 0

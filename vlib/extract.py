"""Mechanical extraction of real function / match-arm / macro text from the mirrored tree."""
from .lexer import lex, match_close, OPEN
from .pattern import Pat


class ExtractError(Exception):
    pass


def find_block_after(toks, header_pat, start=0, end=None):
    """find `header_pat` (token pattern string) followed (after any tokens up to the first `{` at depth 0) by a block.
    returns (header_start, brace_open, brace_close)"""
    p = Pat(header_pat)
    end = len(toks) if end is None else end
    i = start
    while i < end:
        r = p.match_at(toks, i, end)
        if r is not None:
            j = r[0]
            # advance to the opening brace of the item, skipping balanced (...) <...> etc.
            while j < end and toks[j] != "{":
                if toks[j] in ("(", "["):
                    j = match_close(toks, j)
                if toks[j] == ";":
                    break
                j += 1
            if j < end and toks[j] == "{":
                return i, j, match_close(toks, j)
        i += 1
    raise ExtractError(f"not found: {header_pat}")


def extract_fn(src_toks, fn_name, within=None, nth=0):
    """tokens of `fn fn_name` : returns dict(sig=tokens between `fn` and `{`, body=tokens inside braces).
    `within` = token pattern of the enclosing item header (e.g. `impl Compile for IfStatement`)."""
    lo, hi = 0, len(src_toks)
    if within:
        _, lo, hi = find_block_after(src_toks, within)
    start = lo
    for _ in range(nth + 1):
        h, o, c = find_block_after(src_toks, f"fn {fn_name}", start, hi)
        start = c
    return {"sig": src_toks[h:o], "body": src_toks[o + 1:c], "span": (h, c)}


def extract_item(src_toks, header_pat, within=None):
    lo, hi = 0, len(src_toks)
    if within:
        _, lo, hi = find_block_after(src_toks, within)
    h, o, c = find_block_after(src_toks, header_pat, lo, hi)
    return {"sig": src_toks[h:o], "body": src_toks[o + 1:c], "all": src_toks[h:c + 1]}


def extract_match_arm(body_toks, arm_pat, start=0):
    """find `arm_pat =>` inside body tokens and return the arm's expression tokens (block contents if a block,
    else tokens up to the `,` at depth 0)."""
    p = Pat(arm_pat + " =>")
    i = start
    while i < len(body_toks):
        r = p.match_at(body_toks, i)
        if r is not None:
            j = r[0]
            if body_toks[j] == "{":
                c = match_close(body_toks, j)
                return {"body": body_toks[j + 1:c], "block": True, "span": (i, c), "bind": r[1]}
            k = j
            while k < len(body_toks) and body_toks[k] != ",":
                if body_toks[k] in OPEN:
                    k = match_close(body_toks, k)
                elif body_toks[k] in (")", "]", "}"):
                    break
                k += 1
            return {"body": body_toks[j:k], "block": False, "span": (i, k), "bind": r[1]}
        i += 1
    raise ExtractError(f"match arm not found: {arm_pat}")


def extract_macro_rules(src_toks, name):
    """the full `macro_rules! name { ... }` item, verbatim tokens"""
    h, o, c = find_block_after(src_toks, f"macro_rules ! {name}")
    return src_toks[h:c + 1]


def read_tokens(path):
    with open(path, encoding="utf-8") as f:
        return lex(f.read())


def split_arms(toks):
    """split the tokens inside a `match { ... }` into arms: list of (pattern_tokens, body_tokens) (body without trailing comma)"""
    arms, i, n = [], 0, len(toks)
    while i < n:
        j = i
        while j < n and toks[j] != "=>":
            if toks[j] in OPEN:
                j = match_close(toks, j)
            j += 1
        if j >= n:
            break
        pat = toks[i:j]
        k = j + 1
        if k < n and toks[k] == "{":
            c = match_close(toks, k)
            body = toks[k:c + 1]
            k = c + 1
            if k < n and toks[k] == ",":
                k += 1
        else:
            s = k
            while k < n and toks[k] != ",":
                if toks[k] in OPEN:
                    k = match_close(toks, k)
                k += 1
            body = toks[s:k]
            if k < n:
                k += 1
        arms.append((pat, body))
        i = k
    return arms


def filter_match_arms(toks, scrutinee_pat, keep):
    """in `toks`, find every `match <scrutinee_pat> { arms }` and drop the arms for which keep(pattern_tokens) is False.
    returns (new_tokens, dropped_patterns)"""
    p = Pat("match " + scrutinee_pat + " {") if isinstance(scrutinee_pat, str) else scrutinee_pat
    out, dropped, i = [], [], 0
    while i < len(toks):
        r = p.match_at(toks, i)
        if r is None:
            out.append(toks[i]); i += 1
            continue
        o = r[0] - 1
        c = match_close(toks, o)
        inner, sub_dropped = filter_match_arms(toks[o + 1:c], scrutinee_pat, keep)
        dropped += sub_dropped
        arms = split_arms(inner)
        out.extend(toks[i:o + 1])
        for pat, body in arms:
            if keep(pat):
                out.extend(pat); out.append("=>"); out.extend(body); out.append(",")
            else:
                dropped.append(" ".join(pat))
        out.append("}")
        i = c + 1
    return out, dropped

"""Replay aid: build the real `mscript` binary from the tree under check and run a program on it.  Used only after an obligation has
failed, to show the verifier's counterexample against the real code; never a deciding step."""
import hashlib, os, subprocess, tempfile, shutil
from pathlib import Path

TARGET_ROOT = Path("/var/tmp/mscript-verif-cli")      # build cache only; rebuilt when absent


def cli_binary(repo):
    """cargo build (dev profile, offline) of the tree at `repo` into a target dir outside /repo and /verif"""
    repo = str(Path(repo).resolve())
    # one build cache; wiped when the tree under check is a different directory (scratch copies of the self-test) to bound disk use
    tdir = TARGET_ROOT / "target"
    marker = TARGET_ROOT / "repo-path"
    if tdir.exists() and (not marker.exists() or marker.read_text() != repo):
        shutil.rmtree(tdir, ignore_errors=True)
    tdir.mkdir(parents=True, exist_ok=True)
    marker.write_text(repo)
    env = dict(os.environ, CARGO_NET_OFFLINE="true", CARGO_TARGET_DIR=str(tdir))
    env.pop("RUSTUP_TOOLCHAIN", None)
    p = subprocess.run(["cargo", "build", "--offline", "-q"], cwd=repo, env=env, capture_output=True, text=True, timeout=1800)
    exe = tdir / "debug" / "mscript"
    if p.returncode != 0 or not exe.exists():
        raise RuntimeError("cargo build of the tree under check failed: " + p.stderr[-800:])
    return exe


def run_program(repo, text, timeout=60):
    """`mscript run prog.ms` on the real binary; returns dict(cmd, exit, stdout, stderr)"""
    if os.environ.get("VERIF_SELFTEST") and not os.environ.get("VERIF_CLI_REPLAY"):
        raise RuntimeError("CLI replay is skipped in self-test mode (set VERIF_CLI_REPLAY=1 to enable)")
    exe = cli_binary(repo)
    d = Path(tempfile.mkdtemp(prefix="mscript-verif.replay.", dir="/var/tmp"))
    try:
        f = d / "replay.ms"
        f.write_text(text)
        p = subprocess.run([str(exe), "run", str(f)], capture_output=True, text=True, timeout=timeout, cwd=d)
        return {"cmd": f"mscript run replay.ms   (binary built from {repo})", "program": text, "exit": p.returncode,
                "stdout": p.stdout[-2000:], "stderr": p.stderr[-2000:]}
    finally:
        shutil.rmtree(d, ignore_errors=True)


def clean():
    shutil.rmtree(TARGET_ROOT, ignore_errors=True)

"""Driver core: units, Verus runner, classification, known findings, evidence."""
import json, os, re, shutil, subprocess, sys, tempfile, time, hashlib, traceback
from concurrent.futures import ThreadPoolExecutor
from pathlib import Path

from .lexer import lex, render, text, LexError
from .pattern import Rule, AnchorLost, G, GHOST
from .extract import ExtractError

VERIF = Path(__file__).resolve().parent.parent
REPO = Path(os.environ.get("VERIF_REPO", "/repo"))


class Undecided(Exception):
    """translation/extraction/tool problem: never an alarm"""


# ----------------------------------------------------------------------------------------------
# translation helpers

ALLOWED_MACROS = {"assert", "assume", "proof", "seq", "set", "map", "unreached", "vpanic"}


def _generic_rules():
    """small idiom rewrites applied after every unit's own rules, so that a changed / added statement still translates"""
    from .pattern import Rule
    return [
        Rule("R9", "matches ! ( $e , $$p )", "( match $e { $$p => true , _ => false } )", why="matches! -> match"),
        Rule("R9", "matches ! ( $$e , $$p )", "( match $$e { $$p => true , _ => false } )", why="matches! -> match"),
        Rule("R12", "vec ! [ ]", "Vec :: new ( )", why="vec![]"),
        Rule("R1", "unsafe { $$e }", "{ $$e }", why="unsafe block marker dropped: the callee's contract carries what the caller must guarantee"),
        Rule("R3", "log :: trace ! $a ;", "", why="logging dropped"),
        Rule("R3", "log :: debug ! $a ;", "", why="logging dropped"),
        Rule("R3", "log :: info ! $a ;", "", why="logging dropped"),
        Rule("R3", "log :: warn ! $a ;", "", why="logging dropped"),
        Rule("R3", "log :: error ! $a ;", "", why="logging dropped"),
    ]


# R14b: helper functions of the repository a change may route the code through ("extract method").  Filled by the driver when a first attempt
# fails to compile because a function / method is unknown; every translate() then inlines calls of these helpers (beta reduction) before the
# unit's own rules see the text, so the helper's body is verified as part of its caller.
import threading
_TL = threading.local()     # units run in threads: the registry is per thread


def helpers():
    """name -> {"params": [names], "has_self": bool, "body": tokens, "where": "file: fn"} for the unit being built in this thread"""
    d = getattr(_TL, "h", None)
    if d is None:
        d = _TL.h = {}
    return d
_IDENT = re.compile(r"^[A-Za-z_][A-Za-z0-9_]*$")
_KEYWORDS = {"if", "else", "match", "return", "while", "let", "in", "for", "loop", "break", "continue", "mut", "ref", "move", "as", "where", "unsafe"}


def find_helper(repo, name, self_ty=None):
    """the unique non-test definition `fn name(..) { body }` in the repository, if its body can be inlined (no `return`, no `?`, not recursive)"""
    from .lexer import lex
    from .extract import match_close
    found = []
    for root in ("compiler/src", "bytecode/src", "bytecode_dev_transpiler/src", "src"):
        for dp, dn, fn in os.walk(os.path.join(repo, root)):
            if "tests" in dp.split(os.sep):
                continue
            for f in fn:
                if not f.endswith(".rs"):
                    continue
                try:
                    toks = lex(open(os.path.join(dp, f), encoding="utf-8").read())
                except Exception:
                    continue
                for i, t in enumerate(toks[:-2]):
                    if t == "fn" and toks[i + 1] == name and toks[i + 2] in ("(", "<"):
                        po = toks.index("(", i)
                        pc = match_close(toks, po)
                        j = pc + 1
                        while j < len(toks) and toks[j] not in ("{", ";"):
                            j += 1
                        if j >= len(toks) or toks[j] != "{":
                            continue
                        bc = match_close(toks, j)
                        ptoks = toks[po + 1:pc]
                        params, cur, d = [], [], 0
                        for x in ptoks + [","]:
                            if x in ("(", "[", "<"): d += 1
                            elif x in (")", "]", ">"): d -= 1
                            if x == "," and d == 0:
                                if cur: params.append(cur)
                                cur = []
                            else:
                                cur.append(x)
                        has_self = bool(params) and "self" in params[0][:3] and ":" not in params[0]
                        names = []
                        for pr in (params[1:] if has_self else params):
                            pr = [x for x in pr if x != "mut"]
                            if len(pr) >= 2 and _IDENT.match(pr[0]) and pr[1] == ":":
                                names.append(pr[0])
                            else:
                                names = None; break
                        # the impl the method sits in: `Self` inside the body means that type once the body stands in another place
                        self_ty, depth, q = None, 0, i - 1
                        while q >= 0:
                            if toks[q] == "}": depth += 1
                            elif toks[q] == "{":
                                if depth == 0:
                                    r0 = q - 1
                                    while r0 >= 0 and toks[r0] not in ("impl", "}", ";", "{"):
                                        r0 -= 1
                                    if r0 >= 0 and toks[r0] == "impl":
                                        hdr = toks[r0 + 1:q]
                                        if "for" in hdr:
                                            hdr = hdr[hdr.index("for") + 1:]
                                        hdr = [x for x in hdr if x not in ("&",)]
                                        if hdr and _IDENT.match(hdr[-1] if "<" not in hdr else hdr[0]):
                                            self_ty = hdr[0] if "<" in hdr else hdr[-1]
                                    break
                                depth -= 1
                            q -= 1
                        hbody = [self_ty if (x == "Self" and self_ty) else x for x in toks[j + 1:bc]]
                        found.append({"params": names, "has_self": has_self, "self_ty": self_ty, "body": hbody, "where": f"{os.path.relpath(os.path.join(dp, f), repo)}: fn {name}"})
    if len(found) > 1 and self_ty:
        # several types have a method of that name: the one of the type the call is made on
        found = [h for h in found if h["has_self"] and h["self_ty"] == self_ty]
    if len(found) != 1:
        return None
    h = found[0]
    if h["params"] is None or "return" in h["body"] or "?" in h["body"] or name in h["body"]:
        return None
    return h


def inline_helpers(toks, log):
    from .extract import match_close
    out = list(toks)
    for name, h in list(helpers().items()):
        guard = 0
        i = 0
        while i < len(out) - 1 and guard < 50:
            if out[i] == name and out[i + 1] == "(" and (i == 0 or out[i - 1] != "fn"):
                c = match_close(out, i + 1)
                args, cur, d = [], [], 0
                for x in out[i + 2:c] + [","]:
                    if x in ("(", "[", "{"): d += 1
                    elif x in (")", "]", "}"): d -= 1
                    if x == "," and d == 0:
                        if cur: args.append(cur)
                        cur = []
                    else:
                        cur.append(x)
                start = i
                recv = None
                if i >= 1 and out[i - 1] == ".":
                    # method call: walk back over the receiver (idents, `.`, call / index groups, a leading `&` / `*`)
                    s = i - 1
                    while s > 0:
                        t = out[s - 1]
                        if t in (")", "]"):
                            depth, q = 0, s - 1
                            while q >= 0:
                                if out[q] in (")", "]"): depth += 1
                                if out[q] in ("(", "["):
                                    depth -= 1
                                    if depth == 0: break
                                q -= 1
                            s = q
                        elif t in _KEYWORDS:
                            break                       # `if x.helper()`, `return x.helper()`, `match x.helper()`: the keyword is not part of the receiver
                        elif _IDENT.match(t) or t == "." or t == "::":
                            s -= 1
                        else:
                            break
                    recv = out[s:i - 1]
                    start = s
                elif i >= 2 and out[i - 1] == "::":
                    start = i - 2                      # `Type :: name ( .. )`
                if len(args) != len(h["params"]) or (h["has_self"] and recv is None) or (recv is not None and not h["has_self"]):
                    i += 1
                    continue
                body = [("verif_self" if t == "self" else t) for t in h["body"]]
                rep = ["{"]
                if recv is not None:
                    rep += ["let", "verif_self", "=", "&", "("] + recv + [")", ";"]
                for pn, a in zip(h["params"], args):
                    if len(a) == 1 and (a[0].startswith('"') or re.match(r"^-?\d", a[0])) and body.count("let") == sum(1 for k in range(len(body) - 1) if body[k] == "let" and body[k + 1] != pn and not (body[k + 1] == "mut" and k + 2 < len(body) and body[k + 2] == pn)):
                        body = [a[0] if t == pn else t for t in body]        # a literal argument stands where the parameter stood (the unit's rules are written for literals)
                    else:
                        rep += ["let", pn, "="] + a + [";"]
                rep += body + ["}"]
                log.append(("R14b", f"{name}(..)", "{ let <params> = <args>; <body of the helper> }", f"helper function inlined (beta reduction): {h['where']}"))
                out[start:c + 1] = rep
                i = start + len(rep)
                guard += 1
            else:
                i += 1
    return out


def translate(toks, rules, log, what="", generic=True):
    if helpers():
        toks = inline_helpers(toks, log)
    if generic:
        from .rules import normalize_chains, option_idioms
        toks = normalize_chains(toks, log)
    for r in list(rules):
        try:
            toks = r.apply(toks, log)
        except AnchorLost as e:
            raise Undecided(f"{what}: anchor lost: {e}")
    if generic:
        from .rules import split_or_guard_arms
        toks = split_or_guard_arms(option_idioms(toks, log), log)        # after the unit's own rules (which are written against the original text)
        for r in _generic_rules():
            toks = r.apply(toks, log)
    return toks


def check_closed(toks, what, extra_allowed=()):
    """fail closed: no macro invocation may be left in translated text"""
    for i, t in enumerate(toks[:-2]):
        if toks[i + 1] == "!" and toks[i + 2] in ("(", "[", "{") and re.match(r"[A-Za-z_]\w*$", t):
            if t in ("if", "while", "match", "return", "in", "else", "let", "mut", "move", "ref", "break", "continue", "loop", "for", "as"):
                continue
            if t not in ALLOWED_MACROS and t not in extra_allowed:
                raise Undecided(f"{what}: not translatable: macro `{t}!` left after all rules")


def header(log, title):
    h = [f"// GENERATED on every run from /repo's working tree -- {title}",
         "// rewrites applied to the real text (rule: original ==> translated):"]
    for rid, o, n, why in log:
        h.append(f"//   [{rid}{' ' + why if why else ''}]  {o}   ==>   {n}")
    return "\n".join(h) + "\n"


# ----------------------------------------------------------------------------------------------
# obligations

class Obl:
    def __init__(self, oid, props, kind="main", finding=None, desc="", fn=None, engine="verus", bounded=False):
        self.oid, self.props, self.kind, self.finding, self.desc, self.fn = oid, props, kind, finding, desc, fn
        self.engine, self.bounded = engine, bounded
        self.status = None        # discharged | failed | undecided
        self.detail = ""
        self.time_s = 0.0
        self.rlimit = 0


class UnitResult:
    def __init__(self, uid):
        self.uid = uid
        self.obls = []
        self.undecided = None     # reason string when the whole unit is undecided
        self.gen_path = None
        self.raw = ""
        self.assumptions = []
        self.functions = []
        self.rules = []
        self.wall = 0.0
        self.engine = ""
        self.checker_cmd = ""
        self.samples = []


MARK = re.compile(r"//@\s*(OBL|KF|CANARY)\s+(\S+)(?:\s+(\S+))?")


def scratch_dir():
    base = os.environ.get("VERIF_SCRATCH")
    if base:
        Path(base).mkdir(parents=True, exist_ok=True)
        return Path(tempfile.mkdtemp(prefix="u.", dir=base))
    return Path(tempfile.mkdtemp(prefix="mscript-verif.", dir="/var/tmp"))


def scan_assumptions(gen_text):
    """mechanical scan for everything that is assumed rather than proved in a generated Verus file"""
    out = []
    lines = gen_text.split("\n")
    for i, l in enumerate(lines):
        s = l.strip()
        if s.startswith("//"):
            continue
        if "external_body" in s or "assume(" in s or "admit(" in s or "assume_specification" in s or re.search(r"\baxiom\b", s) or "uninterp" in s or "external_type_specification" in s:
            # name the item: look ahead for fn/struct
            name = ""
            for k in range(i, min(i + 4, len(lines))):
                m = re.search(r"\b(fn|struct|spec fn)\s+(\w+)", lines[k])
                if m:
                    name = m.group(2); break
            kind = ("external_body" if "external_body" in s else "assume" if "assume(" in s else "admit" if "admit(" in s
                    else "axiom" if "axiom" in s else "uninterp" if "uninterp" in s else "assume_specification")
            out.append(f"{kind}: {name or s[:80]}")
    # dedupe, keep order
    seen, res = set(), []
    for a in out:
        if a not in seen:
            seen.add(a); res.append(a)
    return res


CANARY = """
//@ CANARY canary
proof fn verif_canary_must_fail(x: int) ensures x > 0 { }
"""


UNKNOWN_METHOD = re.compile(r"no method named `(\w+)` found for (?:enum|struct|mutable reference|reference) `(?:&mut |&)?(\w+)`")


UNKNOWN_FN = re.compile(r"cannot find function `(\w+)` in this scope")
UNKNOWN_VALUE = re.compile(r"cannot find value `([A-Z][A-Z0-9_]+)` in this scope")
SELF_CONST = re.compile(r"\bSelf\s*::\s*([A-Z][A-Z0-9_]*[A-Z0-9])\b(?!\s*[(])")
DEFAULT_TYPE_MAP = {"String": "VString", "str": "VString", "anyhow :: Error": "VErr"}
PRIM_TYPES = {"usize", "isize", "u8", "u16", "u32", "u64", "u128", "i8", "i16", "i32", "i64", "i128", "bool", "char", "f64", "f32", "Option", "Result", "Vec", "Box", "mut", "Self"}
_src_cache = {}


def _repo_sources():
    key = str(REPO)
    if key not in _src_cache:
        files = []
        for sub in ("bytecode/src", "compiler/src", "src", "bytecode_dev_transpiler/src"):
            d = REPO / sub
            if d.exists():
                files += sorted(d.rglob("*.rs"))
        _src_cache[key] = [(f, f.read_text(errors="replace")) for f in files]
    return _src_cache[key]


def _split_top(s, sep=","):
    out, d, cur = [], 0, ""
    for ch in s:
        if ch in "(<[{": d += 1
        elif ch in ")>]}": d -= 1
        if ch == sep and d == 0:
            out.append(cur); cur = ""
        else:
            cur += ch
    if cur.strip():
        out.append(cur)
    return out


def _map_type(t, type_map, gen_text):
    """source type -> model type; None when a name in it is not known to the generated file"""
    t = re.sub(r"&\s*'\w+\s*", "&", t.strip())
    t = re.sub(r"<\s*'\w+\s*>", "", t)
    t = re.sub(r"\bstd\s*::\s*(\w+\s*::\s*)*", "", t)
    m = re.fullmatch(r"(anyhow\s*::\s*)?Result\s*<(.*)>", t)
    if m and len(_split_top(m.group(2))) == 1:
        inner = _map_type(m.group(2), type_map, gen_text)
        return None if inner is None else f"Result<{inner}, VErr>"
    for k, v in list(type_map.items()) + list(DEFAULT_TYPE_MAP.items()):
        t = re.sub(r"(?<![\w:])" + re.escape(k).replace("\\ ", r"\s*") + r"(?![\w:])", v, t)
    for name in re.findall(r"[A-Za-z_]\w*", t):
        if name in PRIM_TYPES:
            continue
        if not re.search(r"\b(struct|enum|type|trait)\s+" + name + r"\b", gen_text):
            return None
    return t


def _stub_for_unknown_fn(name, gen_text, type_map):
    """R15c: a free function of the repository that the translated text calls but the unit's vocabulary does not have: its signature is
    read from the source, its body is NOT taken -- an abstract callee without a contract (nothing is assumed about what it returns or does)"""
    defs = []
    pat = re.compile(r"\bfn\s+" + name + r"\s*(?:<[^>{}]*>)?\s*\(([^{};]*?)\)\s*(?:->\s*([^{;]+?))?\s*(?:where[^{]*)?\{", re.S)
    for f, txt in _repo_sources():
        for m in pat.finditer(txt):
            defs.append((f, m))
    if len(defs) != 1:
        return None
    f, m = defs[0]
    params, ret = m.group(1), m.group(2)
    ps = []
    for prm in _split_top(params):
        prm = prm.strip()
        if not prm:
            continue
        if "self" in prm.split(":")[0]:
            return None
        if ":" not in prm:
            return None
        pn, pt = prm.split(":", 1)
        pn = pn.strip().replace("mut ", "")
        if not re.fullmatch(r"\w+", pn):
            return None
        mt = _map_type(pt, type_map, gen_text)
        if mt is None:
            return None
        ps.append(f"{pn}: {mt}")
    rt = ""
    if ret:
        mr = _map_type(ret, type_map, gen_text)
        if mr is None:
            return None
        rt = f" -> (r: {mr})"
    rel = str(f).replace(str(REPO) + "/", "")
    return (f"\n// R15c: `{name}` ({rel}) is not in this unit's vocabulary: an abstract callee WITHOUT a contract (signature from the source; nothing assumed about it)\n"
            f"#[verifier::external_body] pub fn {name}({', '.join(ps)}){rt} {{ unimplemented!() }}\n")


def _const_for_unknown_value(name):
    """R15d: an ALL-CAPS constant of the repository with a literal value: carried along verbatim"""
    found = []
    pat = re.compile(r"\bconst\s+" + name + r"\s*:\s*([\w:<>& ]+?)\s*=\s*(-?[\w.]+|\"[^\"\n]*\")\s*;")
    for f, txt in _repo_sources():
        for m in pat.finditer(txt):
            found.append((f, m))
    if len(found) != 1:
        return None
    f, m = found[0]
    ty, val = m.group(1).strip(), m.group(2)
    if ty not in PRIM_TYPES or val.startswith('"'):
        return None
    rel = str(f).replace(str(REPO) + "/", "")
    return f"\n// R15d: constant `{name}` of {rel}: carried along verbatim\npub const {name}: {ty} = {val};\n"


def run_verus_file(uid, gen_text, obls, workdir, timeout=600, rlimit=100, type_map=None):
    """R15b: a change may route a decision through a NEW argument-less predicate of a model type (`if x.points_to_object() { .. }`) that the
    unit's vocabulary does not have.  Instead of abstaining (the file would not compile), the predicate is added as an uninterpreted boolean
    method -- nothing is assumed about it -- and the file is verified again: the contract then decides whether the property's outcome may
    depend on it.  Only for calls `.name()` without arguments.  R15c / R15d: likewise for a free helper function of the repository (an abstract
    callee without contract, signature read from the source) and for an ALL-CAPS constant with a literal value (carried along).
    Anything else stays undecided."""
    added = []
    type_map = dict(type_map or {})
    # R15d (pre): `Self::CONST` inside a fragment that is no longer inside its impl
    gen_text = SELF_CONST.sub(lambda m: m.group(0) if re.search(r"\bconst\s+" + m.group(1) + r"\b", gen_text) else m.group(1), gen_text)
    for _ in range(6):
        res = _run_verus_once(uid, gen_text, obls, workdir, timeout, rlimit)
        und = res.undecided or ""
        if not und.startswith("generated file does not compile"):
            break
        stub = None
        m = UNKNOWN_METHOD.search(und)
        mf = UNKNOWN_FN.search(und)
        mv = UNKNOWN_VALUE.search(und)
        if m and (m.group(1), m.group(2)) not in added and (m.group(1) in ("clone", "to_owned") or (m.group(1) == "to_string" and re.search(r"Str|Text", m.group(2)))) \
                and re.search(r"\bstruct\s+" + m.group(2) + r"\b", gen_text):
            # R15e: Clone / ToOwned (and ToString of a text model) on an opaque model type: the same value
            name, ty = m.group(1), m.group(2)
            added.append((name, ty))
            stub = (f"\n// R15e: `{ty}::{name}`: a copy is the same value\n"
                    f"impl {ty} {{ #[verifier::external_body] pub fn {name}(&self) -> (r: {ty}) ensures r == *self {{ unimplemented!() }} }}\n")
        elif m and (m.group(1), m.group(2)) not in added and re.search(r"\.\s*" + m.group(1) + r"\s*\(\s*\)", gen_text):
            if m.group(1) not in helpers() and find_helper(os.environ.get("VERIF_REPO", "/repo"), m.group(1), m.group(2)) is not None:
                break       # R14b first: the method's body is inlined by the driver and the unit built again
            name, ty = m.group(1), m.group(2)
            added.append((name, ty))
            fallible = re.search(r"\.\s*" + name + r"\s*\(\s*\)\s*\?", gen_text) is not None
            if fallible:
                # `x.name()?`: a new check that may fail -- an uninterpreted outcome (nothing assumed about when it fails)
                stub = (f"\n// R15b: `{ty}::{name}` is not in this unit's vocabulary: an uninterpreted fallible check (nothing assumed about it)\n"
                        f"pub uninterp spec fn verif_unknown_{ty}_{name}(p: {ty}) -> bool;\n"
                        f"impl {ty} {{ #[verifier::external_body] pub fn {name}(&self) -> (r: Result<(), VErr>) ensures r is Ok <==> verif_unknown_{ty}_{name}(*self) {{ unimplemented!() }} }}\n")
            else:
                stub = (f"\n// R15b: `{ty}::{name}` is not in this unit's vocabulary: an uninterpreted predicate (nothing assumed about it)\n"
                        f"pub uninterp spec fn verif_unknown_{ty}_{name}(p: {ty}) -> bool;\n"
                        f"impl {ty} {{ #[verifier::external_body] pub fn {name}(&self) -> (r: bool) ensures r == verif_unknown_{ty}_{name}(*self) {{ unimplemented!() }} }}\n")
        elif mf and ("fn", mf.group(1)) not in added:
            if mf.group(1) not in helpers() and find_helper(os.environ.get("VERIF_REPO", "/repo"), mf.group(1)) is not None:
                break       # R14b first: the driver inlines the helper's body and builds the unit again (its text is then verified, nothing is assumed)
            added.append(("fn", mf.group(1)))
            stub = _stub_for_unknown_fn(mf.group(1), gen_text, type_map)
        elif mv and ("const", mv.group(1)) not in added:
            added.append(("const", mv.group(1)))
            stub = _const_for_unknown_value(mv.group(1))
        if not stub:
            break
        idx = gen_text.rfind("} // verus!")
        gen_text = gen_text[:idx] + stub + gen_text[idx:]
        for o in obls:
            o.status = None; o.detail = ""
    # a helper carried as an abstract item WITHOUT a contract may in reality always answer the harmless way: an obligation that fails under it is not
    # a violation that can be shown -- it is undecided (never an alarm on code where the property may well hold)
    abstract = [a for a in added if a[0] == "fn" or (a[0] not in ("const", "clone", "to_owned", "to_string"))]
    if abstract and not res.undecided:
        names = ", ".join(a[1] if a[0] == "fn" else f"{a[1]}::{a[0]}" for a in abstract)
        for o in res.obls:
            if o.status == "failed" and o.kind != "kf":
                o.status = "undecided"
                o.detail = f"fails with `{names}` carried as an abstract callee without contract (its body is outside this unit's reach): not decided\n" + (o.detail or "")
    if added:
        res.samples = list(getattr(res, "samples", []) or []) + [f"[R15b/c/d] not in the unit's vocabulary: {t} {n} ==> carried as an abstract item" for n, t in [(a[1], a[0]) if a[0] in ("fn", "const") else a for a in added]]
    return res


def _run_verus_once(uid, gen_text, obls, workdir, timeout=600, rlimit=100):
    """run Verus on one generated file; fill obligation statuses by marker; returns UnitResult"""
    res = UnitResult(uid)
    res.engine = "verus 0.2026.09.13 / z3"
    # canary appended inside the verus! block
    idx = gen_text.rfind("} // verus!")
    if idx < 0:
        raise Undecided(f"{uid}: template has no `}} // verus!` terminator")
    gen_text = gen_text[:idx] + CANARY + gen_text[idx:]
    path = Path(workdir) / f"{uid}.rs"
    path.write_text(gen_text)
    res.gen_path = str(path)
    cmd = ["verus", path.name, "--triggers-mode", "silent", "--output-json", "--time"]
    if rlimit:
        cmd += ["--rlimit", str(rlimit)]
    res.checker_cmd = " ".join(cmd)
    t0 = time.time()
    try:
        p = subprocess.run(cmd, cwd=workdir, capture_output=True, text=True, timeout=timeout)
    except subprocess.TimeoutExpired:
        res.undecided = f"verus timeout after {timeout}s"
        res.obls = obls
        for o in obls:
            o.status = "undecided"; o.detail = res.undecided
        return res
    res.wall = time.time() - t0
    res.raw = p.stderr
    try:
        js = json.loads(p.stdout)
    except Exception:
        js = None
    # markers -> line ranges
    lines = gen_text.split("\n")
    marks = []   # (line_no (1-based), kind, id)
    for i, l in enumerate(lines):
        m = MARK.search(l)
        if m:
            marks.append((i + 1, m.group(1), m.group(2)))

    def owner(line_no):
        best = None
        for ln, kind, oid in marks:
            if ln <= line_no:
                best = (kind, oid)
        return best

    # parse diagnostics
    blocks = re.split(r"\n(?=error|warning|note: )", "\n" + p.stderr)
    errs = []      # (msg, line, blocktext)
    compile_error = None
    for b in blocks:
        b = b.strip("\n")
        if not b.startswith("error"):
            continue
        first = b.split("\n")[0]
        if first.startswith("error: aborting due to"):
            continue
        m = re.search(r"-->\s+\S+?:(\d+):(\d+)", b)
        ln = int(m.group(1)) if m else None
        errs.append((first, ln, b))
    VERIF_ERR = ("postcondition not satisfied", "assertion failed", "invariant not satisfied",
                 "precondition not satisfied", "possible arithmetic underflow/overflow", "possible division by zero",
                 "decreases not satisfied", "could not prove termination", "unreachable", "loop invariant",
                 "possible bit shift underflow/overflow", "recommendation not met", "index out of bounds",
                 "may fail", "could not show", "cannot prove", "rlimit", "Resource limit")
    ok_json = js is not None and "verification-results" in js
    vr = js["verification-results"] if ok_json else {}
    by_obl = {}
    for first, ln, b in errs:
        is_verif = any(k in first for k in VERIF_ERR)
        if not is_verif:
            compile_error = compile_error or b
            continue
        if "rlimit" in first.lower() or "resource limit" in first.lower():
            by_obl.setdefault(owner(ln) if ln else None, []).append(("rlimit", first, b))
        else:
            by_obl.setdefault(owner(ln) if ln else None, []).append(("fail", first, b))
    if compile_error or not ok_json or vr.get("encountered-vir-error"):
        res.undecided = "generated file does not compile under Verus: " + (compile_error or p.stderr[-1500:] or "no JSON")[:3000]
        res.obls = obls
        for o in obls:
            if not getattr(o, "pre_decided", False):
                o.status = "undecided"; o.detail = "unit did not compile"
        return res
    # per-function timing
    times = {}
    try:
        for mt in js["times-ms"]["smt"]["smt-run-module-times"]:
            for fb in mt.get("function-breakdown", []):
                times[fb["function"].split("::", 1)[-1]] = fb
    except Exception:
        pass
    res.functions = sorted(k for k, v in times.items() if v.get("mode:") in ("exec", "proof"))
    # canary must have failed
    canary_failed = any(k and k[0] == "CANARY" for k in by_obl)
    if not canary_failed:
        res.undecided = "canary obligation did not fail: verifier run is not trustworthy"
        res.obls = obls
        for o in obls:
            o.status = "undecided"; o.detail = res.undecided
        return res
    unowned = by_obl.get(None, [])
    for o in obls:
        if getattr(o, "pre_decided", False):
            continue
        key_main = ("OBL", o.oid)
        key_kf = ("KF", o.oid)
        items = by_obl.get(key_main if o.kind != "kf" else key_kf, [])
        if not any((kind, oid) == (key_main if o.kind != "kf" else key_kf) for _, kind, oid in marks):
            # fail closed: an obligation that is declared but has no `//@ OBL id` marker in the generated text was never handed to the verifier
            o.status = "undecided"; o.detail = "obligation declared by the unit but its marker is missing in the generated text (nothing was verified for it)"
            res.undecided = res.undecided or f"obligation {o.oid}: marker missing in the generated text"
            continue
        fb = times.get(o.fn or "", {})
        o.time_s = fb.get("time-micros", 0) / 1e6
        o.rlimit = fb.get("rlimit", 0)
        if any(k == "fail" for k, _, _ in items):
            o.status = "failed"
            o.detail = "\n\n".join(b for k, _, b in items if k == "fail")
        elif any(k == "rlimit" for k, _, _ in items):
            o.status = "undecided"; o.detail = "rlimit exceeded"
        else:
            o.status = "discharged"
    # errors owned by a marker that is not a declared obligation -> undecided (machinery bug)
    declared = {("OBL" if o.kind != "kf" else "KF", o.oid) for o in obls} | {("CANARY", "canary")}
    stray = [k for k in by_obl if k is not None and k not in declared]
    if unowned or stray:
        res.undecided = f"verification error outside any declared obligation: {unowned[:1] or stray}"
    res.obls = obls
    res.assumptions = scan_assumptions(gen_text)
    res.verified_count = vr.get("verified", 0)
    # thorough tier: proof-stability re-run with two other SMT seeds; a verdict that changes with the seed is not trusted
    if os.environ.get("VERIF_TIER_CUR") == "thorough" and not res.undecided:
        res.stability = []
        for seed in (7, 1234):
            try:
                p2 = subprocess.run(cmd + ["--smt-option", f"smt.random_seed={seed}", "--smt-option", f"sat.random_seed={seed}"], cwd=workdir, capture_output=True, text=True, timeout=timeout)
                js2 = json.loads(p2.stdout)
                v2 = js2.get("verification-results", {})
                same = (v2.get("verified"), v2.get("errors")) == (vr.get("verified"), vr.get("errors"))
            except Exception as e:
                same = False; v2 = {"error": str(e)}
            res.stability.append({"seed": seed, "same_verdict": same})
            if not same:
                res.undecided = f"unstable proof: verdict changes with the SMT seed {seed} ({v2}) vs ({vr.get('verified')}, {vr.get('errors')})"
    return res

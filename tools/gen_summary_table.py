#!/usr/bin/env python3
"""Regenerate the summary table of DESIGN.md section 0 (between the SUMMARYTABLE markers): units and engines come from the unit
registry (`./vcheck list`), the function column from FUNCS below."""
import re, subprocess
from pathlib import Path
V = Path(__file__).resolve().parent.parent
FUNCS = {
 "C01": "compile side: `IfStatement/ElseStatement/WhileLoop/NumberLoop::compile`, `Function::compile` (parameter prologue, layout), `ScopeStack::scopes_since_loop` (+ every `fn(&self)->bool` predicate of `Scope` it uses, R15), tail of `Parser::number_loop`, `bin_op_assign` tables; interpreter side: handlers `if_stmt while_loop jmp jmp_pop done else_stmt store_skip load ret store store_fast load_fast assert`, one iteration of `Function::run` per exit state, `Stack::{get_executing_function_label, pop_until_function, register_variable_local, find_name}`; the `PRATT_PARSER` precedence table; `map_infix` closure of `parse_expr`; handler `call_self`",
 "C02": "native table of `TypeLayout::get_output_type` vs the run-time operators; list arms of `eq_complex`, `PartialEq for ListType / FunctionType`, `try_coerce_to_open`; `supports_negate`, `is_numeric`; numeric-bounds checks of `Parser::number_loop`; `Parser::{if_statement, while_loop, assertion}` (return-path marking, conditions), `ScopeReturnStatus::all_branches_return`, `Parser::return_statement` table, `Parser::function_arguments`, `Parser::reassignment` (value fits the place), `Parser::class_bound_function` (return on every path), `Expr::for_type` arms BinOp / UnaryUnwrap / NilEval; `TypeLayout::get_output_type_from_index` (head); dependencies of list / argument / index / map literals",
 "C03": "rejection side of the operator table and of list / function-type compatibility; `Parser::{if_statement, while_loop, assertion, return_statement, function_arguments, assignment_type, assignment_no_type, reassignment}`, tail of `Parser::assignment`, `Expr::for_type` (BinOp), `Parser::function_parameters`, `Value::get_usize`, `has_name_been_mapped_in_function`; `TypeLayout::get_output_type_from_index` (head)",
 "C04": "`split_string_v2` (argument decoder), `CompiledItem::repr` binary form + `fix_arg_if_needed` (writer), round-trip lemma; `perform_file_io_out` (file = exactly the records); body of the record loop of `MScriptFile::get_functions` (loader); `--stack-size` defaults of `run` / `execute` (cli.rs attributes)",
 "C05": "every `impl {Add,Sub,Mul,Div,Rem,BitAnd,BitOr,BitXor,Shl,Shr} for &Primitive` (macro bodies), `negate`, `equals`, `PartialOrd`, `!` — 16 kind pairs × all operand values",
 "C06": "`mod string_arithmetic` of `compiler/src/ast/number.rs` verbatim (the folder of `+ - * / % & \\| ^ << >>` on literals), `Number::negate`, arms UnaryMinus / BinOp of `Expr::try_constexpr_eval`; the run-time operators of C05 (the other side of the agreement)",
 "C07": "handlers `make_function`, `call`, `load`, `store`, `store_object`; `Ctx::{push, load_callback_variable, update_callback_variable}`; `Stack::register_variable_flags`, `find_name`, `register_variable_local`; `VariableMapping::update`; `impl Dependencies for Expr / Assignment / IfStatement / ElseStatement / WhileLoop / NumberLoop / ReturnStatement / Assertion / PrintStatement / Reassignment / ReassignmentPath`; `impl Dependencies for DotChain`; `MapOp/FilterOp::{new, wait_for}`; tail of `process_standard_jump_request`; parser-side capture marking; handler `call_self` + `Ctx::get_callback_variables`; `impl Dependencies for List / FunctionArguments / Index / Map`",
 "C08": "`HeapPrimitive::set`, handler `ptr_mut`, `DotLookupOption::compile` / `DotChain::compile`, `runtime_addr_check` (`is`), `bin_op_assign` tables, `store_object` (`modify`), `unwrap_into`, `ret` / `store` (values, not pointers), `self`-first check of `Parser::function_parameters`",
 "C09": "same compile functions as C01 + `compile_depth` BinOp arm; interpreter side: control handlers, `Function::run` step (frames opened / closed per exit state), `pop_until_function`; scope-depth discipline of `Parser::{if_statement, while_loop}` (one scope per frame)",
 "C10": "`Ident::{new,mark_const,is_const,wrap_in_callback,clone_with_type}`, `Parser::{assignment_type,assignment_no_type}`, tail of `Parser::assignment`, name loop of `Parser::assignment_unpack`, tail of `Parser::number_loop`, `Expr::root_ident`, `Expr::for_type` (BinOp), `Op::is_op_assign`, `parse_path` (root-name arm, `.field` step) and `Parser::reassignment`, `Parser::class`, `Parser::import_standard`, the member-binding part of `Parser::import_names` (known finding D45), `has_name_been_mapped_in_function`, `Stack::register_variable_flags` (read-only backstop)",
 "C11": "`Program::process_jump_request`, `process_library_jump_request`, `Import::compile`, handler `export_name`, `Assignment::type_from_node`, declaration loop / class arm of `ModuleType::from_node`; the const-flag functions of C10 that stop an importer's writes; `Import::path_from_parts`, `Parser::import_path`, `Parser::import_standard`; order of the generic `to_str` arm in `Primitive::lookup`",
 "C12": "`jmp_not_nil`, `unwrap`, `unwrap_into` handlers and the `Ctx` methods they use; leading match of `Primitive::equals`; `TypeLayout::{get_type_recursively, is_optional, disregard_distractors}` + arms UnaryUnwrap / NilEval of `Expr::for_type`; NilEval arm of `Expr::dependencies`; `map_prefix` closure of `parse_expr` (`get e` is always an unwrap); `compile_depth` BinOp arm (comparisons with `nil`)",
 "C13": "`BuiltInFunction::run` arms `VecLen/Reverse/Remove/Push/Join/IndexOf/Clear/Clone`, list arm of `Primitive::equals`, `vec_op` index / append branches, `Primitive::try_into_numeric_index`, `GcMap::{insert,get,len,contains_key,clear,remove}`, `HeapPrimitive::set`, `ptr_mut`, `map`/`filter` bridges (empty receiver, visit)",
 "C14": "`BuiltInFunction::run` arms `GenericToInt/ToBigint/ToByte/ToFloat/Abs`, `FloatFPart/IPart/Round/Floor/Ceil` (value, not only kind), `StrLen/Substring/Insert/Delete/Split/IndexOf`; string indexing (`vec_op` Str arm); the dispatch table `Primitive::lookup` ∘ `static_module_generator!`",
 "C15": "`compile_depth` BinOp arm; `List::compile`, `Map::compile`, `Callable::compile`; handlers `store_skip`, `jmp_not_nil`, `ret`; `vec_op +`; BinOp arm of `Expr::try_constexpr_eval` (a non-constant operand is never folded away); `map_infix` / `map_prefix` closures of `parse_expr`; the precedence table",
 "C16": "the literal folder (never panics), `number_from_string`, `TryFrom<&Number> for usize`, `Value::get_usize`, `ListType::upper_bound` (known finding D25), `ListType::try_coerce_to_open`, `Parser::function_parameters`, `Expr::for_type` (op-assign / `?=` operand shapes; `or` typing without assert)",
 "C17": "\"returns `Err`, never panics\" reading of the C05/C13/C14 functions; `try_into_numeric_index`; `call` keeps the native frame on failure; `map`/`filter` visits; `assert` handler; `Function::run` step: a callee's error reaches the caller unchanged (also under a list callback); `Display for Stack`",
 "C18": "`CompiledItem::repr` text form, transpiler `Instruction::repr`, transpiler line decoder, opcode name table; the loader's record loop (shared with C04)",
 "C19": "`call_lib` handler, `process_library_jump_request` and the Library arm of `process_jump_request`, the `JumpRequest` arm of `Function::run` (value pushed, FFI error fails)",
 "C20": "filter predicate of `clean_command` for every file name of ≤ 5 (thorough: 6) bytes over a stated alphabet; loop frame by source scan — **bounded, not proof**",
}
out = subprocess.run([str(V / "vcheck"), "list"], capture_output=True, text=True).stdout
units = {}
for l in out.splitlines():
    p = l.split()
    if len(p) >= 3 and p[1] in ("verus", "kani"):
        for pr in p[2].split(","):
            units.setdefault(pr, []).append((p[0], p[1]))
rows = ["| id  | units (file `units/<name>.py` or a unit inside it) | engine | real functions under contract (extracted from `/repo` on every run) |", "|-----|-----|-----|-----|"]
for pr in sorted(FUNCS):
    us = units.get(pr, [])
    eng = sorted({e for _, e in us})
    engs = ", ".join("Verus" if e == "verus" else "Kani" for e in eng) + (" (bounded)" if pr == "C20" else "")
    rows.append(f"| {pr} | {', '.join(u for u, _ in us)} | {engs} | {FUNCS[pr]} |")
n_units = len({u for us in units.values() for u, _ in us})
d = (V / "DESIGN.md").read_text()
d = re.sub(r"<!-- SUMMARYTABLE:BEGIN -->.*?<!-- SUMMARYTABLE:END -->", lambda m: "<!-- SUMMARYTABLE:BEGIN -->\n" + "\n".join(rows) + f"\n\n({n_units} units.)\n<!-- SUMMARYTABLE:END -->", d, flags=re.S)
(V / "DESIGN.md").write_text(d)
print(n_units, "units")

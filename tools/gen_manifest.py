#!/usr/bin/env python3
"""Regenerates /verif/MANIFEST.json from the table below (kept in one place so the manifest is always valid)."""
import json
from pathlib import Path
V = Path(__file__).resolve().parent.parent
TECH_V = "contract-based deductive verification: Verus on the real function text translated mechanically on every run (V-t)"
TECH_K = "contract-based deductive verification: Kani/CBMC loop-free harnesses over the full operand domain on real text extracted into a dependency-free crate (K-t)"
CLAIMS = {
 "C01": ("proof", "Verus proves, for all block lengths and arbitrary child code, the jump/offset/scoping layout contracts of the real IfStatement/ElseStatement/WhileLoop/NumberLoop::compile (translated mechanically each run). The mechanisms the property's anchors name are decided; whole-program semantics is not. Interpreter side (Verus): each control handler (if_stmt, while_loop, jmp, jmp_pop, done, else_stmt, store_skip, load) signals exactly the exit state / reads exactly the variable the layouts assume, and the exit-state step of Function::run moves the instruction pointer and opens / closes frames accordingly; Stack::register_variable_flags / find_name / pop_until_function / get_executing_function_label.", "4.C01", TECH_V + "; " + TECH_K,
         "rule table of the translator; children's compile abstract; block lengths < 2^28; Verus/Z3"),
 "C04": ("proof", "Verus proves that the real reader (split_string_v2) and the real writer (CompiledItem::repr, binary form) conform to the codec state machine / escaping spec for all strings, and the round-trip lemma over those contracts; perform_file_io_out leaves the file holding exactly the records whatever the path held before. ", "4.C04", TECH_V,
         "strings as char sequences (UTF-8 layer and file I/O not modelled); std contracts for replace/format/is_whitespace; rule table"),
 "C05": ("proof", "Every numeric operator x every kind pair: Kani proves value/kind/failure over the full operand domain on the real macro text (+ - & | ^ << >> comparisons, equality, negation); Verus proves * / % on the mechanically expanded macro text against the exact-integer spec.", "4.C05", TECH_K + "; " + TECH_V,
         "K-t extraction (scalar Primitive, anyhow shims); machine * / % semantics and IEEE operations trusted; overflow-checks=on"),
 "C09": ("proof", "Same layout contracts as C01 read as structural well-formedness: every emitted jump lands where the layout says, every opened frame has its closing instruction, break/continue pop the right number of frames; for all block lengths. Interpreter side: control handlers and the Function::run step open / close exactly the frames the layouts count on; pop_until_function.", "4.C09", TECH_V,
         "as C01; depth composition over arbitrary nesting is not mechanised"),
 "C12": ("proof", "Verus proves the real handlers jmp_not_nil / unwrap / unwrap_into (and the Ctx methods they call) against the statement-level contracts of `or`, `get`, `?=`. Primitive::equals (leading match): nil equals only nil, a present optional compares by its payload on either side.", "4.C12", TECH_V,
         "heap pointers abstract; frame write abstract; error texts dropped"),
 "C14": ("proof", "Kani proves the numeric built-in method arms (conversions, abs, float parts) over all receivers on the extracted arm text. Verus proves the string method arms with positions (len, substring, insert, delete, split) and string indexing by characters.", "4.C14", TECH_K + "; " + TECH_V,
         "K-t extraction of match arms; float parts only kind/totality; string methods not yet covered"),
 "C17": ("proof", "The 'returns Err, never panics' re-reading of every operator and numeric built-in obligation (Kani: no failed Rust panic check in the code under contract; Verus strict mode for * / %). Known finding D9 (integer overflow panics) is reported as such. map / filter bridge visits never index past the list; Display for Stack lists every active frame once, innermost first.", "4.C17", TECH_K + "; " + TECH_V,
         "as C05/C14; trace shape and process exit status not yet covered"),
 "C20": ("proof", "Verus proves the real clean_command (translated mechanically each run) for EVERY directory listing and every file name: on success exactly the non-directory entries directly inside DIR whose extension is `mmm` were removed, each by its own path DIR/NAME, and their number reported; when it stops with an error, a prefix of them; no other file-system effect; the Clean arm of main cleans exactly the directory the user named (clap hands it over as typed). The meaning of `extension` is the documented contract of std::path::Path::extension, assumed by the proof and cross-checked against the real std by a BOUNDED Kani harness (names up to 5 / 6 bytes over a fixed alphabet), which also re-checks the extracted predicate on the real std (bounded obligations, counted separately, never as proved).", "4.C20", TECH_V + "; bounded Kani cross-check of the assumed std contract (K-t)",
         "std::fs::read_dir / DirEntry / remove_file / Path::extension contracts assumed from the std documentation; fewer than 2^31 entries; concurrent modification, permissions and I/O races outside the contract; helper functions a change introduces are not carried (undecided, or reported by the syntactic frame scan)"),
}
CLAIMS.update({
 "C02": ("proof", "Static operator table vs run time: Kani proves for every (kind, kind, operator) cell of the real get_output_type table that the static result kind is the kind the run-time operator yields and that no cell is accepted on which the run-time operator cannot succeed; the run-time side of each numeric cell is proved by the C05 obligations (also listed here). Verus proves the list arms of eq_complex / PartialEq for ListType (every slot, not some slot) and try_coerce_to_open (every adjacent pair) for all list lengths. Statement-level typing checks of the parser are not yet under contract. Further (Verus): supports_negate, numeric from-bounds, if/else return-path marking, call-argument count and types, FunctionType equality, compound-assignment result type, conditions read through element / field pointers.", "4.C02", TECH_K + "; " + TECH_V,
         "only the native operator table and the run-time operators; soundness as one composed theorem is not decided"),
 "C03": ("proof", "Rejection side of the operator table: every cell on which the run-time operator cannot succeed yields None in the real get_output_type table (Kani, all cells); list compatibility rejects a fixed-shape list with one incompatible slot (Verus); the const/type tests of assignment, modify, loop counter and op-assign reject (Verus, any parse tree). Further (Verus): boolean condition of if / while / assert, call-argument count and types, op-assign / ?= only onto places, constructor needs self, the scope lookup the checks rely on.", "4.C03", TECH_K + "; " + TECH_V,
         "only the operator table; diagnostics' position text and the other fault kinds are not decided yet"),
 "C07": ("proof", "Verus proves that the real make_function handler captures exactly the listed names, each as the same cell the defining scope's lookup (frames first, then its own captures) finds - capture by reference as handle routing. Also: store overwrites the visible variable's own cell (Stack::register_variable_flags), modify writes the captured variable's cell (store_object, update_callback_variable, VariableMapping::update), load resolves own variables, then captures, then the call stack; Expr / Assignment dependencies (capture lists).", "4.C07", TECH_V,
         "cell semantics of the gc crate assumed; frame lookup abstract; composition over call histories not mechanised"),
 "C11": ("proof", "Verus proves the run-time half on the real process_jump_request: a cached module is never run again (callee precondition), the cached instance itself is returned, a miss caches the result under exactly its key; Import::compile emits module_entry first for both import forms. export_name shares the module variable's own cell with the export table.", "4.C11", TECH_V,
         "RefCell<HashMap> as &mut finite map; compile-time half (queue, export typing) not covered"),
 "C15": ("proof", "Verus proves the real BinOp arm of compile_depth: left operand code strictly before right, each once; &&/|| skip offsets; the register holding the left value is not written by the right operand's code; plus the jmp_not_nil handler for `or`. List::compile, Map::compile, Callable::compile: elements / pairs / arguments left to right, each once, holding registers undisturbed; store_skip handler; list elements and map values stored by value.", "4.C15", TECH_V,
         "recursive compile_depth calls assumed to satisfy the same register frame contract; call/list/map literal order not yet covered"),
 "C18": ("proof", "Verus proves text writer, transpiler line decoder and transpiler re-encoder against the codec spec (all argument strings), line integrity (no raw LF/CR), composed with the C04 reader contract; the opcode table is enumerated exhaustively.", "4.C18", TECH_V,
         "strings as char sequences; file framing and std split/trim/format contracts assumed"),
 "C19": ("proof", "Verus proves the real call_lib handler (whole operand stack, in order, unchanged, any kinds; stack cleared; names required) and the routing of library requests in process_jump_request / process_library_jump_request over assumed libloading contracts. The JumpRequest arm of Function::run pushes the call's value and fails on an FFI error (also in tail position).", "4.C19", TECH_V,
         "libloading and the dylib ABI assumed; Function::run's JumpRequest arm not yet covered"),
})
CLAIMS.update({
 "C06": ("proof", "Kani proves, for every operator and kind pair over the full operand domain, that the real folder module (number.rs string_arithmetic, macros expanded by rustc inside the Kani build) yields the kind and value of the exact-value spec the run-time operators are proved against in C05, and rejects exactly when the run time fails; Verus proves Number::negate keeps kind and toggles sign. Verus proves the folding walk (Expr::try_constexpr_eval, arms UnaryMinus and BinOp): operators applied to the folded operands, each source operator mapped to its own arithmetic.", "4.C06", TECH_K + "; " + TECH_V,
         "numerals abstracted to their value (String -> value-carrying shim); machine * / % abstracted to uninterpreted deterministic operations shared with the spec; the walker Expr::try_constexpr_eval is not under contract"),
 "C08": ("proof", "Verus proves HeapPrimitive::set writes any value into exactly the field cell / list slot / map key the pointer denotes, and that `is` on objects compares identity tokens; Kani proves both operator tables of bin_op_assign compute `x op v` with the current value as left operand. Also: modify (store_object) and ?= (unwrap_into) store values, not live pointers; Parser::function_parameters requires self first.", "4.C08", TECH_V + "; " + TECH_K,
         "gc cell semantics assumed; make_object / call_object / ld_self handle routing not yet under contract"),
 "C10": ("proof", "Verus proves, per write form and for every parse tree/context (pest API and scope lookups abstract): Ident const-flag propagation (wrap_in_callback, clone_with_type, mark_const); the previous declaration handed to the const test is the lookup over all blocks of the function (or the captured scopes for modify); Parser::assignment's const/type test; `+=`-family and `?=` (incl. elements/fields rooted at a const) in Expr::for_type; reuse as a `from` loop counter.", "4.C10", TECH_V,
         "index/field `=` (Parser::reassignment), unpacking, class/import idents are not yet under contract; scope push/pop discipline assumed"),
 "C13": ("proof", "Verus proves the list method arms of BuiltInFunction::run (len, reverse, remove incl. range failure, push, join, index_of, clear, clone) and list equality against the sequence model with sharing made explicit (a handle denotes a heap cell; clone allocates a fresh cell), plus writes through element pointers (HeapPrimitive::set). GcMap insert/get/len/contains_key/clear/remove against the finite-map model; list literal append and map literal insert store values; map / filter on an empty receiver.", "4.C13", TECH_V + "; " + TECH_K,
         "gc/RefCell/std::Vec semantics assumed; map methods, index read, map/filter bridges and composition over operation histories not covered"),
 "C16": ("proof", "Panic-freedom of the parts function contracts can reach: Kani proves the constant folder never panics on literal operands (all operators, kind pairs, values); Verus proves number_from_string, the usize conversion of literals and scopes_since_loop free of panics (every unwrap/expect/unreachable!/slice/subtraction is an obligation). Known finding D25 (empty fixed-shape list index) is reported as such. pest, recursion depth and untranslated AST builders are NOT decided. Parser::function_parameters (self first), Expr::for_type operand shapes for op-assign and ?=.", "4.C16", TECH_K + "; " + TECH_V,
         "claimed only for the listed helper functions; totality over arbitrary source text is not decided"),
})

# additions of the later rounds (appended to the claim text) and refreshed caveats
MORE = {
 "C01": " Function::compile (parameter prologue, layout); handlers ret / store / store_fast / load_fast / assert; scope predicates a change adds are carried along with their own body as contract; the operator precedence table; a from loop re-using a counter name writes that variable; call_self.",
 "C02": " Also: is_numeric; the return-statement table; element / field assignment only of a fitting value; typing of `get` (also on a captured variable) and `or`; class methods return on every path; fixed-shape lists need equal length. Known finding D40 (return of `T?` from `-> T`) is reported as such.",
 "C03": " Also: return against the declared type; element / field assignment; a constant index that is no position is a diagnostic (Value::get_usize); an index whose type is not an index kind is rejected whether constant or not; an optional value is never accepted for a non-optional return type or place.",
 "C04": " The loader's record loop (MScriptFile::get_functions, body of the loop): per record form the writer emits, exactly its effect on the loader state; no well-formed record skipped, later definition wins, buffer emptied. run / execute have the same default stack size (constant equality).",
 "C06": " The run-time operator obligations of C05 are part of this check (the other side of the agreement).",
 "C07": " Dependencies of every statement kind incl. the place an element / field assignment writes through; list.map / filter bridges keep and pass on the callback's captured variables; a dot chain depends on its method calls' arguments; make_function resolves captured names lexically.",
 "C08": " ptr_mut: exactly one write of exactly the value through exactly the pointer, unconditionally; ret / store hand on values; the code generated for method calls in a dot chain (receiver saved, passed as self).",
 "C10": " Unpacking: every name looked up, const or not; element / field assignment: the path's const flag is the root variable's (also captured) and a const path is rejected; a `.field` step through a module is const; class names and `import m` aliases are constants at every registration. Known finding D45 (an imported member can be rebound locally) is reported as such.",
 "C11": " Compile-time export list: a variable (type_from_node) and a class (ModuleType::from_node declaration loop) enter it only when that declaration says export; the const-flag obligations that stop an importer's writes are part of this check; `m` and `./m` are one path; an existing `m.ms` is the module whatever else is named `m`.",
 "C12": " Typing of `get x` and `(x) or y` with the real is_optional / get_type_recursively / disregard_distractors; no compiler panic in the typing of `or`; `get e` is always parsed to an unwrap; `a ?= e` writes the visible variable.",
 "C13": " A run-time index is the number it denotes or fails (try_into_numeric_index); element / entry assignment (ptr_mut).",
 "C14": " Float parts by VALUE (integer-valued, on the stated side of x, less than 1 away); index_of (first occurrence, byte position); the method dispatch table (name -> built-in) against the property's method names.",
 "C15": " Constant folding never drops an operand that is not itself a constant; the value of the left operand of && / || decides also through a pointer; the expression parser builds `a OP b` with operands in source order and the operator as written; operator precedence table.",
 "C16": " Value::get_usize, try_coerce_to_open on an empty list, typing of `or` without assert_eq!.",
 "C17": " Function::run step: an error coming out of a called function (directly or under a list callback) is returned itself, not a re-worded one; try_into_numeric_index fails instead of wrapping; assert handler.",
 "C18": " The loader's record loop (shared with C04): every record kind incl. whitespace-valued opcodes.",
 "C19": " A failing foreign call's error reaches the caller unchanged (run step).",
}
MORE2 = {
 "C01": " The bin_op handler: which operand is the left one, the operator each symbol applies (Kani, all operand values) and the Op::symbol table; a block's own locals are not captured by the enclosing function (else statement).",
 "C02": " Declared result kinds of the built-in number methods and string parsers = the kinds the built-ins return (table comparison against the c14_num / c14_pow / c14_parse contracts); a literal too large for an int has kind bigint.",
 "C03": " The methods offered on a fixed-shape list neither move, remove nor add elements; an unpacking declaration with more names than positions is a diagnostic.",
 "C04": " The in-memory route of `run`: From<CompiledItem> for Instruction, seal_compiled_items, MScriptFileBuilder::add_function, Functions::add_function hand every opcode and argument on unchanged, each function under its own name.",
 "C05": " The handlers: bin_op (operand sides, values through pointers, result), its operator table symbol by symbol (Kani), by-value operator impls, equ / neq (one notion of equality), neg / not; the Op::symbol table.",
 "C07": " get_net_dependencies / eq_allow_callbacks: exactly the mentions no own declaration satisfies are free variables; a same-block local never hides a captured variable.",
 "C08": " Member resolution on an object (Object::get_property / has_variable / has_function): own field, else the method registered as exactly `Class::name`.",
 "C12": " Constant folding of `get e` (a constant nil operand is rejected however it is spelled) and `(p) or f`; the postfix `or` binds tighter than every prefix / binary operator.",
 "C14": " String parsers (which text goes to which std parser; exactly one `0x` / `0b` prefix; radix domain), sqrt / pow / powf applied to the receiver's whole value, string repetition (n copies or a failure).",
 "C15": " bin_op applies the operator to (left, right) in that order.",
 "C16": " The bounds guard of an unpacking declaration (no underflow, no out-of-range swap_remove); Display for ListType on the empty list.",
 "C17": " Radix outside 2..36, string repetition beyond the address space: failures, not panics (D60, D61).",
 "C18": " run / execute default stack size (shared with C04).",
 "C19": " The trace listing (Display for Stack) and the argument decoder the loader runs call_lib's names through are part of this check."
}
for _k, _v in MORE2.items():
    MORE[_k] = MORE.get(_k, "") + _v
MORE3 = {
 "C02": " Compatibility is sound: the whole of eq_complex, every arm in match order, against the meaning of types as sets of run-time values (accepted => every value of the supplied type is a value of the expected type; inductive step, the recursive calls by the induction hypothesis); soundness lemma of try_coerce_to_open; an import declares the names it binds (D82-D86, D89 repaired).",
 "C03": " An undeclared name is a diagnostic (ident arm of parse_expr); map literal keys / values, re-assignment through a path and returned values are tested as (expected, supplied) without leniency; `[A, B...]` is a diagnostic.",
 "C04": " The whole loader (MScriptFile::get_functions with its loop): the loaded functions are the fold of the record step over the records of the file, first byte to last (no I/O error assumed).",
 "C06": " The leaves of the folding walk: `!e`, nil, typeof, literal values; calls, indexes, field accesses, names and maps are never constants.",
 "C07": " Lexical lookup with the capture flag; the ident arm of parse_expr; Stack / Ctx frame operations; dependencies and supplies of Block / Function / Class / Import.",
 "C08": " Handlers call_object, lookup, module_entry, load_self_export, export_special, ret_mod.",
 "C13": " The map built-ins as arms of BuiltInFunction::run (len, contains_key, replace, remove, clear, clone, keys, values, pairs) and GcMap::keys / values / pairs; the closure chain of `pairs` verified as the loop it denotes.",
 "C14": " chars (one string per character, in order) and to_str; a numeral prefix is followed by digits, `0x` is a prefix in radix 16 only (D87).",
 "C16": " Parser::list_type returns for every child the grammar delivers; the cost discipline of the type comparison (components compared once per level: D88).",
}
MORE4 = {
 "C01": " The smallest code generators (Ident, return, print, break, continue) emit exactly their instruction(s).",
 "C02": " Map types are invariant (PartialEq for MapType); a method's parameters are not names of the other methods; a present optional handed out by a built-in is the plain value. Known finding D99 (lists shared between aliases are accepted covariantly).",
 "C03": " Every diagnostic names the source file: all construction sites of compiler/src sliced to their file argument.",
 "C06": " A numeric literal folds to itself (the leaf of the walk).",
 "C07": " A from loop's counter is not declared for the rest of the block; only a function boundary lets a same-named local stand for a captured variable.",
 "C08": " A class declared inside a function can be declared again on the next call.",
 "C11": " The compilation queue: every queued module is compiled and delivered exactly once, with its own code.",
 "C13": " map / filter yield a new list (bridge new / finish).",
 "C16": " `Self` outside a class and `self: T` are diagnostics; the grammar's ordered choices do not parse a nesting construct twice (certificates over the extracted rule graph, checked by the verifier). `mscript compile` calls the compiler on a thread whose stack covers 4096 levels of recursion (per-level cost assumed, D103).",
 "C17": " Known finding D102 (the trace also lists block frames).",
}
MORE5 = {
 "C01": " Keywords are whole words in the grammar (rules that can succeed on a keyword alone or on a keyword and one expression: extracted, decided by the verifier).",
 "C07": " `modifyx = 1` is a declaration, not `modify x = 1` (grammar keywords are whole words).",
 "C02": " A map type whose key type may hold a map is a diagnostic (nothing the interpreter cannot hash); a class declares each member name once.",
 "C10": " The variables a place is rooted at are followed through `get`, `or` and parenthesised values.",
 "C11": " What a by-name import binds (known finding D105: a copy, not the module's variable). A bare `return` in the top-level code of a file hands the module to the importer (`ret_mod`).",
 "C12": " A failing `get` names the source position of that `get`.",
}
for _k, _v in MORE5.items():
    MORE4[_k] = MORE4.get(_k, "") + _v
for _k, _v in MORE4.items():
    MORE3[_k] = MORE3.get(_k, "") + _v
for _k, _v in MORE3.items():
    MORE[_k] = MORE.get(_k, "") + _v
NOTES = {
 "C02": "the native operator table, the run-time operators and the listed parser functions; eq_complex soundness is the inductive step with the induction hypothesis as an axiom (termination not proved), generics outside; soundness of the whole checker as one composed theorem is not decided",
 "C03": "pest API, lookups and sub-parsers abstract; diagnostics' position text and unknown field / method faults are not decided",
 "C06": "numerals abstracted to their value (String -> value-carrying shim); machine * / % abstracted to uninterpreted deterministic operations shared with the spec; string / bool folding not covered",
 "C10": "class fields, the postfix steps of an assignment path and the marking of class / import idents as const are not under contract; scope push/pop discipline assumed",
 "C11": "RefCell<HashMap> as &mut finite map; the compile queue and path spelling are not covered",
 "C13": "gc/RefCell/std::Vec/HashMap semantics assumed (map iteration order unspecified, one order for keys/values/pairs); then/finish of the bridges and composition over operation histories not covered",
 "C14": "K-t extraction of match arms; f64 sqrt / powf / powi, std numeral parsers, str::replace / contains and Display for Primitive are the definition of the result (uninterpreted)",
 "C15": "recursive compile_depth calls assumed to satisfy the same register frame contract; index / method-call receivers not covered",
 "C17": "as C05/C14; the text of Program::execute's report and process exit status are not covered",
 "C19": "libloading and the dylib ABI assumed; the error report text not covered",
 "C08": "gc cell semantics assumed; the rest of make_object and ld_self are not under contract",
 "C04": "strings as char sequences (UTF-8 layer not modelled); I/O errors while reading and malformed records are not covered; std contracts assumed; rule table",
}
for k, extra in MORE.items():
    c = list(CLAIMS[k]); c[1] = c[1].rstrip().replace(" Statement-level typing checks of the parser are not yet under contract.", "") + extra; CLAIMS[k] = tuple(c)
for k, n in NOTES.items():
    c = list(CLAIMS[k]); c[4] = n; CLAIMS[k] = tuple(c)
PENDING = {}
props = [json.loads(l)["id"] for l in (V / "properties.jsonl").read_text().splitlines() if l.strip()]
checks = []
for pid in props:
    if pid in CLAIMS:
        cat, txt, ref, tech, note = CLAIMS[pid]
        checks.append({"property_id": pid, "quick_cmd": f"./vcheck check {pid} --tier quick", "thorough_cmd": f"./vcheck check {pid} --tier thorough",
                       "evidence_file": f"/verif/evidence/{pid}.json", "replay_cmd_template": "./vcheck replay {path}", "engine": "vcheck",
                       "level_claimed": {"category": cat, "text": txt, "design_ref": ref}, "level_note": note, "technique": tech})
na = [{"property_id": p, "reason": PENDING.get(p, "no check registered in this commit yet (contracts for this property are still being built; see DESIGN.md)")} for p in props if p not in CLAIMS]
m = {"version": 1,
     "setup_cmd": "true",
     "hooks": {"guard": "kani", "enable": "no hook in /repo is needed: every check reads /repo's working tree, extracts/translates the real function text into scratch files outside /repo and runs Verus / cargo kani there (cfg(kani) exists only in those scratch crates)",
               "baseline_off_cmd": "cd /repo && cargo test --workspace --no-fail-fast --offline", "source_commits": [], "add_only": True},
     "engines": [{"name": "vcheck", "path": "/verif/vcheck", "serves_properties": sorted(CLAIMS), "kind_free_text": "driver: extraction/translation of real code + Verus (V-t, V-lem) + Kani (K-t) + known findings + evidence"}],
     "checks": checks,
     "not_applicable": na,
     "notes": "fix: commits in /repo repair genuine defects found by the checks (see KNOWN_FINDINGS.json, status fixed)"}
(V / "MANIFEST.json").write_text(json.dumps(m, indent=1))
print("claims:", sorted(CLAIMS), "pending:", [x["property_id"] for x in na])

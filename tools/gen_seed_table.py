#!/usr/bin/env python3
"""Regenerate the seeded-change table of DESIGN.md (between the SEEDTABLE markers) from seeded/RESULTS.json and seeded/*/meta.json."""
import json, re
from pathlib import Path
V = Path(__file__).resolve().parent.parent
res = json.loads((V / "seeded" / "RESULTS.json").read_text())
rows = ["| seed | what the change does (one line) | file | check result | caught by obligation |", "|---|---|---|---|---|"]
caught = missed = undec = gone = 0
for seed in sorted(res):
    meta = json.loads((V / "seeded" / seed / "meta.json").read_text())
    summ = re.sub(r"\s+", " ", meta.get("summary", "")).strip()
    summ = (summ[:150] + "…") if len(summ) > 150 else summ
    files = ", ".join(Path(f).name for f in meta.get("files_changed", []))
    cells, obl = [], []
    best = None
    for p, o in res[seed].items():
        e = o.get("exit")
        if e is None:
            cells.append(f"{p}: patch no longer applies"); st = "gone"
        elif e == 1:
            cells.append(f"{p}: **VIOLATION**"); st = "caught"
            for l in o.get("lines", []):
                m = re.search(r"replay=\S*/([^/\s]+)\.json", l)
                if m: obl.append(m.group(1))
        elif e == 2:
            cells.append(f"{p}: undecided (exit 2)"); st = "undec"
        else:
            cells.append(f"{p}: not caught (exit 0)"); st = "missed"
        rank = {"caught": 3, "undec": 2, "missed": 1, "gone": 0}
        if best is None or rank[st] > rank[best]: best = st
    caught += best == "caught"; missed += best == "missed"; undec += best == "undec"; gone += best == "gone"
    rows.append(f"| {seed} | {summ.replace('|', '/')} | {files} | {'; '.join(cells)} | {', '.join(sorted(set(obl)))[:160]} |")
rows.append("")
rows.append(f"Totals: {len(res)} seeded changes — {caught} caught (exit 1 with a VIOLATION line), {undec} undecided (exit 2), {missed} not caught, {gone} no longer applicable to the repaired tree.")
d = (V / "DESIGN.md").read_text()
table = "<!-- SEEDTABLE:BEGIN -->\n" + "\n".join(rows) + "\n<!-- SEEDTABLE:END -->"
d = re.sub(r"<!-- SEEDTABLE:BEGIN -->.*?<!-- SEEDTABLE:END -->", lambda m: table, d, flags=re.S)          # a function: a replacement STRING would have its backslashes read as escapes
(V / "DESIGN.md").write_text(d)
print(rows[-1])

use vstd::prelude::*;
verus! {

// ---- shared prelude for translated instruction handlers (V-t) ------------------------------------------
pub struct VErr;

#[verifier::external_body] pub struct VString { s: String }
pub uninterp spec fn num_of(s: &VString) -> int;           // the integer the text denotes (when it parses)
pub uninterp spec fn parses_isize(s: &VString) -> bool;
pub uninterp spec fn parses_usize(s: &VString) -> bool;
pub uninterp spec fn text_of(s: &VString) -> Seq<char>;

// String methods a change may route a text through: results are uninterpreted (NOT known to be the identity)
pub uninterp spec fn verif_replaced(t: Seq<char>, from: char, to: Seq<char>) -> Seq<char>;
pub uninterp spec fn verif_lowered(t: Seq<char>) -> Seq<char>;
pub uninterp spec fn verif_trimmed(t: Seq<char>) -> Seq<char>;
impl VString {
    #[verifier::external_body] pub fn replace(&self, from: char, to: &str) -> (r: VString) ensures text_of(&r) == verif_replaced(text_of(self), from, to@) { unimplemented!() }
    #[verifier::external_body] pub fn to_lowercase(&self) -> (r: VString) ensures text_of(&r) == verif_lowered(text_of(self)) { unimplemented!() }
    #[verifier::external_body] pub fn trim(&self) -> (r: VString) ensures text_of(&r) == verif_trimmed(text_of(self)) { unimplemented!() }
}
// R5: str::parse::<isize>() / ::<usize>() (assumed std contract: Ok exactly for well-formed numerals in range)
#[verifier::external_body]
pub fn parse_isize(s: &VString) -> (r: Result<isize, VErr>)
    ensures r is Ok <==> parses_isize(s), r is Ok ==> r->Ok_0 as int == num_of(s) { unimplemented!() }
#[verifier::external_body]
pub fn parse_usize(s: &VString) -> (r: Result<usize, VErr>)
    ensures r is Ok <==> parses_usize(s), r is Ok ==> r->Ok_0 as int == num_of(s) { unimplemented!() }
#[verifier::external_body]
pub fn clone_vs(s: &VString) -> (r: VString) ensures r == *s { unimplemented!() }

// opaque payloads of the variants whose contents the handlers under contract do not inspect
#[verifier::external_body] pub struct FloatV { x: f64 }
#[verifier::external_body] pub struct StrV { s: String }
#[verifier::external_body] pub struct HeapV { x: usize }
#[verifier::external_body] pub struct OtherV { x: usize }

// a variable cell handle (PrimitiveFlagsPair = Gc<GcCell<(Primitive, flags)>>): opaque, identified by the cell it points to.
// Assumed semantics of the `gc` dependency: clone keeps the cell; a write through one handle is seen through every handle of the cell.
#[verifier::external_body] pub struct Handle { x: usize }
pub uninterp spec fn cell_id(h: &Handle) -> int;
#[verifier::external_body]
pub fn clone_handle(h: &Handle) -> (r: Handle) ensures cell_id(&r) == cell_id(h) { unimplemented!() }
// a capture map (VariableMapping = Gc<GcCell<HashMap<String, PrimitiveFlagsPair>>>): finite map from names to handles (assumed std::HashMap semantics)
#[verifier::external_body] pub struct Caps { x: usize }
pub uninterp spec fn caps_view(c: &Caps) -> Map<Seq<char>, Handle>;
#[verifier::external_body]
pub fn caps_get(c: &Caps, name: &VString) -> (r: Option<Handle>)
    ensures r is Some <==> caps_view(c).contains_key(text_of(name)),
            r is Some ==> cell_id(&r->Some_0) == cell_id(&caps_view(c)[text_of(name)]) { unimplemented!() }
#[verifier::external_body] pub struct BuiltinV { x: usize }      // NonSweepingBuiltInFunction
#[verifier::external_body] pub struct BridgeV { x: usize }       // Box<dyn RuntimeExecutionBridgeNotifier>
#[verifier::external_body]
pub fn clone_caps_opt(c: &Option<Caps>) -> (r: Option<Caps>) ensures r is Some <==> c is Some, r is Some ==> caps_view(&r->Some_0) == caps_view(&c->Some_0) { unimplemented!() }
pub struct PrimitiveFunction { pub location: VString, pub callback_state: Option<Caps> }

pub enum Primitive {
    Bool(bool), Int(i32), BigInt(i128), Byte(u8), Float(FloatV), Str(StrV),
    Optional(Option<Box<Primitive>>),
    HeapPrimitive(HeapV),            // pointer into a list / map / object slot
    Function(PrimitiveFunction),
    BuiltInFunction(BuiltinV),
    Other(OtherV),                   // Vector, Object, Module, Map
}
#[verifier::external_body]
pub fn clone_prim(p: &Primitive) -> (r: Primitive) ensures r == *p { unimplemented!() }

// Primitive::move_out_of_heap_primitive_borrow / move_out_of_heap_primitive: identity on everything that is not a
// heap pointer; for a heap pointer the pointed-to value (abstract: heap_deref) or an error
pub uninterp spec fn heap_deref(h: &HeapV) -> Option<Primitive>;
pub open spec fn moved_out(p: Primitive) -> Option<Primitive> {
    match p { Primitive::HeapPrimitive(h) => heap_deref(&h), other => Some(other) }
}
// `==` of two Primitives (derived PartialEq): values of different variants are never equal -- a pointer never equals the value it points to
pub uninterp spec fn prim_eq(a: Primitive, b: Primitive) -> bool;
impl vstd::std_specs::cmp::PartialEqSpecImpl for Primitive {
    open spec fn obeys_eq_spec() -> bool { true }
    open spec fn eq_spec(&self, other: &Primitive) -> bool { prim_eq(*self, *other) }
}
impl PartialEq for Primitive {
    #[verifier::external_body]
    fn eq(&self, other: &Primitive) -> (r: bool)
        ensures (*self is Bool && *other is Bool) ==> r == (self->Bool_0 == other->Bool_0),
                ((*self is Bool) != (*other is Bool)) ==> !r,
                ((*self is HeapPrimitive) != (*other is HeapPrimitive)) ==> !r
    { unimplemented!() }
}
#[verifier::external_body]
pub fn move_out_borrow(p: &Primitive) -> (r: Result<Primitive, VErr>)
    ensures moved_out(*p) is Some ==> r is Ok && r->Ok_0 == moved_out(*p)->Some_0, moved_out(*p) is None ==> r is Err
{ unimplemented!() }
#[verifier::external_body]
pub fn move_out(p: Primitive) -> (r: Result<Primitive, VErr>)
    ensures moved_out(p) is Some ==> r is Ok && r->Ok_0 == moved_out(p)->Some_0, moved_out(p) is None ==> r is Err
{ unimplemented!() }

pub enum Exit { NoExit, Goto(isize), PushScope(SpecialScope), PopScope, GotoPopScope(isize, usize), ReturnValue(Box<Primitive>), JumpRequest(JumpRequest), BeginNotificationBridge(BridgeV) }
pub enum SpecialScope { If, Else, WhileLoop }
#[verifier::external_body] pub struct StackRef { x: usize }          // Rc<RefCell<Stack>>
pub enum JumpRequestDestination { Standard(VString), Module(VString), Library { lib_name: VString, func_name: VString } }
pub struct JumpRequest { pub destination: JumpRequestDestination, pub callback_state: Option<Caps>, pub stack: StackRef, pub arguments: Vec<Primitive> }
#[verifier::external_body]
pub fn clone_stack(v: &Vec<Primitive>) -> (r: Vec<Primitive>) ensures r@ == v@ { unimplemented!() }

// slice helpers (assumed std contracts)
#[verifier::external_body]
pub fn args_first(a: &Vec<VString>) -> (r: Option<&VString>)
    ensures a@.len() == 0 ==> r is None, a@.len() > 0 ==> r == Some(&a@[0]) { a.first() }
#[verifier::external_body]
pub fn args_get(a: &Vec<VString>, i: usize) -> (r: Option<&VString>)
    ensures a@.len() <= i ==> r is None, a@.len() > i ==> r == Some(&a@[i as int]) { a.get(i) }
#[verifier::external_body]
pub fn vec_last(v: &Vec<Primitive>) -> (r: Option<&Primitive>)
    ensures v@.len() == 0 ==> r is None, v@.len() > 0 ==> r == Some(&v@[v@.len() - 1]) { v.last() }
// `*v.last_mut().unwrap() = item` : the unwrap is a panic precondition (R8)
#[verifier::external_body]
pub fn vec_set_last(v: &mut Vec<Primitive>, item: Primitive)
    requires old(v)@.len() > 0
    ensures final(v)@ == old(v)@.update(old(v)@.len() - 1, item) { *v.last_mut().unwrap() = item; }

use vstd::prelude::*;
verus! {

// ---- shared prelude for translated checking parser functions (V-t): the pest API, the scope data and all sub-parsers are
//      abstract (R6: arbitrary results), so a contract holds for every parse tree and every context -----------------------
pub struct VErr;
#[verifier::external_body] pub struct Node { x: usize }
#[verifier::external_body] pub struct Span { x: usize }
pub uninterp spec fn node_children(n: &Node) -> Seq<Node>;      // the children pest delivers, in order
pub uninterp spec fn node_text(n: &Node) -> Seq<char>;          // Node::as_str
pub struct Children { pub items: Vec<Node> }
#[verifier::external_body] pub fn children(n: &Node) -> (r: Children) ensures r.items@ == node_children(n) { unimplemented!() }
pub fn node_kids(n: &Node) -> (r: Children) ensures r.items@ == node_children(n) { children(n) }     // same, under a name a local `children` does not shadow
impl Children {
    #[verifier::external_body]
    pub fn next(&mut self) -> (r: Option<Node>)
        ensures old(self).items@.len() == 0 ==> r is None && final(self).items@ == old(self).items@,
                old(self).items@.len() > 0 ==> r == Some(old(self).items@[0]) && final(self).items@ == old(self).items@.subrange(1, old(self).items@.len() as int)
    { unimplemented!() }
}
// Option::unwrap / expect on a child: a panic precondition (R8) discharged from the grammar's child counts
#[verifier::external_body] pub fn unwrap_node(o: Option<Node>) -> (r: Node) requires o is Some ensures Some(r) == o { o.unwrap() }
// tests a change may add on the kind of a node / of a parsed value: uninterpreted
pub uninterp spec fn has_rule(n: &Node, r: &str) -> bool;
#[verifier::external_body] pub fn node_has_rule(n: &Node, r: &str) -> (b: bool) ensures b == has_rule(n, r) { unimplemented!() }
#[verifier::external_body] pub fn as_span(n: &Node) -> (r: Span) { unimplemented!() }
#[verifier::external_body] pub fn new_err(s: Span, n: &Node) -> (r: VErr) { unimplemented!() }

// ---- types and values
#[verifier::external_body] pub struct TypeLayout { x: usize }
#[verifier::external_body] pub struct Value { x: usize }
pub uninterp spec fn has_kind(v: &Value, k: &str) -> bool;
#[verifier::external_body] pub fn value_has_kind(v: &Value, k: &str) -> (b: bool) ensures b == has_kind(v, k) { unimplemented!() }
#[verifier::external_body] pub struct ClassType { x: usize }
pub uninterp spec fn type_of(v: &Value, cls: Option<&ClassType>) -> Option<TypeLayout>;      // Value::for_type
#[verifier::external_body] pub fn value_for_type(v: &Value, cls: Option<&ClassType>) -> (r: Result<TypeLayout, VErr>)
    ensures r is Ok <==> type_of(v, cls) is Some, r is Ok ==> r->Ok_0 == type_of(v, cls)->Some_0 { unimplemented!() }
pub uninterp spec fn spec_is_boolean(t: &TypeLayout) -> bool;
#[verifier::external_body] pub fn is_boolean(t: &TypeLayout) -> (r: bool) ensures r == spec_is_boolean(t) { unimplemented!() }
// expected.eq_complex(supplied, flags): `lhs_unwrap` is the flag preset of the call site
pub uninterp spec fn compatible(expected: &TypeLayout, supplied: &TypeLayout, cls: Option<&ClassType>, lhs_unwrap: bool) -> bool;
#[verifier::external_body] pub fn eq_complex(expected: &TypeLayout, supplied: &TypeLayout, cls: Option<&ClassType>, lhs_unwrap: bool) -> (r: bool)
    ensures r == compatible(expected, supplied, cls, lhs_unwrap) { unimplemented!() }
pub uninterp spec fn callback_of(t: TypeLayout) -> TypeLayout;                               // TypeLayout::CallbackVariable(Box::new(t))
pub uninterp spec fn is_callback_ty(t: TypeLayout) -> bool;
pub broadcast axiom fn callback_facts(t: TypeLayout) ensures #[trigger] is_callback_ty(callback_of(t));
#[verifier::external_body] pub fn mk_callback(t: TypeLayout) -> (r: TypeLayout) ensures r == callback_of(t) { unimplemented!() }

// ---- sub-parsers (arbitrary results)
#[verifier::external_body] pub fn parse_value(n: Node) -> (r: Result<Value, VErr>) { unimplemented!() }
#[verifier::external_body] pub fn parse_type(n: Node) -> (r: Result<TypeLayout, VErr>) { unimplemented!() }
#[verifier::external_body] pub struct VStr { s: String }
pub uninterp spec fn str_view(s: &VStr) -> Seq<char>;
#[verifier::external_body] pub fn clone_str(s: &VStr) -> (r: VStr) ensures r == *s { unimplemented!() }

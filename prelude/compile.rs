use vstd::prelude::*;
verus! {

// ---- shared prelude for translated `Compile` impls (V-t) -------------------------------------------
pub struct VErr;

// `String` arguments of instructions: opaque, with two uninterpreted readings
#[verifier::external_body]
pub struct VString { s: String }
pub uninterp spec fn num_of(s: &VString) -> int;          // the integer the decimal text denotes
pub uninterp spec fn text_of(s: &VString) -> Seq<char>;    // the text itself

// String methods a change may route a text through: results are uninterpreted (NOT known to be the identity)
pub uninterp spec fn verif_replaced(t: Seq<char>, from: char, to: Seq<char>) -> Seq<char>;
pub uninterp spec fn verif_lowered(t: Seq<char>) -> Seq<char>;
pub uninterp spec fn verif_trimmed(t: Seq<char>) -> Seq<char>;
impl VString {
    #[verifier::external_body] pub fn replace(&self, from: char, to: &str) -> (r: VString) ensures text_of(&r) == verif_replaced(text_of(self), from, to@) { unimplemented!() }
    #[verifier::external_body] pub fn to_lowercase(&self) -> (r: VString) ensures text_of(&r) == verif_lowered(text_of(self)) { unimplemented!() }
    #[verifier::external_body] pub fn trim(&self) -> (r: VString) ensures text_of(&r) == verif_trimmed(text_of(self)) { unimplemented!() }
}

// R4/R5: `$arg.to_string()` inside `instruction!`
pub trait ToVs {
    spec fn as_num(&self) -> int;
    spec fn as_text(&self) -> Seq<char>;
    fn to_vs(&self) -> (r: VString)
        ensures num_of(&r) == self.as_num(), text_of(&r) == self.as_text();
}
pub uninterp spec fn dec_text(n: int) -> Seq<char>;
impl ToVs for usize {
    open spec fn as_num(&self) -> int { *self as int }
    open spec fn as_text(&self) -> Seq<char> { dec_text(*self as int) }
    #[verifier::external_body]
    fn to_vs(&self) -> (r: VString) { VString { s: self.to_string() } }
}
impl ToVs for isize {
    open spec fn as_num(&self) -> int { *self as int }
    open spec fn as_text(&self) -> Seq<char> { dec_text(*self as int) }
    #[verifier::external_body]
    fn to_vs(&self) -> (r: VString) { VString { s: self.to_string() } }
}
impl ToVs for i32 {
    open spec fn as_num(&self) -> int { *self as int }
    open spec fn as_text(&self) -> Seq<char> { dec_text(*self as int) }
    #[verifier::external_body]
    fn to_vs(&self) -> (r: VString) { VString { s: self.to_string() } }
}
impl ToVs for u8 {
    open spec fn as_num(&self) -> int { *self as int }
    open spec fn as_text(&self) -> Seq<char> { dec_text(*self as int) }
    #[verifier::external_body]
    fn to_vs(&self) -> (r: VString) { VString { s: self.to_string() } }
}
pub uninterp spec fn text_num(t: Seq<char>) -> int;
// a `String`/`&str` valued argument (names, symbols): modelled as Vec<char> (R1)
impl ToVs for Vec<char> {
    open spec fn as_num(&self) -> int { text_num(self@) }
    open spec fn as_text(&self) -> Seq<char> { self@ }
    #[verifier::external_body]
    fn to_vs(&self) -> (r: VString) { VString { s: self.iter().collect() } }
}

#[allow(inconsistent_fields)]
pub enum CompiledItem {
    Function { id: VString, content: Option<Vec<CompiledItem>>, location: VString },
    Instruction { id: u8, arguments: Vec<VString> },
    Break(usize),
    Continue(usize),
}
pub open spec fn is_instr(it: CompiledItem, id: u8) -> bool { it is Instruction && it->Instruction_id == id }
pub open spec fn nargs(it: CompiledItem) -> int { it->arguments@.len() as int }
pub open spec fn argn(it: CompiledItem, k: int) -> int { num_of(&it->arguments@[k]) }
pub open spec fn argt(it: CompiledItem, k: int) -> Seq<char> { text_of(&it->arguments@[k]) }

pub fn mk_instr(id: u8, arguments: Vec<VString>) -> (r: CompiledItem)
    ensures r is Instruction, r->Instruction_id == id, r->arguments@ == arguments@
{ CompiledItem::Instruction { id, arguments } }
pub fn args0() -> (r: Vec<VString>) ensures r@.len() == 0 { Vec::new() }
pub fn args1(a: VString) -> (r: Vec<VString>) ensures r@ == seq![a] { let mut v = Vec::new(); v.push(a); v }
pub fn args2(a: VString, b: VString) -> (r: Vec<VString>) ensures r@ == seq![a, b] { let mut v = Vec::new(); v.push(a); v.push(b); v }
pub fn args3(a: VString, b: VString, c: VString) -> (r: Vec<VString>) ensures r@ == seq![a, b, c] { let mut v = Vec::new(); v.push(a); v.push(b); v.push(c); v }

#[verifier::external_body]
pub fn clone_item(x: &CompiledItem) -> (r: CompiledItem) ensures r == *x { unimplemented!() }

// R7: `len.try_into()?` between usize and isize
#[verifier::external_body]
pub fn usize_to_isize(x: usize) -> (r: Result<isize, VErr>) ensures r is Ok ==> r->Ok_0 as int == x as int { unimplemented!() }

pub struct CompilationState;

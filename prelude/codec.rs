use vstd::prelude::*;
verus! {

// ---- shared prelude for the bytecode argument codec (C04 / C18) ----------------------------------------
pub struct VErr;

// ---------- spec: the reader as a state machine over characters ----------
pub struct St { pub result: Seq<Seq<char>>, pub buf: Seq<char>, pub in_quotes: bool, pub escaping: bool, pub err: bool }

pub open spec fn init() -> St { St { result: seq![], buf: seq![], in_quotes: false, escaping: false, err: false } }
pub uninterp spec fn is_ws(c: char) -> bool;      // char::is_whitespace
// assumed facts about char::is_whitespace (Unicode White_Space): space, LF, CR, TAB are; quote, backslash, 'n', 'r' are not
pub broadcast axiom fn ws_facts()
    ensures #[trigger] is_ws(' '), !is_ws('"'), !is_ws('\\'), is_ws('\n'), is_ws('\r'), is_ws('\t'), !is_ws('n'), !is_ws('r'), !is_ws('0'), !is_ws('\0');

pub open spec fn step(st: St, c: char, multi: bool) -> St {
    if st.err { st }
    else if !st.in_quotes && is_ws(c) {
        if multi {
            if st.buf.len() != 0 { St { result: st.result.push(st.buf), buf: seq![], ..st } } else { st }
        } else { St { buf: st.buf.push(c), ..st } }
    }
    else if c == '\\' {
        if st.escaping { St { buf: st.buf.push(c), escaping: false, ..st } } else { St { escaping: true, ..st } }
    }
    else if c == '"' {
        if st.escaping { St { buf: st.buf.push(c), escaping: false, ..st } }
        else if multi && st.in_quotes { St { result: st.result.push(st.buf), buf: seq![], in_quotes: false, ..st } }
        else { St { in_quotes: !st.in_quotes, ..st } }
    }
    else if c == 'n' && st.escaping { St { buf: st.buf.push('\n'), escaping: false, ..st } }
    else if c == 'r' && st.escaping { St { buf: st.buf.push('\r'), escaping: false, ..st } }
    else if c == 't' && st.escaping { St { buf: st.buf.push('\t'), escaping: false, ..st } }
    else if c == '0' && st.escaping { St { buf: st.buf.push('\0'), escaping: false, ..st } }
    else if st.escaping { St { err: true, ..st } }
    else { St { buf: st.buf.push(c), ..st } }
}

pub open spec fn run_from(st: St, t: Seq<char>, multi: bool) -> St
    decreases t.len()
{
    if t.len() == 0 { st } else { run_from(step(st, t[0], multi), t.drop_first(), multi) }
}

// what the reader returns at end of input
pub open spec fn finish(st: St) -> Option<Seq<Seq<char>>> {
    if st.err || st.in_quotes { None }
    else {
        let r1 = if st.buf.len() != 0 { st.result.push(st.buf) } else { st.result };
        Some(if r1.len() == 0 { r1.push(seq![]) } else { r1 })
    }
}
pub open spec fn deep(v: Seq<Vec<char>>) -> Seq<Seq<char>> { v.map_values(|x: Vec<char>| x@) }

pub proof fn lemma_run_push(st: St, t: Seq<char>, c: char, multi: bool)
    ensures run_from(st, t.push(c), multi) == step(run_from(st, t, multi), c, multi)
    decreases t.len()
{
    if t.len() == 0 {
        assert(t.push(c).drop_first() =~= seq![]);
        assert(run_from(step(st, c, multi), seq![], multi) == step(st, c, multi));
    } else {
        assert(t.push(c).drop_first() =~= t.drop_first().push(c));
        lemma_run_push(step(st, t[0], multi), t.drop_first(), c, multi);
    }
}

pub proof fn lemma_run_concat(st: St, s: Seq<char>, t: Seq<char>, multi: bool)
    ensures run_from(st, s + t, multi) == run_from(run_from(st, s, multi), t, multi)
    decreases s.len()
{
    if s.len() == 0 {
        assert(s + t =~= t);
    } else {
        assert((s + t).drop_first() =~= s.drop_first() + t);
        lemma_run_concat(step(st, s[0], multi), s.drop_first(), t, multi);
    }
}

pub proof fn lemma_err_sticky(st: St, t: Seq<char>, multi: bool)
    requires st.err
    ensures run_from(st, t, multi).err
    decreases t.len()
{
    if t.len() != 0 { lemma_err_sticky(step(st, t[0], multi), t.drop_first(), multi); }
}

// ---------- spec: the writer the *property* needs: "read back exactly as emitted" => escape backslash and quote ----------
pub open spec fn esc1(c: char) -> Seq<char> {
    if c == '\\' { seq!['\\', '\\'] } else if c == '"' { seq!['\\', '"'] } else if c == '\n' { seq!['\\', 'n'] } else if c == '\r' { seq!['\\', 'r'] } else if c == '\0' { seq!['\\', '0'] } else { seq![c] }
}
pub open spec fn esc(a: Seq<char>) -> Seq<char>
    decreases a.len()
{
    if a.len() == 0 { seq![] } else { esc1(a[0]) + esc(a.drop_first()) }
}
pub open spec fn enc_arg(a: Seq<char>) -> Seq<char> { seq![' ', '"'] + esc(a) + seq!['"'] }
pub open spec fn enc_args(args: Seq<Seq<char>>) -> Seq<char>
    decreases args.len()
{
    if args.len() == 0 { seq![] } else { enc_args(args.drop_last()) + enc_arg(args.last()) }
}

// inside quotes, the escaped text of `a` appends exactly `a` to the buffer
pub proof fn lemma_esc_inside(st: St, a: Seq<char>)
    requires st.in_quotes, !st.escaping, !st.err
    ensures run_from(st, esc(a), true) == (St { buf: st.buf + a, ..st })
    decreases a.len()
{
    broadcast use ws_facts;
    if a.len() == 0 {
        assert(st.buf + a =~= st.buf);
    } else {
        let c = a[0];
        let rest = a.drop_first();
        let head = esc1(c);
        assert(esc(a) == head + esc(rest));
        lemma_run_concat(st, head, esc(rest), true);
        let mid = St { buf: st.buf.push(c), ..st };
        if c == '\\' || c == '"' || c == '\n' || c == '\r' || c == '\0' {
            let second = head[1];
            let s1 = step(st, '\\', true);
            assert(s1 == (St { escaping: true, ..st }));
            assert(head.drop_first() =~= seq![second]);
            assert(seq![second].drop_first() =~= Seq::<char>::empty());
            assert(run_from(st, head, true) == run_from(s1, seq![second], true));
            assert(run_from(s1, seq![second], true) == run_from(step(s1, second, true), seq![], true));
            assert(step(s1, second, true) == mid);
        } else {
            assert(head.drop_first() =~= Seq::<char>::empty());
            assert(run_from(st, head, true) == run_from(step(st, c, true), seq![], true));
            assert(step(st, c, true) == mid);
        }
        assert(run_from(st, head, true) == mid);
        lemma_esc_inside(mid, rest);
        assert(st.buf.push(c) + rest =~= st.buf + a);
    }
}

// a record of the bytecode file ends at the first NUL byte: the encoded arguments contain none, whatever the arguments are
pub proof fn lemma_esc_no_nul(a: Seq<char>)
    ensures forall|i: int| 0 <= i < esc(a).len() ==> esc(a)[i] != '\0'
    decreases a.len()
{
    if a.len() != 0 {
        lemma_esc_no_nul(a.drop_first());
        let h = esc1(a[0]); let t = esc(a.drop_first());
        assert(esc(a) == h + t);
        assert forall|i: int| 0 <= i < esc(a).len() implies esc(a)[i] != '\0' by { if i < h.len() { assert(esc(a)[i] == h[i]); } else { assert(esc(a)[i] == t[i - h.len()]); } }
    }
}
pub proof fn lemma_enc_args_no_nul(args: Seq<Seq<char>>)
    ensures forall|i: int| 0 <= i < enc_args(args).len() ==> enc_args(args)[i] != '\0'
    decreases args.len()
{
    if args.len() != 0 {
        lemma_enc_args_no_nul(args.drop_last());
        lemma_esc_no_nul(args.last());
        let h = enc_args(args.drop_last()); let e = esc(args.last());
        let t = enc_arg(args.last());
        assert(t =~= seq![' ', '"'] + e + seq!['"']);
        assert forall|i: int| 0 <= i < t.len() implies t[i] != '\0' by { if i >= 2 && i < 2 + e.len() { assert(t[i] == e[i - 2]); } }
        assert forall|i: int| 0 <= i < enc_args(args).len() implies enc_args(args)[i] != '\0' by { if i < h.len() { assert(enc_args(args)[i] == h[i]); } else { assert(enc_args(args)[i] == t[i - h.len()]); } }
    }
}

// one encoded argument, read from a clean state, appends exactly that argument
pub proof fn lemma_one_arg(st: St, a: Seq<char>)
    requires !st.in_quotes, !st.escaping, !st.err, st.buf.len() == 0
    ensures run_from(st, enc_arg(a), true) == (St { result: st.result.push(a), ..st })
{
    broadcast use ws_facts;
    let s0 = st;
    let pre = seq![' ', '"'];
    lemma_run_concat(s0, pre + esc(a), seq!['"'], true);
    lemma_run_concat(s0, pre, esc(a), true);
    let s1 = step(s0, ' ', true);
    assert(s1 == s0);
    let s2 = step(s1, '"', true);
    assert(s2 == (St { in_quotes: true, ..s0 }));
    assert(pre.drop_first() =~= seq!['"']);
    assert(seq!['"'].drop_first() =~= Seq::<char>::empty());
    assert(run_from(s0, pre, true) == run_from(s1, seq!['"'], true));
    assert(run_from(s1, seq!['"'], true) == run_from(s2, seq![], true));
    assert(run_from(s0, pre, true) == s2);
    lemma_esc_inside(s2, a);
    let s3 = St { buf: s2.buf + a, ..s2 };
    assert(s2.buf + a =~= a);
    assert(run_from(s3, seq!['"'], true) == run_from(step(s3, '"', true), seq![], true));
    assert(st.buf =~= Seq::<char>::empty());
    assert(s3.buf == a);
    assert(step(s3, '"', true) == (St { result: s3.result.push(s3.buf), buf: seq![], in_quotes: false, ..s3 }));
    assert(step(s3, '"', true) == (St { result: st.result.push(a), ..st }));
    assert(enc_arg(a) =~= (pre + esc(a)) + seq!['"']);
}

// THE ROUND TRIP over the codec spec: reading what the (spec) writer wrote gives back exactly the arguments
pub proof fn lemma_roundtrip(args: Seq<Seq<char>>)
    ensures run_from(init(), enc_args(args), true) == (St { result: args, ..init() })
    decreases args.len()
{
    if args.len() == 0 {
        assert(args =~= Seq::<Seq<char>>::empty());
    } else {
        lemma_roundtrip(args.drop_last());
        lemma_run_concat(init(), enc_args(args.drop_last()), enc_arg(args.last()), true);
        let mid = St { result: args.drop_last(), ..init() };
        lemma_one_arg(mid, args.last());
        assert(args.drop_last().push(args.last()) =~= args);
    }
}

// ---------- assumed contracts on std string operations (R1/R9), over Seq<char> ----------
#[verifier::external_body]
pub fn char_is_whitespace(c: char) -> (r: bool) ensures r == is_ws(c) { c.is_whitespace() }
#[verifier::external_body]
pub fn clone_chars(s: &Vec<char>) -> (r: Vec<char>) ensures r@ == s@ { s.clone() }
#[verifier::external_body]
pub fn strlit_chars(s: &'static str) -> (r: Vec<char>) ensures r@ == s@ { s.chars().collect() }

// str::replace(char, &str): every occurrence of c replaced by `with`, left to right
pub open spec fn replace_char(s: Seq<char>, c: char, with: Seq<char>) -> Seq<char>
    decreases s.len()
{
    if s.len() == 0 { seq![] } else { (if s[0] == c { with } else { seq![s[0]] }) + replace_char(s.drop_first(), c, with) }
}
#[verifier::external_body]
pub fn str_replace(s: &Vec<char>, c: char, with: &Vec<char>) -> (r: Vec<char>) ensures r@ == replace_char(s@, c, with@) { unimplemented!() }

pub fn push_chars(dst: &mut Vec<char>, src: &Vec<char>)
    ensures final(dst)@ == old(dst)@ + src@
{
    let mut i: usize = 0;
    while i < src.len()
        invariant i <= src@.len(), dst@ == old(dst)@ + src@.subrange(0, i as int)
        decreases src@.len() - i
    {
        dst.push(src[i]); i += 1;
        proof { assert(dst@ =~= old(dst)@ + src@.subrange(0, i as int)); }
    }
    proof { assert(src@.subrange(0, src@.len() as int) =~= src@); }
}
pub fn concat3(a: &Vec<char>, b: &Vec<char>, c: &Vec<char>) -> (r: Vec<char>) ensures r@ == a@ + b@ + c@
{
    let mut out: Vec<char> = Vec::new();
    push_chars(&mut out, a); push_chars(&mut out, b); push_chars(&mut out, c);
    proof { assert(out@ =~= a@ + b@ + c@); }
    out
}

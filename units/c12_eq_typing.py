"""C12 / C02 (typing of `==` / `!=`): TypeLayout::supports_equ (type.rs) and the part of TypeLayout::get_output_type that decides
equality before the native operator table: a present optional compares like the plain value it holds -- for every type that can be
compared -- and `==` is offered only for types whose values the interpreter's `equals` can compare (not maps, objects, functions,
modules).  Also the `index_of` arm of the list methods (get_property_type): searching compares elements, so it exists only for
comparable element types."""
from vlib.rules import *
from vlib.pattern import Pat
from vlib.extract import extract_match_arm

TYPE = "compiler/src/ast/type.rs"

SPEC = r"""
use vstd::prelude::*;
verus! {
pub struct VErr;
#[verifier::external_body] pub struct OtherV { x: usize }
#[verifier::external_body] pub struct Flags { x: usize }
pub enum NativeType { Bool, Other(OtherV) }
// TypeLayout with every variant; payloads the functions do not look into are opaque; Cow<'static, TypeLayout> slots are boxes
pub enum TypeLayout {
    Function(OtherV), Alias(OtherV, Box<TypeLayout>), CallbackVariable(Box<TypeLayout>), Optional(Option<Box<TypeLayout>>), Native(NativeType),
    List(OtherV), ValidIndexes(OtherV), Class(OtherV), Module(OtherV), ClassSelf(OtherV), Generic(OtherV), Void, Map(OtherV),
}
pub enum Op { Eq, Neq, Is, Other(OtherV) }
// equality of types (derived PartialEq): uninterpreted
pub uninterp spec fn tl_eq(a: TypeLayout, b: TypeLayout) -> bool;
impl vstd::std_specs::cmp::PartialEqSpecImpl for TypeLayout {
    open spec fn obeys_eq_spec() -> bool { true }
    open spec fn eq_spec(&self, other: &TypeLayout) -> bool { tl_eq(*self, *other) }
}
impl PartialEq for TypeLayout { #[verifier::external_body] fn eq(&self, other: &TypeLayout) -> (r: bool) { unimplemented!() } }
pub uninterp spec fn compat(a: TypeLayout, b: TypeLayout, f: &Flags) -> bool;
impl TypeLayout { #[verifier::external_body] pub fn eq_complex(&self, other: &TypeLayout, f: &Flags) -> (r: bool) ensures r == compat(*self, *other, f) { unimplemented!() } }
pub fn bool_type() -> (r: TypeLayout) ensures r == TypeLayout::Native(NativeType::Bool) { TypeLayout::Native(NativeType::Bool) }

pub uninterp spec fn holds_map(t: TypeLayout) -> bool;          // TypeLayout::contains_map (its own contract: unit c02_map_key)
impl TypeLayout { #[verifier::external_body] pub fn contains_map(&self) -> (r: bool) ensures r == holds_map(*self) { unimplemented!() } }
pub open spec fn strip_cb(t: TypeLayout) -> TypeLayout decreases t { match t { TypeLayout::CallbackVariable(x) => strip_cb(*x), other => other } }
pub open spec fn strip_opt(t: TypeLayout) -> Option<TypeLayout> { match t { TypeLayout::Optional(Some(x)) => Some(*x), TypeLayout::Optional(None) => None, other => Some(other) } }
// kinds of values the interpreter's `Primitive::equals` can compare with one another: numbers, strings, bools, lists -- and nil with
// anything.  It has no case for two maps or two objects (a run-time failure), and functions / modules are not values `==` is defined on.
pub open spec fn comparable(t: TypeLayout) -> bool decreases t {
    match t {
        TypeLayout::CallbackVariable(x) => comparable(*x),
        TypeLayout::Alias(_, x) => comparable(*x),
        TypeLayout::Optional(Some(x)) => comparable(*x),
        TypeLayout::Optional(None) => true,
        TypeLayout::Native(_) => true,
        // a list compares element by element: two lists can be compared unless a map sits somewhere in the element type (the interpreter's comparison
        // of two maps is the constant `false`: a list of maps would not even equal itself -- D115)
        TypeLayout::List(_) => !holds_map(t),
        TypeLayout::Generic(_) => true,
        _ => false,
    }
}
// no ValidIndexes on the path supports_equ walks (it is the type of an index position, never of an operand)
pub open spec fn no_vi(t: TypeLayout) -> bool decreases t {
    match t { TypeLayout::CallbackVariable(x) => no_vi(*x), TypeLayout::Alias(_, x) => no_vi(*x), TypeLayout::Optional(Some(x)) => no_vi(*x), TypeLayout::ValidIndexes(_) => false, _ => true }
}
pub proof fn lemma_strip(t: TypeLayout) ensures strip_cb(t) == t || decreases_to!(t => strip_cb(t)), !(strip_cb(t) is CallbackVariable), no_vi(t) ==> no_vi(strip_cb(t)), comparable(t) == comparable(strip_cb(t)) decreases t {
    match t { TypeLayout::CallbackVariable(x) => { lemma_strip(*x); } _ => {} }
}
impl TypeLayout {
    #[verifier::external_body] pub fn get_type_recursively(&self) -> (r: &TypeLayout) ensures *r == strip_cb(*self) { unimplemented!() }     // obligation C12.type.get_type_recursively
    #[verifier::external_body] pub fn disregard_optional(&self) -> (r: Option<&TypeLayout>) ensures r is Some <==> strip_opt(*self) is Some, r is Some ==> *r->Some_0 == strip_opt(*self)->Some_0 { unimplemented!() }
}
#[verifier::external_body] pub fn vpanic() requires false { unimplemented!() }
// what the rest of get_output_type (the `is` / op-assign / `?=` redirections and the native operator table, unit c02_optable) answers
pub uninterp spec fn rest_of_table(lhs: TypeLayout, other: TypeLayout, op: Op, f: &Flags) -> Option<TypeLayout>;
#[verifier::external_body] pub fn rest(lhs: &TypeLayout, other: &TypeLayout, op: &Op, f: &Flags) -> (r: Option<TypeLayout>) ensures r == rest_of_table(*lhs, *other, *op, f) { unimplemented!() }
"""


def eq_front(src, log):
    """the statements of get_output_type from the first equality test up to (not including) `match op { Op::Is => ..`"""
    f = src.fn(TYPE, "get_output_type", "impl TypeLayout")
    body = f["body"]
    p0 = Pat("if matches ! ( op , Eq | Neq ) && lhs == other && lhs . supports_equ ( )")
    p1 = Pat("match op { Op :: Is =>")
    a = b = None
    for i in range(len(body)):
        if a is None and p0.match_at(body, i):
            a = i
        if a is not None and p1.match_at(body, i):
            b = i; break
    if a is None or b is None:
        raise Undecided(f"{TYPE}: get_output_type: the equality tests in front of `match op {{ Op::Is => ..` were not found")
    frag = body[a:b]
    out = translate(frag, [
        Rule("R1", "matches ! ( op , Eq | Neq )", "( matches ! ( op , Op :: Eq ) || matches ! ( op , Op :: Neq ) )", why="glob-imported variants written qualified; `|` pattern as two tests"),
        Rule("R1", "( _ , Optional ( None ) , Eq | Neq ) | ( Optional ( None ) , _ , Eq | Neq ) =>", "( _ , TypeLayout :: Optional ( None ) , Op :: Eq ) | ( _ , TypeLayout :: Optional ( None ) , Op :: Neq ) | ( TypeLayout :: Optional ( None ) , _ , Op :: Eq ) | ( TypeLayout :: Optional ( None ) , _ , Op :: Neq ) =>", count=1, why="nested or-patterns flattened, variants qualified"),
        Rule("R1", "( x , Optional ( Some ( y ) ) , Eq | Neq ) | ( Optional ( Some ( y ) ) , x , Eq | Neq ) if cfg ! ( feature = \"allow_nil_through_eq\" ) && x . eq_complex ( y , flags ) => { return Some ( TypeLayout :: Native ( NativeType :: Bool ) ) }", "", count=1, why="arm under cfg!(feature = \"allow_nil_through_eq\"): the feature is not among the crate's defaults, the guard is constant false"),
        Rule("R1", "TypeLayout :: Native ( NativeType :: Bool )", "bool_type ( )", why="constructor"),
    ], log, "get_output_type[equality front]")
    check_closed(out, "get_output_type[equality front]")
    return out


def index_of_guard(src, log):
    """the `index_of` arm of the list methods in get_property_type: returns the guard expression tokens (or None when unguarded)"""
    f = src.fn(TYPE, "get_property_type", "impl TypeLayout")
    body = f["body"]
    # the list arm's index_of comes before the string arm's; the list one returns `TypeLayout::int().optional_of()` via `return_type`
    for i in range(len(body)):
        if body[i] == '"index_of"':
            j = i + 1
            guard = []
            if body[j] == "if":
                j += 1
                while body[j] != "=>":
                    guard.append(body[j]); j += 1
            if body[j] != "=>":
                continue
            # the list arm is the one whose block binds `return_type`
            if body[j + 1] == "{" and body[j + 2] == "let" and body[j + 3] == "return_type":
                return guard
    raise Undecided(f"{TYPE}: get_property_type: the list `index_of` arm was not found")


def build(repo):
    src = Source(repo)
    log = []
    f = src.fn(TYPE, "supports_equ", "impl TypeLayout")
    bs = translate(f["body"], [
        Rule("R0", "let me = self . get_type_recursively ( ) ;", ["let", "me", "=", "self", ".", "get_type_recursively", "(", ")", ";", G("proof { lemma_strip(*self); }")], count=1, why="ghost: the type behind the captured-variable wrappers is the type itself or a part of it (termination, induction)"),
        Rule("R8", "unreachable ! ( )", "{ vpanic ( ) ; false }", why="unreachable!: a panic (excluded by the precondition: ValidIndexes is not the type of an operand)"),
    ], log, "TypeLayout::supports_equ")
    check_closed(bs, "supports_equ")
    front = eq_front(src, log)
    guard = index_of_guard(src, log)
    log.append(("R6", "\"index_of\" " + ("if " + " ".join(guard) if guard else "(no guard)") + " => ..", "fn index_of_offered(list_type) -> bool { <guard> }", "the guard of the list `index_of` arm as a function of the element type (no guard: true)"))
    gtxt = render(guard, 1) if guard else "    true"
    gen = header(log, f"{TYPE}: TypeLayout::supports_equ; get_output_type (equality tests in front of the operator table); get_property_type (guard of the list index_of arm)") + SPEC + f"""
impl TypeLayout {{
    //@ OBL C02.type.supports_equ
    // `==` is offered for a type exactly when the interpreter can compare two values of it
    pub fn supports_equ(&self) -> (r: bool)
        requires no_vi(*self)
        ensures r == comparable(*self)
        decreases self
    {{
{render(bs, 2)}
    }}
}}

//@ OBL C12.type.eq-present
// get_output_type, Eq / Neq: after the wrappers (alias, captured variable) are gone.  C12: a present optional compares like the plain value
// it holds -- T? against T, T against T?, T? against T? -- for every comparable T; and nil compares with anything.  C02: what this part
// accepts on its own is comparable at run time.
pub fn eq_front(lhs: &TypeLayout, other: &TypeLayout, op: &Op, flags: &Flags) -> (r: Option<TypeLayout>)
    requires no_vi(*lhs),
    ensures
        (*op is Eq || *op is Neq) ==> {{
            &&& (*lhs is Optional && lhs->Optional_0 is None) || (*other is Optional && other->Optional_0 is None) ==> r == Some(TypeLayout::Native(NativeType::Bool))
            &&& (strip_opt(*lhs) is Some && strip_opt(*other) is Some && tl_eq(strip_opt(*lhs)->Some_0, strip_opt(*other)->Some_0) && comparable(strip_opt(*lhs)->Some_0))
                    ==> r == Some(TypeLayout::Native(NativeType::Bool))
            // soundness: an answer that does not come from the operator table is given only for comparable operands, or for a comparison with nil
            &&& (strip_opt(*lhs) is Some && strip_opt(*other) is Some && !comparable(strip_opt(*lhs)->Some_0)) ==> r == rest_of_table(strip_opt(*lhs)->Some_0, strip_opt(*other)->Some_0, *op, flags)
        }},
{{
{render(front, 1)}
    rest(lhs, other, op, flags)
}}

//@ OBL C02.type.index_of-comparable
// list.index_of(x) compares x with the elements: the method exists only for element types whose values can be compared
pub fn index_of_offered(list_type: &TypeLayout) -> (r: bool)
    requires no_vi(*list_type)
    ensures r ==> comparable(*list_type)
{{
{gtxt}
}}
}} // verus!
fn main() {{}}
"""
    obls = [
        Obl("C02.type.supports_equ", ["C02", "C12"], fn="TypeLayout::supports_equ", desc="supports_equ: true exactly for types whose values the interpreter's equals can compare (numbers, strings, bools, lists, optionals / aliases of those) -- not maps, objects, functions, modules"),
        Obl("C12.type.eq-present", ["C12", "C02"], fn="TypeLayout::get_output_type[equality front]", desc="typing of == / !=: nil compares with anything; T?, T compare like T with T for every comparable T; nothing else is accepted in front of the operator table"),
        Obl("C02.type.index_of-comparable", ["C02"], fn="TypeLayout::get_property_type[list index_of]", desc="list.index_of is offered only for comparable element types (the interpreter compares with equals and panics otherwise)"),
    ]
    return gen, obls, log


UNITS = [VUnit("c12_eq_typing", ["C12", "C02"], "typing of == / != through optionals; which types can be compared", build)]
UNITS[0].assumes = ["TypeLayout's payloads opaque; type equality (derived PartialEq) uninterpreted", "what the interpreter can compare (spec `comparable`) is read from Primitive::equals (primitive.rs): numbers, strings, bools, lists, nil; generics are taken as comparable",
                    "the cfg!(feature = \"allow_nil_through_eq\") arm is dropped (feature off by default)", "fragment: get_output_type's generic / constructor wrappers before, and the redirections + native table after (unit c02_optable), are abstract (`rest_of_table`)"]

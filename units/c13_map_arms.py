"""C13: the map built-in methods as arms of BuiltInFunction::run (bytecode/src/function.rs) -- len, contains_key, replace, keys, values, pairs, remove,
clear, clone -- and GcMap::keys / values / pairs (primitive.rs), against the finite-map model with sharing explicit (the heap of unit c13_lists).
The GcMap methods the arms call are abstract callees with the contracts unit c13_maps proves of them (C13.map.*).
R2 (iterator chain): `X.into_iter().map(|(key, value)| BODY).collect::<Vec<_>>()` is the loop that evaluates BODY for each item in order and collects
the results -- written out as an indexed while loop with an invariant, BODY being the real text."""
from vlib.rules import *
from vlib.extract import extract_match_arm
import units.c13_lists as L

FUNC = "bytecode/src/function.rs"
PRIM = "bytecode/src/variables/primitive.rs"

SPEC = L.SPEC + r"""
// ---- maps
pub open spec fn entries(h: &Heap, m: &MapH) -> Map<Primitive, Primitive> { maps(h)[mid(m)] }
pub open spec fn map_recv(h: &Heap, a: Seq<Primitive>) -> bool { a.len() >= 1 && a[0] is Map && mlive(h, &a[0]->Map_0) }
pub uninterp spec fn moved_out(p: Primitive) -> Option<Primitive>;          // pointee value / identity on plain values / None on a dangling pointer
// the order in which std's HashMap iterates over THIS map in THIS state: unspecified, but an enumeration of its keys, and the same for keys(), values(), iter()
pub uninterp spec fn order(h: &Heap, m: &MapH) -> Seq<Primitive>;
pub open spec fn is_enumeration(s: Seq<Primitive>, d: Set<Primitive>) -> bool { s.no_duplicates() && (forall|k: Primitive| s.contains(k) <==> d.contains(k)) }
#[verifier::external_body] pub broadcast proof fn order_enumerates(h: &Heap, m: &MapH) ensures is_enumeration(#[trigger] order(h, m), entries(h, m).dom()) { }
""" + VITER_SPEC + r"""
// HashMap::keys / values / iter on the map cell
#[verifier::external_body] pub fn hm_keys(h: &Heap, m: &MapH) -> (r: VIter<Primitive>) requires mlive(h, m) ensures r.v@ == order(h, m) { unimplemented!() }
#[verifier::external_body] pub fn hm_values(h: &Heap, m: &MapH) -> (r: VIter<Primitive>) requires mlive(h, m)
    ensures r.v@.len() == order(h, m).len(), forall|i: int| 0 <= i < order(h, m).len() ==> #[trigger] r.v@[i] == entries(h, m)[order(h, m)[i]] { unimplemented!() }
#[verifier::external_body] pub fn hm_iter(h: &Heap, m: &MapH) -> (r: VIter<(Primitive, Primitive)>) requires mlive(h, m)
    ensures r.v@.len() == order(h, m).len(), forall|i: int| 0 <= i < order(h, m).len() ==> #[trigger] r.v@[i] == (order(h, m)[i], entries(h, m)[order(h, m)[i]]) { unimplemented!() }
"""

# GcMap::keys / values / pairs
ITER_RULES = [
    Rule("R10", "let view = self . 0 . borrow ( ) ;", "", why="GcCell borrow: the map cell is accessed through the explicit heap"),
    Rule("R9", "view . keys ( )", "hm_keys ( heap , self )", why="HashMap::keys"),
    Rule("R9", "view . values ( )", "hm_values ( heap , self )", why="HashMap::values"),
    Rule("R9", "view . iter ( )", "hm_iter ( heap , self )", why="HashMap::iter"),
    Rule("R9", ". map ( | kv | ( kv . 0 . clone ( ) , kv . 1 . clone ( ) ) )", ". cloned ( )", why="map(|kv| (kv.0.clone(), kv.1.clone())): a clone of each (key, value) item"),
    Rule("R9", ". collect :: < Vec < _ >> ( )", ". collect_vec ( )", why="Iterator::collect::<Vec<_>>: the items in order"),
]
ITER_SIGS = {
    "keys": ("pub fn keys(&self, heap: &Heap) -> (r: Vec<Primitive>)", "requires mlive(heap, self) ensures r@ == order(heap, self)"),
    "values": ("pub fn values(&self, heap: &Heap) -> (r: Vec<Primitive>)",
               "requires mlive(heap, self) ensures r@.len() == order(heap, self).len(), forall|i: int| 0 <= i < r@.len() ==> #[trigger] r@[i] == entries(heap, self)[order(heap, self)[i]]"),
    "pairs": ("pub fn pairs(&self, heap: &Heap) -> (r: Vec<(Primitive, Primitive)>)",
              "requires mlive(heap, self) ensures r@.len() == order(heap, self).len(), forall|i: int| 0 <= i < r@.len() ==> #[trigger] r@[i] == (order(heap, self)[i], entries(heap, self)[order(heap, self)[i]])"),
}

# the callees of the arms: contracts as proved in unit c13_maps (C13.map.*)
CALLEES = r"""
impl MapH {
    #[verifier::external_body] pub fn len(&self, heap: &Heap) -> (r: usize) requires mlive(heap, self) ensures r == entries(heap, self).len() { unimplemented!() }
    #[verifier::external_body] pub fn contains_key(&self, key: &Primitive, heap: &Heap) -> (r: bool) requires mlive(heap, self) ensures r == entries(heap, self).contains_key(*key) { unimplemented!() }
    #[verifier::external_body] pub fn insert(&self, key: Primitive, value: Primitive, heap: &mut Heap) -> (r: Result<Option<Primitive>, VErr>) requires mlive(old(heap), self)
        ensures (r is Ok <==> (moved_out(key) is Some && moved_out(value) is Some)), vecs(final(heap)) == vecs(old(heap)),
            r is Ok ==> maps(final(heap)) == maps(old(heap)).insert(mid(self), entries(old(heap), self).insert(moved_out(key)->Some_0, moved_out(value)->Some_0))
                && r->Ok_0 == (if entries(old(heap), self).contains_key(moved_out(key)->Some_0) { Some(entries(old(heap), self)[moved_out(key)->Some_0]) } else { None::<Primitive> }),
            r is Err ==> maps(final(heap)) == maps(old(heap)) { unimplemented!() }
    #[verifier::external_body] pub fn remove(&self, key: Primitive, heap: &mut Heap) -> (r: Result<Option<Primitive>, VErr>) requires mlive(old(heap), self)
        ensures (r is Ok <==> moved_out(key) is Some), vecs(final(heap)) == vecs(old(heap)),
            r is Ok ==> maps(final(heap)) == maps(old(heap)).insert(mid(self), entries(old(heap), self).remove(moved_out(key)->Some_0))
                && r->Ok_0 == (if entries(old(heap), self).contains_key(moved_out(key)->Some_0) { Some(entries(old(heap), self)[moved_out(key)->Some_0]) } else { None::<Primitive> }),
            r is Err ==> maps(final(heap)) == maps(old(heap)) { unimplemented!() }
    #[verifier::external_body] pub fn clear(&self, heap: &mut Heap) requires mlive(old(heap), self)
        ensures maps(final(heap)) == maps(old(heap)).insert(mid(self), Map::<Primitive, Primitive>::empty()), vecs(final(heap)) == vecs(old(heap)) { unimplemented!() }
}
// HashMap::clone of the map cell + GcMap::new: a cell no existing handle points to, with the same entries
#[verifier::external_body] pub struct RawMap { x: usize }
pub uninterp spec fn raw(m: &RawMap) -> Map<Primitive, Primitive>;
#[verifier::external_body] pub fn map_snapshot(h: &Heap, m: &MapH) -> (r: RawMap) requires mlive(h, m) ensures raw(&r) == entries(h, m) { unimplemented!() }
#[verifier::external_body] pub fn map_new(h: &mut Heap, content: RawMap) -> (r: MapH)
    ensures !maps(old(h)).contains_key(mid(&r)), maps(final(h)) == maps(old(h)).insert(mid(&r), raw(&content)), vecs(final(h)) == vecs(old(h)) { unimplemented!() }
// usize -> i32 with expect: PANICS when the value does not fit (R8)
#[verifier::external_body] pub fn usize_to_i32_expect(x: usize) -> (r: i32) requires x <= i32::MAX ensures r == x { unimplemented!() }
pub fn opt_box(o: Option<Primitive>) -> (r: Option<Box<Primitive>>) ensures o is None ==> r is None, o is Some ==> r == Some(Box::new(o->Some_0)) { match o { Some(p) => Some(Box::new(p)), None => None } }
pub fn opt_or(o: Option<Primitive>, d: Primitive) -> (r: Primitive) ensures o is Some ==> r == o->Some_0, o is None ==> r == d { match o { Some(p) => p, None => d } }
pub fn pair_clone(p: &(Primitive, Primitive)) -> (r: (Primitive, Primitive)) ensures r == *p { (p.0.vclone(), p.1.vclone()) }
// what the heap looks like after fresh cells were added: every cell that existed is untouched
pub open spec fn cells_kept(v0: Map<int, Seq<Primitive>>, v1: Map<int, Seq<Primitive>>) -> bool { forall|id: int| #[trigger] v0.contains_key(id) ==> v1.contains_key(id) && v1[id] == v0[id] }
pub open spec fn old_cells_kept(h0: &Heap, h1: &Heap) -> bool { maps(h1) == maps(h0) && cells_kept(vecs(h0), vecs(h1)) }
pub open spec fn result_list(r: Result<(Option<Primitive>, Option<Bridge>), VErr>) -> bool { r is Ok && r->Ok_0.0 is Some && r->Ok_0.0->Some_0 is Vector }
pub open spec fn result_cell(r: Result<(Option<Primitive>, Option<Bridge>), VErr>) -> int { vid(&r->Ok_0.0->Some_0->Vector_0) }
"""

ARMS = {
 "MapLen": ("""requires map_recv(heap, arguments@), entries(heap, &arguments@[0]->Map_0).len() <= i32::MAX     // R8: `expect` on the conversion
    ensures r is Ok && r->Ok_0.0 == Some(Primitive::Int(entries(heap, &arguments@[0]->Map_0).len() as i32))""", False),
 "MapHasKey": ("""requires map_recv(heap, arguments@), arguments@.len() >= 2
    ensures r is Ok && r->Ok_0.0 == Some(Primitive::Bool(entries(heap, &arguments@[0]->Map_0).contains_key(arguments@[1])))""", False),
 "MapReplace": ("""requires map_recv(old(heap), arguments@), arguments@.len() >= 3
    ensures ({ let m = &arguments@[0]->Map_0; let k = moved_out(arguments@[1]); let v = moved_out(arguments@[2]); let e = entries(old(heap), m);
        // the entry is bound (every alias of this map sees it, no other map changes), the previous value -- or nil -- is the result
        &&& (r is Ok <==> (k is Some && v is Some))
        &&& r is Ok ==> maps(final(heap)) == maps(old(heap)).insert(mid(m), e.insert(k->Some_0, v->Some_0))
              && r->Ok_0.0 == Some(if e.contains_key(k->Some_0) { e[k->Some_0] } else { Primitive::Optional(None) })      // the previous value itself, or nil (D91)
        &&& r is Err ==> maps(final(heap)) == maps(old(heap))
        &&& vecs(final(heap)) == vecs(old(heap)) })""", True),
 "MapRemove": ("""requires map_recv(old(heap), arguments@), arguments@.len() >= 2
    ensures ({ let m = &arguments@[0]->Map_0; let k = moved_out(arguments@[1]); let e = entries(old(heap), m);
        &&& (r is Ok <==> k is Some)
        &&& r is Ok ==> maps(final(heap)) == maps(old(heap)).insert(mid(m), e.remove(k->Some_0))
              && r->Ok_0.0 == Some(if e.contains_key(k->Some_0) { e[k->Some_0] } else { Primitive::Optional(None) })      // the previous value itself, or nil (D91)
        &&& r is Err ==> maps(final(heap)) == maps(old(heap))
        &&& vecs(final(heap)) == vecs(old(heap)) })""", True),
 "MapClear": ("""requires map_recv(old(heap), arguments@)
    ensures r is Ok && r->Ok_0.0 is None, maps(final(heap)) == maps(old(heap)).insert(mid(&arguments@[0]->Map_0), Map::<Primitive, Primitive>::empty()), vecs(final(heap)) == vecs(old(heap))""", True),
 "MapClone": ("""requires map_recv(old(heap), arguments@)
    ensures ({ let m = &arguments@[0]->Map_0;
        // a clone is a NEW map (no existing alias points to it) with the same entries; the original is untouched
        &&& r is Ok && r->Ok_0.0 is Some && r->Ok_0.0->Some_0 is Map
        &&& ({ let c = mid(&r->Ok_0.0->Some_0->Map_0); !maps(old(heap)).contains_key(c) && maps(final(heap)) == maps(old(heap)).insert(c, entries(old(heap), m)) })
        &&& vecs(final(heap)) == vecs(old(heap)) })""", True),
 "MapKeys": ("""requires map_recv(old(heap), arguments@)
    ensures ({ let m = &arguments@[0]->Map_0;
        // a NEW list holding each key of the map exactly once; no existing list or map changes
        &&& result_list(r) && !vecs(old(heap)).contains_key(result_cell(r)) && old_cells_kept(old(heap), final(heap))
        &&& is_enumeration(vecs(final(heap))[result_cell(r)], entries(old(heap), m).dom()) })""", True),
 "MapValues": ("""requires map_recv(old(heap), arguments@)
    ensures ({ let m = &arguments@[0]->Map_0; let e = entries(old(heap), m);
        // a NEW list holding, for some enumeration of the keys (each exactly once), the value bound to each
        &&& result_list(r) && !vecs(old(heap)).contains_key(result_cell(r)) && old_cells_kept(old(heap), final(heap))
        &&& verif_values_of(vecs(final(heap))[result_cell(r)], e) })""", True),
 "MapPairs": ("""requires map_recv(old(heap), arguments@)
    ensures ({ let m = &arguments@[0]->Map_0; let e = entries(old(heap), m);
        // a NEW list of NEW two-element lists [key, value], one per key (each exactly once) with the value bound to it
        &&& result_list(r) && !vecs(old(heap)).contains_key(result_cell(r)) && old_cells_kept(old(heap), final(heap))
        &&& verif_pairs_of(vecs(final(heap)), vecs(old(heap)), vecs(final(heap))[result_cell(r)], e) })""", True),
}

ARM_SPEC = r"""
pub open spec fn verif_values_of(s: Seq<Primitive>, e: Map<Primitive, Primitive>) -> bool {
    exists|ks: Seq<Primitive>| #[trigger] is_enumeration(ks, e.dom()) && s.len() == ks.len() && forall|i: int| 0 <= i < ks.len() ==> #[trigger] s[i] == e[ks[i]] }
pub open spec fn verif_pair_at(v1: Map<int, Seq<Primitive>>, v0: Map<int, Seq<Primitive>>, p: Primitive, k: Primitive, v: Primitive) -> bool {
    p is Vector && !v0.contains_key(vid(&p->Vector_0)) && v1.contains_key(vid(&p->Vector_0)) && v1[vid(&p->Vector_0)] == seq![k, v] }
pub open spec fn verif_pairs_of(h1: Map<int, Seq<Primitive>>, h0: Map<int, Seq<Primitive>>, s: Seq<Primitive>, e: Map<Primitive, Primitive>) -> bool {
    exists|ks: Seq<Primitive>| #[trigger] is_enumeration(ks, e.dom()) && s.len() == ks.len()
        && (forall|i: int| 0 <= i < ks.len() ==> verif_pair_at(h1, h0, #[trigger] s[i], ks[i], e[ks[i]]))
        && (forall|i: int, j: int| 0 <= i < j < ks.len() ==> vid(&(#[trigger] s[i])->Vector_0) != vid(&(#[trigger] s[j])->Vector_0)) }
"""

PAIRS_INV = """invariant
            verif_i <= verif_src@.len(), verif_out@.len() == verif_i, maps(heap) == verif_m0, cells_kept(verif_v0, vecs(heap)),
            forall|j: int| 0 <= j < verif_i ==> verif_pair_at(vecs(heap), verif_v0, #[trigger] verif_out@[j], verif_src@[j].0, verif_src@[j].1),
            forall|i: int, j: int| 0 <= i < j < verif_i ==> vid(&(#[trigger] verif_out@[i])->Vector_0) != vid(&(#[trigger] verif_out@[j])->Vector_0),
        decreases verif_src@.len() - verif_i,"""


def arm_rules(name):
    def chain(b):
        return ["{", "let verif_src =", *b["x"], ". pairs ( heap ) ; let mut verif_out = Vec :: new ( ) ; let mut verif_i : usize = 0 ;", G("let ghost verif_v0 = vecs(heap); let ghost verif_m0 = maps(heap);"),
                "while verif_i < verif_src . len ( )", G(PAIRS_INV), "{",
                "let (", *b["k"], ",", *b["v"], ") = pair_clone ( & verif_src [ verif_i ] ) ;", "let verif_item =", *b["body"], ";", G("proof { if verif_item is Vector { assert(vecs(heap)[vid(&verif_item->Vector_0)] =~= seq![verif_src@[verif_i as int].0, verif_src@[verif_i as int].1]); } }"),
                "verif_out . push ( verif_item ) ; verif_i += 1 ;", "}", "verif_out", "}"]
    return [
        Rule("R8", "unreachable ! ( )", "{ vpanic ( ) ; return Err ( VErr ) }", why="unreachable!: excluded by the stated precondition on the argument vector"),
        Rule("R9", "arguments . first ( )", "args_first ( & arguments )", why="slice::first"),
        Rule("R9", "arguments . get ( $i )", "args_get ( & arguments , $i )", why="slice::get"),
        Rule("R8", "map . len ( ) . try_into ( ) . expect ( $$m )", "usize_to_i32_expect ( map . len ( heap ) )", why="usize -> i32 with expect: panics when it does not fit (R8)"),
        *([Rule("R2", "$x . pairs ( ) . into_iter ( ) . map ( | ( $k , $v ) | $$body ) . collect :: < Vec < _ >> ( )", chain, count=1,
                why="into_iter().map(closure).collect(): the loop that evaluates the closure body for each item in order")] if name == "MapPairs" else []),
        Rule("R1", "map . remove ( $$k ) ? . map ( Box :: new )", "opt_box ( map . remove ( $$k , heap ) ? )", why="Option::map(Box::new); heap threaded"),
        Rule("R1", "map . remove ( $$k ) ? . unwrap_or ( $$d )", "opt_or ( map . remove ( $$k , heap ) ? , $$d )", why="Option::unwrap_or; heap threaded"),
        Rule("R1", "maybe_existing_value . unwrap_or ( $$d )", "opt_or ( maybe_existing_value , $$d )", why="Option::unwrap_or"),
        Rule("R1", "maybe_existing_value . map ( Box :: new )", "opt_box ( maybe_existing_value )", why="Option::map(Box::new)"),
        Rule("R10", "map . insert ( $$a ) ?", "map . insert ( $$a , heap ) ?", why="heap threaded"),
        Rule("R10", "map . contains_key ( $$a )", "map . contains_key ( $$a , heap )", why="heap threaded"),
        Rule("R10", "map . clear ( )", "map . clear ( heap )", why="heap threaded"),
        Rule("R10", "map . keys ( )", "map . keys ( heap )", why="heap threaded"), Rule("R10", "map . values ( )", "map . values ( heap )", why="heap threaded"),
        Rule("R10", "map . pairs ( )", "map . pairs ( heap )", why="heap threaded"),
        Rule("R13", "map . 0 . borrow ( ) . clone ( )", "map_snapshot ( heap , map )", why="HashMap::clone of the map cell"),
        Rule("R13", "GcMap :: new ( $$e )", "map_new ( heap , $$e )", why="GcMap::new: a new cell"),
        Rule("R13", "GcVector :: new ( $$e , )", "{ let verif_content = $$e ; cell_new ( heap , verif_content ) }", why="GcVector::new: a new cell (the argument is evaluated first)"),
        Rule("R13", "GcVector :: new ( $$e )", "{ let verif_content = $$e ; cell_new ( heap , verif_content ) }", why="GcVector::new: a new cell (the argument is evaluated first)"),
        Rule("R13", "GcVector :: new ( $$e )", "{ let verif_content = $$e ; cell_new ( heap , verif_content ) }", why="GcVector::new: a new cell (nested)"),
        R12_VEC_LITERAL,
        Rule("R1", ". clone ( )", ". vclone ( )", why="clone of a value"),
        Rule("R0", "# [ allow ( $$a ) ]", "", why="lint attribute"),
    ]


def build(repo):
    src = Source(repo)
    log = []
    parts, obls = [], []
    for n, (sig, contract) in ITER_SIGS.items():
        f = src.fn(PRIM, n, "impl GcMap")
        b = translate(f["body"], ITER_RULES, log, f"GcMap::{n}")
        check_closed(b, f"GcMap::{n}")
        parts.append(f"    //@ OBL C13.map.{n}\n    {sig}\n        {contract}\n    {{\n{render(b, 2)}\n    }}\n")
        obls.append(Obl(f"C13.map.{n}", ["C13"], fn=f"GcMap::{n}", desc=f"GcMap::{n}: the items std's HashMap iteration yields, all of them, in its order, once each"))
    frun = src.fn(FUNC, "run", "impl BuiltInFunction")
    fns = []
    for name, (contract, mut) in ARMS.items():
        try:
            arm = extract_match_arm(frun["body"], f"Self :: {name}")
        except Exception as e:
            raise Undecided(f"{FUNC}: arm Self::{name} not found: {e}")
        b = translate(arm["body"], arm_rules(name), log, f"BuiltInFunction::run[{name}]")
        check_closed(b, name)
        heap_t = "&mut Heap" if mut else "&Heap"
        proof = ""
        if name in ("MapKeys", "MapValues", "MapPairs"):
            proof = "    broadcast use order_enumerates;\n"
        fns.append(f"""
//@ OBL C13.{name}
pub fn arm_{name}(arguments: Vec<Primitive>, heap: {heap_t}) -> (r: Result<(Option<Primitive>, Option<Bridge>), VErr>)
    {contract}
{{
{proof}{render(b, 1)}
}}
""")
        obls.append(Obl(f"C13.{name}", ["C13"], fn=f"arm_{name}", desc=f"BuiltInFunction::run arm {name}: result and effect on the heap (seen by every alias; nothing else changes), against the finite-map model"))
    gen = header(log, f"{FUNC}: map arms of BuiltInFunction::run; {PRIM}: GcMap::keys / values / pairs") + SPEC + CALLEES + ARM_SPEC \
        + "impl MapH {\n" + "\n".join(parts) + "}\n" + "".join(fns) + "} // verus!\nfn main() {}\n"
    return gen, obls, log


UNITS = [VUnit("c13_map_arms", ["C13"], "map built-ins: the arms of BuiltInFunction::run and GcMap::keys / values / pairs", build)]
UNITS[0].assumes = ["GcMap::len / contains_key / insert / remove / clear: abstract callees with the contracts of C13.map.* (unit c13_maps)",
                    "std HashMap iteration (keys / values / iter) visits each entry exactly once, in one order for all three on an unmodified map (`order`, axiom order_enumerates); HashMap::clone copies the entries; GcMap::new / GcVector::new allocate a cell no handle points to",
                    "precondition: the receiver argument is a live map with finitely many entries (compiler's typing, C02); MapLen: at most i32::MAX entries (`expect` would panic)"]

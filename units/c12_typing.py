"""C12 / C16 (typing of optionals): the arms `get x` (UnaryUnwrap) and `(x) or y` (NilEval) of Expr::for_type (math_expr.rs) with the real
TypeLayout::{get_type_recursively, is_optional, disregard_distractors} (type.rs) on a reduced TypeLayout: `get x` on a `T?` -- also one
captured from an enclosing function -- has type T; `(x) or y` has the present value's type; neither arm can panic the compiler."""
from vlib.rules import *
from vlib.extract import extract_match_arm

MATH = "compiler/src/ast/math_expr.rs"
TYPE = "compiler/src/ast/type.rs"

SPEC = r"""
use vstd::prelude::*;
verus! {
pub struct VErr;
#[verifier::external_body] pub struct OtherV { x: usize }
#[verifier::external_body] pub struct Flags { x: usize }
// TypeLayout reduced to the wrappers these functions look through; Cow<'static, TypeLayout> slots are boxes
pub enum TypeLayout { Optional(Option<Box<TypeLayout>>), CallbackVariable(Box<TypeLayout>), Alias(OtherV, Box<TypeLayout>), Other(OtherV) }
// equality of types (derived PartialEq; string sizes compare through StrWrapper::eq): uninterpreted, reflexive
pub uninterp spec fn tl_eq(a: TypeLayout, b: TypeLayout) -> bool;
impl vstd::std_specs::cmp::PartialEqSpecImpl for TypeLayout {
    open spec fn obeys_eq_spec() -> bool { true }
    open spec fn eq_spec(&self, other: &TypeLayout) -> bool { tl_eq(*self, *other) }
}
impl PartialEq for TypeLayout { #[verifier::external_body] fn eq(&self, other: &TypeLayout) -> (r: bool) { unimplemented!() } }
#[verifier::external_body] pub fn clone_tl(t: &TypeLayout) -> (r: TypeLayout) ensures r == *t { unimplemented!() }
impl TypeLayout { #[verifier::external_body] pub fn clone(&self) -> (r: TypeLayout) ensures r == *self { unimplemented!() } }
// Cow::into_owned on the model's slots
pub trait IntoOwnedV { spec fn owned_view(&self) -> TypeLayout; fn verif_into_owned(self) -> (r: TypeLayout) ensures r == self.owned_view(); }
impl IntoOwnedV for TypeLayout { open spec fn owned_view(&self) -> TypeLayout { *self } fn verif_into_owned(self) -> (r: TypeLayout) { self } }
impl IntoOwnedV for Box<TypeLayout> { open spec fn owned_view(&self) -> TypeLayout { **self } fn verif_into_owned(self) -> (r: TypeLayout) { *self } }
// TypeLayout::eq_complex: the compatibility test (uninterpreted)
pub uninterp spec fn compat(a: TypeLayout, b: TypeLayout, f: &Flags) -> bool;
impl TypeLayout { #[verifier::external_body] pub fn eq_complex(&self, other: &TypeLayout, f: &Flags) -> (r: bool) ensures r == compat(*self, *other, f) { unimplemented!() } }
#[verifier::external_body] pub fn opt_box_ref(x: &Option<Box<TypeLayout>>) -> (r: Option<&TypeLayout>) ensures r is Some <==> *x is Some, r is Some ==> *r->Some_0 == *(x->Some_0) { unimplemented!() }
// assert_eq!(a, b): panics unless equal (R8)
#[verifier::external_body] pub fn vassert_eq(a: &TypeLayout, b: &TypeLayout) requires tl_eq(*a, *b) { unimplemented!() }

// a captured variable's type is wrapped in CallbackVariable: the type it denotes
pub open spec fn strip_cb(t: TypeLayout) -> TypeLayout decreases t { match t { TypeLayout::CallbackVariable(x) => strip_cb(*x), other => other } }
pub open spec fn dd(t: TypeLayout, opt: bool) -> TypeLayout decreases t {
    match t { TypeLayout::Alias(_, x) => dd(*x, opt), TypeLayout::CallbackVariable(x) => dd(*x, opt), TypeLayout::Optional(Some(x)) => if opt { dd(*x, opt) } else { t }, other => other }
}
// the operand expressions' types (recursive for_type calls): abstract
#[verifier::external_body] pub struct ExprV { x: usize }
pub uninterp spec fn type_of(e: &ExprV) -> Option<TypeLayout>;
impl ExprV { #[verifier::external_body] pub fn for_type(&self, f: &Flags) -> (r: Result<TypeLayout, VErr>) ensures r is Ok <==> type_of(self) is Some, r is Ok ==> r->Ok_0 == type_of(self)->Some_0 { unimplemented!() } }
"""

TL_FNS = {
    "get_type_recursively": ("pub fn get_type_recursively(&self) -> (r: &TypeLayout)", "ensures *r == strip_cb(*self) decreases self"),
    "is_optional": ("pub fn is_optional(&self) -> (r: (bool, Option<&TypeLayout>))",
                    "ensures r.0 == (strip_cb(*self) is Optional), r.1 is Some <==> (strip_cb(*self) is Optional && strip_cb(*self)->Optional_0 is Some), r.1 is Some ==> *r.1->Some_0 == *strip_cb(*self)->Optional_0->Some_0"),
    "disregard_distractors": ("pub fn disregard_distractors(&self, is_optional_distractor: bool) -> (r: &TypeLayout)", "ensures *r == dd(*self, is_optional_distractor) decreases self"),
}


def build(repo):
    src = Source(repo)
    log = []
    tl = []
    for n, (sig, contract) in TL_FNS.items():
        f = src.fn(TYPE, n, "impl TypeLayout")
        b = translate(f["body"], [
            Rule("R1", "use TypeLayout :: * ;", "", why="glob import inside the function: variants written qualified"),
            Rule("R1", "CallbackVariable ( cb ) => cb", "TypeLayout :: CallbackVariable ( cb ) => cb", why="variant qualified"),
            Rule("R1", "Self :: $v", "TypeLayout :: $v", why="Self -> TypeLayout"),
            Rule("R1", "x . as_ref ( ) . map ( | x | x . as_ref ( ) )", "opt_box_ref ( x )", why="Option<Cow<T>> -> Option<&T>"),
        ], log, f"TypeLayout::{n}")
        check_closed(b, n)
        tl.append(f"    //@ OBL C12.type.{n}\n    {sig}\n        {contract}\n    {{\n{render(b, 2)}\n    }}")
    ft = src.fn(MATH, "for_type", "impl Expr")
    arms = {}
    for name, pat in (("get", "Expr :: UnaryUnwrap { value , span : _ }"), ("or", "Expr :: NilEval { primary , fallback }")):
        try:
            arm = extract_match_arm(ft["body"], pat)
        except Exception as e:
            raise Undecided(f"{MATH}: arm `{pat}` of Expr::for_type not found: {e}")
        body = arm["body"] if arm["block"] else ["return", *arm["body"], ";"]
        b = translate(body, [
            Rule("R8", "assert_eq ! ( $$a , $$b , )", "vassert_eq ( $$a , $$b )", why="assert_eq!: panics unless equal (panic precondition)"),
            Rule("R8", "assert_eq ! ( $$a , $$b )", "vassert_eq ( $$a , $$b )", why="assert_eq!: panics unless equal (panic precondition)"),
            Rule("R3", "bail ! $a", "return Err ( VErr )", why="bail! -> return Err"),
            Rule("R1", ". into_owned ( )", ". verif_into_owned ( )", why="Cow::into_owned (on the model's boxes: the boxed type)"),
        ], log, f"Expr::for_type[{name}]")
        check_closed(b, f"for_type[{name}]")
        arms[name] = b
    gen = header(log, f"{TYPE}: TypeLayout::get_type_recursively, is_optional, disregard_distractors; {MATH}: Expr::for_type arms UnaryUnwrap, NilEval") + SPEC + "impl TypeLayout {\n" + "\n".join(tl) + "\n}\n" + f"""
//@ OBL C12.type.get
// `get x`: for x of type T? -- directly, or as a variable captured from an enclosing function -- the type is T
pub fn for_type_get(value: &ExprV, flags: &Flags) -> (r: Result<TypeLayout, VErr>)
    ensures r is Ok ==> type_of(value) is Some && ({{ let vt = strip_cb(type_of(value)->Some_0);
        (vt is Optional && vt->Optional_0 is Some) ==> r->Ok_0 == *vt->Optional_0->Some_0 }}),
{{
{render(arms['get'], 1)}
}}

//@ OBL C12.type.or
// `(x) or y`: the type of the present value of x (wrappers of a captured variable / alias looked through); for a literal nil on the left, y's type.
// Never a compiler panic (C16): a disagreement between the two sides is a diagnostic.
pub fn for_type_or(primary: &ExprV, fallback: &ExprV, flags: &Flags) -> (r: Result<TypeLayout, VErr>)
    ensures r is Ok ==> type_of(primary) is Some && type_of(fallback) is Some && ({{ let pt = strip_cb(type_of(primary)->Some_0);
        &&& (pt is Optional && pt->Optional_0 is Some) ==> r->Ok_0 == dd(*pt->Optional_0->Some_0, false)
        &&& (pt is Optional && pt->Optional_0 is None) ==> r->Ok_0 == type_of(fallback)->Some_0
        &&& !(pt is Optional) ==> r->Ok_0 == type_of(primary)->Some_0 }}),
{{
{render(arms['or'], 1)}
}}
}} // verus!
fn main() {{}}
"""
    obls = [Obl(f"C12.type.{n}", ["C12"], fn=f"TypeLayout::{n}", desc=f"TypeLayout::{n}: wrappers looked through as the typing of `get` / `or` relies on") for n in TL_FNS] + [
        Obl("C12.type.get", ["C12", "C02"], fn="Expr::for_type[UnaryUnwrap]", desc="typing of `get x`: T for x : T?, also for a captured variable"),
        Obl("C12.type.or", ["C12", "C02", "C16"], fn="Expr::for_type[NilEval]", desc="typing of `(x) or y`: the present value's type; no compiler panic")]
    return gen, obls, log


UNITS = [VUnit("c12_typing", ["C12", "C02", "C16"], "typing of `get` and `or`", build)]
UNITS[0].assumes = ["TypeLayout reduced to Optional / CallbackVariable / Alias / everything else; type equality uninterpreted", "the operands' types (recursive for_type) abstract; the parser-side check of `or` (Parser side of math_expr) is not under contract"]

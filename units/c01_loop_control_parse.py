"""C01 / C09 / C03: `break` and `continue` -- Parser::break_statement / continue_statement (compiler/src/ast/loop_control_flow.rs) and, with them,
Parser::print_statement (print_statement.rs).  A `break` / `continue` carries the number of scope frames between the statement and its loop
exactly as AssocFileData::scopes_since_loop counts them at that point (the count itself: obligation C01.scopes_since_loop; what the loops do with
it: C01.while.layout / C01.from.layout); outside every loop it is a diagnostic, never a statement with a made-up count.  `print v` prints the
value of ITS operand: the first child, parsed as a value, nothing else."""
from vlib.rules import *

LCF = "compiler/src/ast/loop_control_flow.rs"
PRINT = "compiler/src/ast/print_statement.rs"

SPEC = r"""
pub uninterp spec fn frames_to_loop(n: &Node) -> Option<int>;          // AssocFileData::scopes_since_loop at this statement: None outside every loop
#[verifier::external_body] pub fn scopes_since_loop(n: &Node) -> (r: Result<usize, VErr>) ensures r is Ok <==> frames_to_loop(n) is Some, r is Ok ==> r->Ok_0 == frames_to_loop(n)->Some_0 { unimplemented!() }
pub fn res_or(x: Result<usize, VErr>, d: usize) -> (r: usize) ensures r == (if x is Ok { x->Ok_0 } else { d }) { match x { Ok(v) => v, Err(_) => d } }
pub struct Break { pub frames_since_loop: usize }
pub struct Continue { pub frames_since_loop: usize }
pub uninterp spec fn parsed_value(n: &Node) -> Option<Value>;
#[verifier::external_body] pub fn parse_value_of(n: Node) -> (r: Result<Value, VErr>) ensures r is Ok <==> parsed_value(&n) is Some, r is Ok ==> r->Ok_0 == parsed_value(&n)->Some_0 { unimplemented!() }
pub struct PrintStatement(pub Value);
"""


def build(repo):
    src = Source(repo)
    log = []
    R = parser_idioms() + [
        Rule("R6", "input . user_data ( ) . scopes_since_loop ( )", "scopes_since_loop ( & input )", why="scope walk abstract (its own obligation: C01.scopes_since_loop)"),
        Rule("R3", "map_err ( frames_since_loop , $$rest ) ?", "frames_since_loop ?", why="diagnostic text dropped (that a diagnostic IS returned is kept)"),
        Rule("R9", "$x . unwrap_or ( $d )", "res_or ( $x , $d )", why="Result::unwrap_or"),
        Rule("R6", "input . children ( )", "children ( & input )", why="pest API abstract"),
        Rule("R8", "children ( & input ) . next ( ) . unwrap ( )", "unwrap_node ( children ( & input ) . next ( ) )", why="unwrap on the first child: grammar child count (R8)"),
        Rule("R6", "Self :: value ( item ) ?", "parse_value_of ( item ) ?", why="sub-parser abstract"),
    ]
    parts = {}
    for what, rel, name in (("brk", LCF, "break_statement"), ("cont", LCF, "continue_statement"), ("print", PRINT, "print_statement")):
        f = src.fn(rel, name, "impl Parser")
        b = translate(f["body"], R, log, f"Parser::{name}")
        check_closed(b, f"Parser::{name}")
        parts[what] = render(b, 1)
    gen = header(log, f"{LCF}: Parser::break_statement, continue_statement; {PRINT}: Parser::print_statement") + prelude("parser.rs") + SPEC + f"""
//@ OBL C01.parse.break
pub fn break_statement(input: Node) -> (r: Result<Break, VErr>)
    ensures r is Ok <==> frames_to_loop(&input) is Some, r is Ok ==> r->Ok_0.frames_since_loop == frames_to_loop(&input)->Some_0,
{{
{parts['brk']}
}}
//@ OBL C01.parse.continue
pub fn continue_statement(input: Node) -> (r: Result<Continue, VErr>)
    ensures r is Ok <==> frames_to_loop(&input) is Some, r is Ok ==> r->Ok_0.frames_since_loop == frames_to_loop(&input)->Some_0,
{{
{parts['cont']}
}}
//@ OBL C01.parse.print
pub fn print_statement(input: Node) -> (r: Result<PrintStatement, VErr>)
    requires node_children(&input).len() >= 1            // grammar: print_statement = {{ "print" ~ value }}
    ensures r is Ok <==> parsed_value(&node_children(&input)[0]) is Some, r is Ok ==> r->Ok_0.0 == parsed_value(&node_children(&input)[0])->Some_0,
{{
{parts['print']}
}}
}} // verus!
fn main() {{}}
"""
    return gen, [Obl("C01.parse.break", ["C01", "C09", "C03"], fn="Parser::break_statement", desc="`break`: carries exactly the frame count scopes_since_loop reports; outside a loop it is a diagnostic"),
                 Obl("C01.parse.continue", ["C01", "C09", "C03"], fn="Parser::continue_statement", desc="`continue`: carries exactly the frame count scopes_since_loop reports; outside a loop it is a diagnostic"),
                 Obl("C01.parse.print", ["C01"], fn="Parser::print_statement", desc="`print v`: the statement's operand is the first child parsed as a value")], log


UNITS = [VUnit("c01_loop_control_parse", ["C01", "C09", "C03"], "break / continue carry the frame count; print takes its operand", build)]
UNITS[0].assumes = ["scopes_since_loop and Parser::value abstract (own obligations); pest API abstract; child count from the grammar"]

"""C02 / C03: the small predicates the checks are written with -- TypeLayout::is_boolean, is_float, is_class_self, can_be_used_as_list_index,
is_directly_callback_variable (compiler/src/ast/type.rs).  Twelve parser units treat `is_boolean` (and friends) as an uninterpreted predicate
"the type is bool"; here each is what its name says, read from the property's side: `is_boolean` holds exactly for the type `bool` -- as
written or as the type of a CAPTURED variable (the wrapper a closure's variable carries), not for an optional bool, an alias or anything else --
so that "a non-boolean condition is rejected" (C03.if.condition / while / assert) is a statement about bool; an index must be an int or a
bigint (C03.index.kind); `is_directly_callback_variable` is the wrapper itself (what `modify` leaves behind: D116)."""
from vlib.rules import *

FILE = "compiler/src/ast/type.rs"

SPEC = r"""
use vstd::prelude::*;
verus! {
#[verifier::external_body] pub struct OtherV { x: usize }
pub enum NativeType { Int, BigInt, Float, Byte, Bool, Str(OtherV) }
pub enum TypeLayout {
    Function(OtherV), Alias(OtherV, Box<TypeLayout>), CallbackVariable(Box<TypeLayout>), Optional(Option<Box<TypeLayout>>), Native(NativeType),
    List(OtherV), ValidIndexes(OtherV), Class(OtherV), Module(OtherV), ClassSelf(OtherV), Generic(OtherV), Void, Map(OtherV),
}
pub open spec fn strip_cb(t: TypeLayout) -> TypeLayout decreases t { match t { TypeLayout::CallbackVariable(x) => strip_cb(*x), other => other } }
pub uninterp spec fn distracted(t: TypeLayout, include_optional: bool) -> TypeLayout;        // disregard_distractors: also strips aliases (and optionals): another view of the type
impl TypeLayout { #[verifier::external_body] pub fn disregard_distractors(&self, include_optional: bool) -> (r: &TypeLayout) ensures *r == distracted(*self, include_optional) { unimplemented!() } }
impl TypeLayout { #[verifier::external_body] pub fn get_type_recursively(&self) -> (r: &TypeLayout) ensures *r == strip_cb(*self) { unimplemented!() } }     // obligation C12.type.get_type_recursively
"""

PREDS = [
    ("is_boolean", "strip_cb(*self) == TypeLayout::Native(NativeType::Bool)", "holds exactly for `bool`, also as the type of a captured variable"),
    ("is_float", "strip_cb(*self) == TypeLayout::Native(NativeType::Float)", "holds exactly for `float`, also as the type of a captured variable"),
    ("is_class_self", "strip_cb(*self) is ClassSelf", "holds exactly for `Self`, also as the type of a captured variable"),
    ("can_be_used_as_list_index", "*self == TypeLayout::Native(NativeType::Int) || *self == TypeLayout::Native(NativeType::BigInt)", "an index is an int or a bigint"),
    ("is_directly_callback_variable", "*self is CallbackVariable", "the captured-variable wrapper itself"),
]


def build(repo):
    src = Source(repo)
    log = []
    fns, obls = [], []
    for name, post, d in PREDS:
        f = src.fn(FILE, name, "impl TypeLayout")
        b = translate(f["body"], [Rule("R1", "Self :: CallbackVariable", "TypeLayout :: CallbackVariable", why="Self -> type name")], log, f"TypeLayout::{name}")
        check_closed(b, name)
        fns.append(f"""
    //@ OBL C02.type.{name}
    pub fn {name}(&self) -> (r: bool)
        ensures r == ({post})
    {{
{render(b, 2)}
    }}""")
        obls.append(Obl(f"C02.type.{name}", ["C02", "C03"], fn=f"TypeLayout::{name}", desc=f"{name}: {d}"))
    gen = header(log, f"{FILE}: TypeLayout::" + ", ".join(n for n, _, _ in PREDS)) + SPEC + "impl TypeLayout {" + "\n".join(fns) + "\n}\n} // verus!\nfn main() {}\n"
    return gen, obls, log


UNITS = [VUnit("c02_type_predicates", ["C02", "C03"], "the predicates the type checks are written with mean what they say", build)]
UNITS[0].assumes = ["get_type_recursively strips the captured-variable wrappers (its own obligation in unit c12_typing)"]

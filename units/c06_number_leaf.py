"""C06: the leaf of the folding walk -- `impl CompileTimeEvaluate for Number` (compiler/src/ast/number.rs): what a numeric literal folds to.
The literal itself, unchanged in kind and text -- except that an integer literal that does not fit an int is a bigint (D56), and a literal that fits
neither is a compile-time error.  Nothing else happens to the text: the interpreter reads the folded text back with the parser of that kind
(`Primitive::make_*`, unit c01_literal_parsers), so any re-writing of the text is a change of the value unless proved otherwise.
R13: the labeled block `'tests: { .. break 'tests; .. }` is the loop that runs once (`loop { ..; break; }`), `break 'tests` its `break`."""
from vlib.rules import *

FILE = "compiler/src/ast/number.rs"

SPEC = r"""
use vstd::prelude::*;
verus! {
pub struct VErr;
#[verifier::external_body] pub struct Text { x: usize }
pub uninterp spec fn fits_i32(t: Text) -> bool;
pub uninterp spec fn fits_i128(t: Text) -> bool;
impl Text {
    #[verifier::external_body] pub fn parse_i32(&self) -> (r: Result<i32, VErr>) ensures r is Ok <==> fits_i32(*self) { unimplemented!() }
    #[verifier::external_body] pub fn parse_i128(&self) -> (r: Result<i128, VErr>) ensures r is Ok <==> fits_i128(*self) { unimplemented!() }
    #[verifier::external_body] pub fn to_owned(&self) -> (r: Text) ensures r == *self { unimplemented!() }
    #[verifier::external_body] pub fn clone(&self) -> (r: Text) ensures r == *self { unimplemented!() }
}
pub enum Number { Integer(Text), BigInt(Text), Float(Text), Byte(Text) }
impl Number { #[verifier::external_body] pub fn clone(&self) -> (r: Number) ensures r == *self { unimplemented!() } }
pub enum Value { Number(Number), Other }
pub enum ConstexprEvaluation { Owned(Value), Impossible }
// what the literal folds to
pub open spec fn folded_number(n: Number) -> Option<Number> {
    match n {
        Number::Integer(t) => if fits_i32(t) { Some(n) } else if fits_i128(t) { Some(Number::BigInt(t)) } else { None },
        Number::BigInt(t) => if fits_i128(t) { Some(n) } else { None },
        _ => Some(n),
    }
}
"""


def build(repo):
    src = Source(repo)
    log = []
    f = src.fn(FILE, "try_constexpr_eval", "impl CompileTimeEvaluate for Number")
    LENS = "invariant_except_break window == *self_, ensures folded_number(*self_) is Some ==> window == folded_number(*self_)->Some_0, folded_number(*self_) is None ==> false,"
    b = translate(f["body"], [
        Rule("R1", "use Number :: * ;", "", why="local import"),
        Rule("R1", "let mut window = Cow :: Borrowed ( self ) ;", "let mut window = self_ . clone ( ) ;", why="Cow::Borrowed(self): the number itself"),
        Rule("R1", "window . as_ref ( )", "& window", why="Cow::as_ref"),
        Rule("R1", "window = Cow :: Owned ( $$e ) ;", "window = $$e ;", why="Cow::Owned"),
        Rule("R1", "window . into_owned ( )", "window", why="Cow::into_owned"),
        Rule("R13", "'tests : { $$body }", lambda bd: ["loop", G(LENS), "{", *bd["body"], "break ; }"], count=1, why="labeled block -> the loop that runs once"),
        Rule("R13", "break 'tests ;", "break ;", why="break of the labeled block"),
        Rule("R5", "( $i . parse :: < i32 > ( ) ) . is_ok ( )", "$i . parse_i32 ( ) . is_ok ( )", why="str::parse::<i32>"),
        Rule("R5", "$i . parse :: < i32 > ( ) . is_ok ( )", "$i . parse_i32 ( ) . is_ok ( )", why="str::parse::<i32>"),
        Rule("R5", "$b . parse :: < i128 > ( ) ? ;", "$b . parse_i128 ( ) ? ;", why="str::parse::<i128>"),
        Rule("R1", "Integer ( $$x )", "Number :: Integer ( $$x )"), Rule("R1", "BigInt ( $$x )", "Number :: BigInt ( $$x )"), Rule("R1", "Float ( $$x )", "Number :: Float ( $$x )"), Rule("R1", "Byte ( $$x )", "Number :: Byte ( $$x )"),
        Rule("R1", "Number :: Number ::", "Number ::", why="(already qualified)"),
    ], log, "Number::try_constexpr_eval")
    check_closed(b, "Number::try_constexpr_eval")
    gen = header(log, f"{FILE}: impl CompileTimeEvaluate for Number") + SPEC + f"""
//@ OBL C06.number.leaf
#[verifier::exec_allows_no_decreases_clause]
pub fn try_constexpr_eval(self_: &Number) -> (r: Result<ConstexprEvaluation, VErr>)
    ensures
        folded_number(*self_) is None ==> r is Err,
        folded_number(*self_) is Some ==> r == Ok::<ConstexprEvaluation, VErr>(ConstexprEvaluation::Owned(Value::Number(folded_number(*self_)->Some_0))),
{{
{render(b, 1)}
}}
}} // verus!
fn main() {{}}
"""
    return gen, [Obl("C06.number.leaf", ["C06", "C02"], fn="Number::try_constexpr_eval", desc="a numeric literal folds to itself, kind and text unchanged; an integer literal too large for an int is a bigint; one that fits neither is an error")], log


UNITS = [VUnit("c06_number_leaf", ["C06", "C02"], "a numeric literal folds to itself", build)]
UNITS[0].assumes = ["std's integer parsers decide what fits (uninterpreted)"]

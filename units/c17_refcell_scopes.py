"""C17 / C04: the interpreter never dies on `RefCell already (mutably) borrowed`.  The interpreter keeps its shared tables in `RefCell`s
(Program::files_in_use / module_cache, Ctx::call_stack, MScriptFile::functions / exports, ..).  A guard bound with `let g = R.borrow_mut();`
(or `R.borrow()`) lives to the end of the block its `let` stands in unless `drop(g)` ends it earlier -- a LEXICAL fact, as in unit
c16_borrow_discipline.  The contract of `R.borrow_mut()` is "no guard of R is alive", of `R.borrow()` "no mutable guard of R is alive".
Verus has no model of destructors; the precondition is discharged by a lexical lifetime analysis of the real token stream (python; labelled
as such in the evidence, not a Verus proof): for every function of bytecode/src, every `let` that binds a guard of a receiver path R, every
further borrow of the SAME receiver path in the region where the guard is alive -- macro arguments included (a `log::info!("{}", R.borrow().len())`
is evaluated when a logger is installed: `run` installs one, `execute` does not, seed C04-7).  Intra-procedural: a callee that borrows the
same cell is not seen (the call chains that do are under contract in the handler units, where the cells are explicit state)."""
import os, re
from pathlib import Path
from vlib.rules import *
from vlib.lexer import lex, match_close

IDENT = re.compile(r"[A-Za-z_]\w*$")


def _sources(repo):
    root = Path(repo) / "bytecode/src"
    for dp, dn, fn in os.walk(root):
        if "tests" in Path(dp).parts:
            continue
        for f in sorted(fn):
            if f.endswith(".rs"):
                p = Path(dp) / f
                yield str(p.relative_to(repo)), lex(p.read_text(encoding="utf-8"))


def _receiver(toks, dot):
    """tokens of the receiver path in front of `. borrow ( )` at index `dot` (idents, `.`, `self`, tuple indices): None if it is not a plain path"""
    s = dot
    while s > 0 and (IDENT.match(toks[s - 1]) or toks[s - 1] == "." or toks[s - 1].isdigit()):
        s -= 1
    path = toks[s:dot]
    if not path or path[0] == "." or not IDENT.match(path[0]):
        return None
    return tuple(path)


def _block_end(toks, i):
    """index of the `}` that closes the innermost block containing position i"""
    d = 0
    for j in range(i, len(toks)):
        if toks[j] in ("{", "(", "["):
            d += 1
        elif toks[j] in ("}", ")", "]"):
            if d == 0:
                return j
            d -= 1
    return len(toks) - 1


def analyse(repo):
    files = list(_sources(repo))
    if len(files) < 5:
        raise Undecided("bytecode/src: sources not found")
    guards, conflicts = 0, []
    for rel, toks in files:
        n = len(toks)
        for i in range(n - 6):
            # let [mut] NAME [: T] = PATH . borrow[_mut] ( ) ;
            if toks[i] != "let":
                continue
            j = i + 1
            if toks[j] == "mut":
                j += 1
            if not IDENT.match(toks[j]):
                continue
            name = toks[j]
            k = j + 1
            while k < n and toks[k] not in ("=", ";"):
                k += 1
            if k >= n or toks[k] != "=":
                continue
            e = k + 1
            while e < n and toks[e] != ";":
                if toks[e] in ("(", "[", "{"):
                    e = match_close(toks, e)
                e += 1
            expr = toks[k + 1:e]
            if len(expr) >= 5 and expr[-2:] == ["(", ")"] and expr[-3] in ("borrow", "borrow_mut") and expr[-4] == ".":
                recv = _receiver(toks, e - 4)
                if recv is None or tuple(expr[:-4]) != recv:
                    continue
                mut = expr[-3] == "borrow_mut"
                guards += 1
                end = _block_end(toks, e + 1)
                # an explicit drop(NAME) ends the guard
                for q in range(e + 1, end - 3):
                    if toks[q] == "drop" and toks[q + 1] == "(" and toks[q + 2] == name and toks[q + 3] == ")":
                        end = q
                        break
                    # handed over by value (`f(g)`, `f(a, g)`): the guard is the callee's from there on and gone when it returns
                    if toks[q] == name and toks[q - 1] in ("(", ",") and toks[q + 1] in (")", ","):
                        end = q
                        break
                # a re-binding of NAME (shadowing does not drop, but a move `let x = NAME;` is not a borrow either): keep to the block end
                for q in range(e + 1, end - 4):
                    if toks[q] == "." and toks[q + 1] in ("borrow", "borrow_mut") and toks[q + 2] == "(" and toks[q + 3] == ")":
                        r2 = _receiver(toks, q)
                        if r2 == recv and (mut or toks[q + 1] == "borrow_mut"):
                            conflicts.append(f"{rel}: `let {name} = {' '.join(recv)}.{expr[-3]}()` is alive where `{' '.join(r2)}.{toks[q + 1]}()` is evaluated "
                                             f"(.. {' '.join(toks[max(q - 12, 0):q + 4])} ..)")
    return guards, conflicts


class Unit:
    engine = "scan"
    uid = "c17_refcell_scopes"
    props = ["C17", "C04"]
    title = "no second borrow of an interpreter RefCell while a guard of it is alive (lexical lifetime analysis)"
    timeout = 120
    assumes = ["lexical lifetime of a guard bound by `let`: to the end of its block, an explicit `drop`, or the call it is handed to by value; guards held in temporaries, struct fields or returned from functions, and borrows made by callees, are outside this analysis",
               "macro arguments are evaluated (true whenever a logger admits the level: `mscript run` / `compile` install one)"]

    def run(self, repo, workdir, tier):
        from vlib.core import UnitResult
        res = UnitResult(self.uid)
        res.engine = "lexical guard-lifetime analysis (python) of bytecode/src"
        guards, conflicts = analyse(repo)
        if guards < 5:
            raise Undecided(f"bytecode/src: only {guards} `let g = <path>.borrow[_mut]();` bindings found: the analysis does not recognise the code any more")
        o = Obl("C17.refcell.no-second-borrow-under-a-guard", ["C17", "C04"], engine="finite scan (python): lexical guard lifetimes in bytecode/src", fn="bytecode/src/*.rs",
                desc=f"for each of the {guards} `let g = R.borrow[_mut]()` bindings of bytecode/src: no `R.borrow_mut()` (and, under a mutable guard, no `R.borrow()`) of the same receiver path is evaluated while g is alive -- macro arguments included")
        o.pre_decided = True
        o.status = "failed" if conflicts else "discharged"
        o.detail = "\n".join(conflicts[:6])
        res.obls = [o]
        res.functions = [f"bytecode/src: {guards} guard bindings"]
        res.samples = []
        res.raw = "\n".join(conflicts)
        res.gen_path = None
        return res


UNITS = [Unit()]

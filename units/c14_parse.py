"""C14 (+ C17 re-reading): the parsing methods of strings -- arms StrParseInt / StrParseBigint / StrParseIntRadix / StrParseBigintRadix /
StrParseBool / StrParseFloat / StrParseByte of BuiltInFunction::run (V-t).  The numeral parsers of `std` are the definition of "the
number a text denotes" (assumed contracts: uninterpreted functions of the text and the radix); what is decided is WHICH text is handed
to WHICH parser -- the whole receiver, or the receiver without exactly one `0x` / `0b` prefix --, that the result is `nil` exactly when
that parser rejects it and the parsed value of the declared kind otherwise, and that a radix outside 2..=36 (where `from_str_radix`
panics) is a failure, not a panic."""
from vlib.rules import *
from vlib.extract import extract_match_arm

FUNC = "bytecode/src/function.rs"

SPEC = r"""
use vstd::prelude::*;
verus! {
pub struct VErr;
#[verifier::external_body] pub struct OtherV { x: usize }
#[verifier::external_body] pub struct Str { s: String }
#[verifier::external_body] pub struct F64V { x: usize }
pub uninterp spec fn chars(s: &Str) -> Seq<char>;
pub enum Primitive { Str(Str), Int(i32), BigInt(i128), Float(F64V), Bool(bool), Byte(u8), Optional(Option<Box<Primitive>>), Other(OtherV) }
pub struct Bridge;
// ---- std's parsers: the definition of the number / bool a text denotes (None: not a numeral of that type)
pub uninterp spec fn dec_i32(t: Seq<char>) -> Option<i32>;
pub uninterp spec fn dec_i128(t: Seq<char>) -> Option<i128>;
pub uninterp spec fn dec_f64(t: Seq<char>) -> Option<F64V>;
pub uninterp spec fn lit_bool(t: Seq<char>) -> Option<bool>;
pub uninterp spec fn radix_i32(t: Seq<char>, radix: int) -> Option<i32>;
pub uninterp spec fn radix_i128(t: Seq<char>, radix: int) -> Option<i128>;
pub uninterp spec fn radix_u8(t: Seq<char>, radix: int) -> Option<u8>;
#[verifier::external_body] pub fn parse_i32(s: &Str) -> (r: Result<i32, VErr>) ensures r is Ok <==> dec_i32(chars(s)) is Some, r is Ok ==> Some(r->Ok_0) == dec_i32(chars(s)) { unimplemented!() }
#[verifier::external_body] pub fn parse_i128(s: &Str) -> (r: Result<i128, VErr>) ensures r is Ok <==> dec_i128(chars(s)) is Some, r is Ok ==> Some(r->Ok_0) == dec_i128(chars(s)) { unimplemented!() }
#[verifier::external_body] pub fn parse_f64(s: &Str) -> (r: Result<F64V, VErr>) ensures r is Ok <==> dec_f64(chars(s)) is Some, r is Ok ==> Some(r->Ok_0) == dec_f64(chars(s)) { unimplemented!() }
#[verifier::external_body] pub fn parse_bool(s: &Str) -> (r: Result<bool, VErr>) ensures r is Ok <==> lit_bool(chars(s)) is Some, r is Ok ==> Some(r->Ok_0) == lit_bool(chars(s)) { unimplemented!() }
// from_str_radix PANICS when the radix is not in 2..=36 (R8)
#[verifier::external_body] pub fn i32_from_str_radix(s: &Str, radix: u32) -> (r: Result<i32, VErr>) requires 2 <= radix <= 36
    ensures r is Ok <==> radix_i32(chars(s), radix as int) is Some, r is Ok ==> Some(r->Ok_0) == radix_i32(chars(s), radix as int) { unimplemented!() }
#[verifier::external_body] pub fn i128_from_str_radix(s: &Str, radix: u32) -> (r: Result<i128, VErr>) requires 2 <= radix <= 36
    ensures r is Ok <==> radix_i128(chars(s), radix as int) is Some, r is Ok ==> Some(r->Ok_0) == radix_i128(chars(s), radix as int) { unimplemented!() }
#[verifier::external_body] pub fn u8_from_str_radix(s: &Str, radix: u32) -> (r: Result<u8, VErr>) requires 2 <= radix <= 36
    ensures r is Ok <==> radix_u8(chars(s), radix as int) is Some, r is Ok ==> Some(r->Ok_0) == radix_u8(chars(s), radix as int) { unimplemented!() }
#[verifier::external_body] pub fn i32_to_u32(x: i32) -> (r: Result<u32, VErr>) ensures r is Ok <==> x >= 0, r is Ok ==> r->Ok_0 == x { unimplemented!() }
// ---- prefixes: a two-character ASCII prefix
pub open spec fn has_prefix(t: Seq<char>, a: char, b: char) -> bool { t.len() >= 2 && t[0] == a && t[1] == b }
pub open spec fn lit2(l: &str) -> (char, char) { (l@[0], l@[1]) }
#[verifier::external_body] pub fn starts_with2(s: &Str, a: char, b: char) -> (r: bool) ensures r == has_prefix(chars(s), a, b) { unimplemented!() }
#[verifier::external_body] pub fn starts_with3(s: &Str, a: char, b: char, c: char) -> (r: bool) ensures r == (has_prefix(chars(s), a, b) && chars(s).len() >= 3 && chars(s)[2] == c) { unimplemented!() }
// a sign directly behind the prefix: `0x-5`, `0b+1` are no numerals (the digits of a prefixed numeral carry no sign of their own)
pub open spec fn sign_behind_prefix(t: Seq<char>) -> bool { t.len() >= 3 && (t[2] == '+' || t[2] == '-') }
// std: a digit of radix r is one of the first r of 0-9a-z: `x` is a digit only from radix 34 on, `b` only from radix 12 on, neither is a decimal digit
pub broadcast axiom fn x_is_no_digit_i32(t: Seq<char>, radix: int) requires has_prefix(t, '0', 'x'), radix <= 33 ensures #[trigger] radix_i32(t, radix) is None;
pub broadcast axiom fn x_is_no_digit_i128(t: Seq<char>, radix: int) requires has_prefix(t, '0', 'x'), radix <= 33 ensures #[trigger] radix_i128(t, radix) is None;
pub broadcast axiom fn x_is_no_decimal_i32(t: Seq<char>) requires has_prefix(t, '0', 'x') ensures #[trigger] dec_i32(t) is None;
pub broadcast axiom fn x_is_no_decimal_i128(t: Seq<char>) requires has_prefix(t, '0', 'x') ensures #[trigger] dec_i128(t) is None;
pub broadcast axiom fn b_is_no_decimal_u8(t: Seq<char>) requires has_prefix(t, '0', 'b') ensures #[trigger] radix_u8(t, 10) is None;
// std: an unsigned numeral is an optional `+` and digits -- a leading `-` is rejected
pub broadcast axiom fn minus_is_no_u8(t: Seq<char>, radix: int) requires t.len() >= 1, t[0] == '-' ensures #[trigger] radix_u8(t, radix) is None;
pub broadcast group digits { minus_is_no_u8, x_is_no_digit_i32, x_is_no_digit_i128, x_is_no_decimal_i32, x_is_no_decimal_i128, b_is_no_decimal_u8 }
// `s.get(2..).unwrap_or_default()` behind a two-byte ASCII prefix: the rest of the text
#[verifier::external_body] pub fn rest_after(s: &Str, n: usize) -> (r: &Str)
    ensures (n == 2 && (has_prefix(chars(s), '0', 'x') || has_prefix(chars(s), '0', 'b'))) ==> chars(r) == chars(s).skip(2) { unimplemented!() }   // two ASCII characters are two bytes
// prefix-stripping methods a change may bring in: uninterpreted (NOT known to remove exactly one prefix)
pub uninterp spec fn trimmed_start(t: Seq<char>, l: Seq<char>) -> Seq<char>;
pub uninterp spec fn stripped(t: Seq<char>, l: Seq<char>) -> Option<Seq<char>>;
pub uninterp spec fn lowered(t: Seq<char>) -> Seq<char>;
pub uninterp spec fn trimmed(t: Seq<char>) -> Seq<char>;
impl Str {
    #[verifier::external_body] pub fn as_str(&self) -> (r: &Str) ensures r == self { unimplemented!() }
    #[verifier::external_body] pub fn trim_start_matches(&self, l: &str) -> (r: &Str) ensures chars(r) == trimmed_start(chars(self), l@) { unimplemented!() }
    #[verifier::external_body] pub fn strip_prefix(&self, l: &str) -> (r: Option<&Str>) ensures r is Some <==> stripped(chars(self), l@) is Some, r is Some ==> chars(r->Some_0) == stripped(chars(self), l@)->Some_0 { unimplemented!() }
    #[verifier::external_body] pub fn to_lowercase(&self) -> (r: Str) ensures chars(&r) == lowered(chars(self)) { unimplemented!() }
    #[verifier::external_body] pub fn to_ascii_lowercase(&self) -> (r: Str) ensures chars(&r) == lowered(chars(self)) { unimplemented!() }
    #[verifier::external_body] pub fn trim(&self) -> (r: &Str) ensures chars(r) == trimmed(chars(self)) { unimplemented!() }
}
#[verifier::external_body] pub fn vpanic() requires false { unimplemented!() }
#[verifier::external_body] pub fn args_first(a: &Vec<Primitive>) -> (r: Option<&Primitive>) ensures a@.len() == 0 ==> r is None, a@.len() > 0 ==> r == Some(&a@[0]) { unimplemented!() }
#[verifier::external_body] pub fn args_get(a: &Vec<Primitive>, i: usize) -> (r: Option<&Primitive>) ensures a@.len() <= i ==> r is None, a@.len() > i ==> r == Some(&a@[i as int]) { unimplemented!() }
pub open spec fn recv(a: Seq<Primitive>) -> bool { a.len() >= 1 && a[0] is Str }
pub open spec fn int_arg(a: Seq<Primitive>, k: int) -> bool { a.len() > k && a[k] is Int }
pub type Ret = Result<(Option<Primitive>, Option<Bridge>), VErr>;
// the method's result: nil, or the present value v
pub open spec fn is_nil(r: Ret) -> bool { r is Ok && r->Ok_0.0 == Some(Primitive::Optional(None)) }
// C12 / C02: a present value of an optional kind IS the plain value (a stored `x: int? = 5` is the int 5): nothing wraps it, so every operation on the
// kind works on it (D91: the built-ins handed out `Optional(Some(v))`, on which arithmetic, comparison, indexing and methods fail)
pub open spec fn is_present(r: Ret, v: Primitive) -> bool { r is Ok && r->Ok_0.0 == Some(v) }
// the text a radix parser must be handed: the receiver without exactly ONE leading prefix
pub open spec fn without_prefix(t: Seq<char>, a: char, b: char) -> Seq<char> { if has_prefix(t, a, b) { t.skip(2) } else { t } }
"""

ARMS = {
 "StrParseInt": """requires recv(arguments@)
    ensures ({ let t = chars(&arguments@[0]->Str_0);
        // a decimal numeral, or -- as in source text -- `0x` and a hexadecimal one; never the decimal reading of the digits behind `0x`
        // (`0x-5` is no numeral: the digits behind the prefix carry no sign -- D87)
        let v = if has_prefix(t, '0', 'x') { if sign_behind_prefix(t) { None } else { radix_i32(t.skip(2), 16) } } else { dec_i32(t) };
        (v is Some ==> is_present(r, Primitive::Int(v->Some_0))) && (v is None ==> is_nil(r)) })""",
 "StrParseBigint": """requires recv(arguments@)
    ensures ({ let t = chars(&arguments@[0]->Str_0);
        let v = if has_prefix(t, '0', 'x') { if sign_behind_prefix(t) { None } else { radix_i128(t.skip(2), 16) } } else { dec_i128(t) };
        (v is Some ==> is_present(r, Primitive::BigInt(v->Some_0))) && (v is None ==> is_nil(r)) })""",
 "StrParseBool": """requires recv(arguments@)
    ensures ({ let t = chars(&arguments@[0]->Str_0); (lit_bool(t) is Some ==> is_present(r, Primitive::Bool(lit_bool(t)->Some_0))) && (lit_bool(t) is None ==> is_nil(r)) })""",
 "StrParseFloat": """requires recv(arguments@)
    ensures ({ let t = chars(&arguments@[0]->Str_0); (dec_f64(t) is Some ==> is_present(r, Primitive::Float(dec_f64(t)->Some_0))) && (dec_f64(t) is None ==> is_nil(r)) })""",
 "StrParseIntRadix": """requires recv(arguments@), int_arg(arguments@, 1)
    ensures ({ let t0 = chars(&arguments@[0]->Str_0); let radix = arguments@[1]->Int_0 as int;
        // `0x` is the prefix of a HEXADECIMAL numeral only (in radix 36 `0x1A` is a numeral of its own; in radix 2 it is none), and no sign follows it (D87)
        let t = if radix == 16 && has_prefix(t0, '0', 'x') && !sign_behind_prefix(t0) { t0.skip(2) } else { t0 };
        // a radix no positional notation has (below 2, above 36) is outside the domain: a failure, never a panic
        &&& !(2 <= radix <= 36) ==> r is Err
        &&& (2 <= radix <= 36 && radix_i32(t, radix) is Some) ==> is_present(r, Primitive::Int(radix_i32(t, radix)->Some_0))
        &&& (2 <= radix <= 36 && radix_i32(t, radix) is None) ==> is_nil(r) })""",
 "StrParseBigintRadix": """requires recv(arguments@), int_arg(arguments@, 1)
    ensures ({ let t0 = chars(&arguments@[0]->Str_0); let radix = arguments@[1]->Int_0 as int;
        let t = if radix == 16 && has_prefix(t0, '0', 'x') && !sign_behind_prefix(t0) { t0.skip(2) } else { t0 };
        &&& !(2 <= radix <= 36) ==> r is Err
        &&& (2 <= radix <= 36 && radix_i128(t, radix) is Some) ==> is_present(r, Primitive::BigInt(radix_i128(t, radix)->Some_0))
        &&& (2 <= radix <= 36 && radix_i128(t, radix) is None) ==> is_nil(r) })""",
 "StrParseByte": """requires recv(arguments@)
    ensures ({ let s = chars(&arguments@[0]->Str_0);
        // `0b` + binary digits, or a decimal numeral; exactly one prefix is part of the notation
        let v = if has_prefix(s, '0', 'b') { if sign_behind_prefix(s) { None } else { radix_u8(s.skip(2), 2) } } else { radix_u8(s, 10) };
        (v is Some ==> is_present(r, Primitive::Byte(v->Some_0))) && (v is None ==> is_nil(r)) })""",
}


def sw2(b):
    lit = text(b["l"])
    if lit.startswith('"') and lit.endswith('"') and len(lit) == 5 and "\\" not in lit:
        return f"starts_with3 ( s , '{lit[1]}' , '{lit[2]}' , '{lit[3]}' )"
    if not (lit.startswith('"') and lit.endswith('"') and len(lit) == 4 and "\\" not in lit):
        raise Undecided(f"starts_with({lit}): only a two- or three-character literal prefix is modelled")
    return f"starts_with2 ( s , '{lit[1]}' , '{lit[2]}' )"


def rules():
    return [
        Rule("R8", "unreachable ! ( )", "{ vpanic ( ) ; return Err ( VErr ) }", why="unreachable!: excluded by the precondition on the argument vector"),
        Rule("R3", "bail ! $a", "return Err ( VErr )", why="bail! -> return Err"),
        Rule("R9", "arguments . first ( )", "args_first ( & arguments )", why="slice::first"),
        Rule("R9", "arguments . get ( $i )", "args_get ( & arguments , $i )", why="slice::get"),
        Rule("R7", "( * radix ) . try_into ( ) . with_context ( $$c ) ?", "i32_to_u32 ( * radix ) ?", why="i32 -> u32 conversion: fails on a negative value"),
        Rule("R5", "$s . parse :: < i32 > ( )", "parse_i32 ( $s )", why="str::parse::<i32> (assumed std contract: the decimal numeral's value)"),
        Rule("R5", "$s . parse :: < i128 > ( )", "parse_i128 ( $s )", why="str::parse::<i128>"),
        Rule("R5", "$s . parse :: < f64 > ( )", "parse_f64 ( $s )", why="str::parse::<f64>"),
        Rule("R5", "$s . parse :: < bool > ( )", "parse_bool ( $s )", why="str::parse::<bool>"),
        Rule("R8", "i32 :: from_str_radix ( $$a )", "i32_from_str_radix ( $$a )", why="from_str_radix with its panic precondition (radix in 2..=36)"),
        Rule("R8", "i128 :: from_str_radix ( $$a )", "i128_from_str_radix ( $$a )", why="from_str_radix with its panic precondition"),
        Rule("R8", "u8 :: from_str_radix ( $$a )", "u8_from_str_radix ( $$a )", why="from_str_radix with its panic precondition"),
        Rule("R9", "s . starts_with ( $l )", sw2, why="str::starts_with with a two-character literal"),
        Rule("R9", "s . get ( $n .. ) . unwrap_or_default ( )", "rest_after ( s , $n )", why="str::get(n..): the rest of the text behind an ASCII prefix of n bytes"),
    ]


def build(repo):
    src = Source(repo)
    log = []
    frun = src.fn(FUNC, "run", "impl BuiltInFunction")
    fns, obls = [], []
    for name, contract in ARMS.items():
        try:
            arm = extract_match_arm(frun["body"], f"Self :: {name}")
        except Exception as e:
            raise Undecided(f"{FUNC}: arm Self::{name} not found: {e}")
        b = translate(arm["body"], rules(), log, f"BuiltInFunction::run[{name}]")
        check_closed(b, name)
        fns.append(f"""
//@ OBL C14.{name}
pub fn arm_{name}(arguments: Vec<Primitive>) -> (r: Ret)
    {contract}
{{
    broadcast use digits;
{render(b, 1)}
}}
""")
        obls.append(Obl(f"C14.{name}", ["C14", "C17"], fn=f"BuiltInFunction::run[{name}]", desc=f"BuiltInFunction::run arm {name}: the receiver (without exactly one notation prefix where the method has one) goes to the parser of the declared kind; nil exactly when it rejects; never a panic"))
    gen = header(log, f"{FUNC}: BuiltInFunction::run arms " + ", ".join(ARMS)) + SPEC + "\n".join(fns) + "\n} // verus!\nfn main() {}\n"
    return gen, obls, log


UNITS = [VUnit("c14_parse", ["C14", "C17"], "string parsing methods: which text goes to which parser; radix domain (V-t)", build)]
UNITS[0].assumes = ["std's numeral parsers (str::parse, from_str_radix) are the definition of the value a text denotes: assumed contracts, uninterpreted in text and radix",
                    "the argument vector has the shape the type checker guarantees (receiver a string, radix an int)"]

"""C04 / C18 (loader side): MScriptFile::get_functions (bytecode/src/file.rs) -- what `execute` makes of each NUL-terminated record of a
`.mmm` file.  The body of the record loop is taken as a function of (record, loader state); its contract says, per record form the
writer emits (`f name\\0`, `{id} args\\0`, `{id}\\0`, `e\\0`), what the state is afterwards: no well-formed record is dropped, re-ordered
or read as another kind, a later definition of a name replaces an earlier one, and the record buffer is empty for the next read."""
import re
from vlib.rules import *
from vlib.extract import find_block_after

FILE = "bytecode/src/file.rs"

SPEC = r"""
use vstd::prelude::*;
verus! {
pub struct VErr;
#[verifier::external_body] pub struct NameV { x: usize }            // String (a function name)
pub uninterp spec fn name_bytes(n: NameV) -> Seq<u8>;
#[verifier::external_body] pub fn string_from_utf8(v: Vec<u8>) -> (r: Result<NameV, VErr>) ensures r is Ok ==> name_bytes(r->Ok_0) == v@ { unimplemented!() }
#[verifier::external_body] pub fn clone_name(n: &NameV) -> (r: NameV) ensures r == *n { unimplemented!() }
#[verifier::external_body] pub fn take_name(o: &mut Option<NameV>) -> (r: Result<NameV, VErr>) ensures *final(o) is None, r is Ok <==> *old(o) is Some, r is Ok ==> Some(r->Ok_0) == *old(o) { unimplemented!() }
#[verifier::external_body] pub struct ArgsV { x: usize }            // Box<[String]>
// split_string on the (lossy) text of the argument bytes: obligations C04.split.* (unit c04_codec)
pub uninterp spec fn split_spec(b: Seq<u8>) -> Option<ArgsV>;
pub uninterp spec fn no_args() -> ArgsV;
#[verifier::external_body] pub fn split_args(a: &Vec<u8>) -> (r: Result<ArgsV, VErr>) ensures r is Ok <==> split_spec(a@) is Some, r is Ok ==> r->Ok_0 == split_spec(a@)->Some_0 { unimplemented!() }
#[verifier::external_body] pub fn args_none() -> (r: ArgsV) ensures r == no_args() { unimplemented!() }
pub struct Instruction { pub id: u8, pub arguments: ArgsV }
impl Instruction { pub fn new(id: u8, arguments: ArgsV) -> (r: Instruction) ensures r.id == id, r.arguments == arguments { Instruction { id, arguments } } }
#[verifier::external_body] pub struct FunctionV { x: usize }
pub uninterp spec fn fn_name(f: FunctionV) -> NameV;
pub uninterp spec fn fn_instrs(f: FunctionV) -> Seq<Instruction>;
#[verifier::external_body] pub fn function_new(name: NameV, instructions: Vec<Instruction>) -> (r: FunctionV) ensures fn_name(r) == name, fn_instrs(r) == instructions@ { unimplemented!() }
// HashMap<String, Function>
#[verifier::external_body] pub struct FnMap { x: usize }
pub uninterp spec fn fmap(m: FnMap) -> Map<Seq<u8>, FunctionV>;
impl FnMap {
    #[verifier::external_body] pub fn insert(&mut self, k: NameV, v: FunctionV) ensures fmap(*final(self)) == fmap(*old(self)).insert(name_bytes(k), v) { unimplemented!() }
    // entry(k).or_insert(v)
    #[verifier::external_body] pub fn insert_if_absent(&mut self, k: NameV, v: FunctionV)
        ensures fmap(*final(self)) == (if fmap(*old(self)).dom().contains(name_bytes(k)) { fmap(*old(self)) } else { fmap(*old(self)).insert(name_bytes(k), v) }) { unimplemented!() }
}
#[verifier::external_body] pub fn slice_sub(v: &Vec<u8>, a: usize, b: usize) -> (r: Vec<u8>) requires a <= b <= v@.len() ensures r@ == v@.subrange(a as int, b as int) { unimplemented!() }
#[verifier::external_body] pub fn slice_all(v: &Vec<u8>) -> (r: Vec<u8>) ensures r@ == v@ { unimplemented!() }
#[verifier::external_body] pub fn vpanic() requires false { unimplemented!() }
pub open spec fn is_ascii_ws_spec(b: &u8) -> bool { *b == 9 || *b == 10 || *b == 12 || *b == 13 || *b == 32 }
#[verifier::external_body] #[verifier::when_used_as_spec(is_ascii_ws_spec)]
pub fn is_ascii_ws(b: &u8) -> (r: bool) ensures r == is_ascii_ws_spec(b) { b.is_ascii_whitespace() }

pub struct LoaderState { pub in_function: bool, pub current_function_name: Option<NameV>, pub instruction_buffer: Vec<Instruction>, pub functions: FnMap, pub buffer: Vec<u8> }

// ---- the record forms the writer emits (CompiledItem::repr, binary form: obligations C04.writer.*)
pub open spec fn is_label(r: Seq<u8>) -> bool { r.len() >= 3 && r[0] == 102 && r[1] == 32 && r.last() == 0 }                 // `f name\0`
pub open spec fn is_end(r: Seq<u8>) -> bool { r.len() == 2 && r[0] == 101 && r[1] == 0 }                                      // `e\0`
pub open spec fn is_instr_args(r: Seq<u8>) -> bool { r.len() >= 3 && r[0] != 101 && r[1] == 32 && r.last() == 0 }            // `{id} args\0`  (no opcode is 101)
pub open spec fn is_instr_bare(r: Seq<u8>) -> bool { r.len() == 2 && r[0] != 101 && r[1] == 0 }                               // `{id}\0`
pub open spec fn well_formed(r: Seq<u8>, in_function: bool) -> bool { if in_function { is_end(r) || is_instr_args(r) || is_instr_bare(r) } else { is_label(r) } }
pub open spec fn same_but_buffer(a: LoaderState, b: LoaderState) -> bool {
    a.in_function == b.in_function && a.current_function_name == b.current_function_name && a.instruction_buffer@ == b.instruction_buffer@ && fmap(a.functions) == fmap(b.functions)
}
"""


def build(repo):
    src = Source(repo)
    log = []
    f = src.fn(FILE, "get_functions")
    try:
        _, o, c = find_block_after(f["body"], "while let Ok ( size ) = reader . read_until ( 0x00 , & mut buffer )")
    except Exception as e:
        raise Undecided(f"{FILE}: the record loop `while let Ok(size) = reader.read_until(0x00, &mut buffer)` of get_functions not found: {e}")
    body = f["body"][o + 1:c]
    log.append(("R0", "while let Ok(size) = reader.read_until(0x00, &mut buffer) { BODY }", "fn record_step(size, state) { BODY }", "fragment: the body of the record loop as a function of the record just read and the loader state"))
    body = slice_match_to_if(body, "buffer", log)
    body = [str(ord(t[2])) + "u8" if re.match(r"b'[^\\]'$", t) else t for t in body]
    ST = "LoaderState { in_function , current_function_name , instruction_buffer , functions , buffer }"
    b = translate(body, [Rule("R9", "$b . is_ascii_whitespace ( )", "is_ascii_ws ( $b )", why="u8::is_ascii_whitespace (tab, LF, FF, CR, space)")] + self_spec_all_any() + [
        Rule("R13", "break ;", f"return Ok ( ( {ST} , true ) ) ;", why="break of the record loop -> the step reports `done`"),
        Rule("R13", "continue ;", f"return Ok ( ( {ST} , false ) ) ;", why="continue of the record loop -> the step ends (the rest of the body is skipped)"),
        Rule("R9", "String :: from_utf8 ( name . to_vec ( ) ) ?", "string_from_utf8 ( name ) ?", why="String::from_utf8: the same bytes, or an error"),
        Rule("R9", "current_function_name . take ( ) . context ( $m ) ?", "take_name ( & mut current_function_name ) ?", why="Option::take + context"),
        Rule("R6", "Function :: new ( Rc :: downgrade ( self ) , current_function_name . clone ( ) , instruction_buffer . into_boxed_slice ( ) , )",
             "function_new ( clone_name ( & current_function_name ) , instruction_buffer )", why="Function::new: name and instruction list (the back reference to the file is dropped)"),
        Rule("R6", "split_string ( String :: from_utf8_lossy ( args ) . as_ref ( ) ) ?", "split_args ( & args ) ?", why="argument splitter: own obligations (c04_codec)"),
        Rule("R1", "Box :: new ( [ ] )", "args_none ( )", why="empty argument list"),
        Rule("R1", "let pos = reader . stream_position ( ) ? ;", "", why="position only feeds the panic message"),
        Rule("R8", "panic ! ( $$a )", "vpanic ( ) ; return Err ( VErr ) ;", why="panic! on a malformed record: excluded by the precondition (the record is one the writer emits)"),
        Rule("R9", "functions . entry ( $k ) . or_insert ( $v ) ;", "functions . insert_if_absent ( $k , $v ) ;", why="HashMap::entry().or_insert(): keeps an existing entry"),
    ], log, "get_functions[record step]")
    check_closed(b, "get_functions[record step]")
    gen = header(log, f"{FILE}: MScriptFile::get_functions, body of the record loop") + SPEC + f"""
//@ OBL C04.loader.record
pub fn record_step(size: usize, st: LoaderState) -> (r: Result<(LoaderState, bool), VErr>)
    requires
        size == st.buffer@.len(),                                       // read_until appended `size` bytes to the empty buffer
        st.buffer@.len() > 0 ==> well_formed(st.buffer@, st.in_function),   // R8: a record the writer emits, in a place it emits it
        st.in_function ==> st.current_function_name is Some,
    ensures
        // end of file
        st.buffer@.len() == 0 ==> r is Ok && r->Ok_0.1,
        st.buffer@.len() > 0 && r is Ok ==> !r->Ok_0.1 && r->Ok_0.0.buffer@.len() == 0,
        // `f name\\0`
        (st.buffer@.len() > 0 && !st.in_function && r is Ok) ==> ({{ let n = r->Ok_0.0; let rec = st.buffer@;
            n.in_function && n.current_function_name is Some && name_bytes(n.current_function_name->Some_0) == rec.subrange(2, rec.len() - 1)
            && n.instruction_buffer@ == st.instruction_buffer@ && fmap(n.functions) == fmap(st.functions) }}),
        // `e\\0`: the function is complete -- registered under its name with exactly the instructions read since its label, replacing an earlier one of that name
        (st.in_function && is_end(st.buffer@)) ==> r is Ok && ({{ let n = r->Ok_0.0; let key = name_bytes(st.current_function_name->Some_0);
            !n.in_function && n.current_function_name is None && n.instruction_buffer@.len() == 0
            && fmap(n.functions).dom() =~= fmap(st.functions).dom().insert(key)
            && fn_instrs(fmap(n.functions)[key]) == st.instruction_buffer@ && fn_name(fmap(n.functions)[key]) == st.current_function_name->Some_0
            && forall|k: Seq<u8>| k != key && fmap(st.functions).dom().contains(k) ==> #[trigger] fmap(n.functions)[k] == fmap(st.functions)[k] }}),
        // `{{id}} args\\0`
        (st.in_function && is_instr_args(st.buffer@)) ==> ({{ let rec = st.buffer@; let a = split_spec(rec.subrange(2, rec.len() - 1));
            (a is Some ==> r is Ok) && (r is Ok ==> a is Some && ({{ let n = r->Ok_0.0;
                n.in_function && n.current_function_name == st.current_function_name && fmap(n.functions) == fmap(st.functions)
                && n.instruction_buffer@ == st.instruction_buffer@.push(Instruction {{ id: rec[0], arguments: a->Some_0 }}) }})) }}),
        // `{{id}}\\0`
        (st.in_function && is_instr_bare(st.buffer@)) ==> r is Ok && ({{ let n = r->Ok_0.0;
            n.in_function && n.current_function_name == st.current_function_name && fmap(n.functions) == fmap(st.functions)
            && n.instruction_buffer@ == st.instruction_buffer@.push(Instruction {{ id: st.buffer@[0], arguments: no_args() }}) }}),
{{
    let mut in_function = st.in_function; let mut current_function_name = st.current_function_name; let mut instruction_buffer = st.instruction_buffer;
    let mut functions = st.functions; let mut buffer = st.buffer;
{render(b, 1)}
    Ok(({ST}, false))
}}
}} // verus!
fn main() {{}}
"""
    return gen, [Obl("C04.loader.record", ["C04", "C18"], fn="MScriptFile::get_functions[record loop body]", desc="get_functions, per record: label / instruction (with and without arguments) / end each have exactly their effect on the loader state; the buffer is empty afterwards")], log



LOOP_SPEC = r"""
// ---- the whole loader: ghost file contents, std's BufRead::read_until
#[verifier::external_body] pub struct FileV { x: usize }
pub uninterp spec fn file_bytes(f: FileV) -> Seq<u8>;
pub uninterp spec fn io_error(f: FileV) -> bool;                    // opening the file, or some read of it, fails
#[verifier::external_body] pub struct Reader { x: usize }
pub uninterp spec fn rest(r: Reader) -> Seq<u8>;                    // the bytes not yet read
pub uninterp spec fn src(r: Reader) -> FileV;
// File::open + BufReader::new
#[verifier::external_body] pub fn open_reader(f: &FileV) -> (r: Result<Reader, VErr>) ensures r is Err ==> io_error(*f), r is Ok ==> rest(r->Ok_0) == file_bytes(*f) && src(r->Ok_0) == *f { unimplemented!() }
// std: "read all bytes into buf until the delimiter byte or EOF is reached ... all bytes up to, and including, the delimiter (if found) will be appended to buf ... returns the total number of bytes read"
pub open spec fn first_record(s: Seq<u8>, d: u8) -> Seq<u8> decreases s.len() { if s.len() == 0 { Seq::empty() } else if s[0] == d { seq![d] } else { seq![s[0]] + first_record(s.skip(1), d) } }
impl Reader {
    #[verifier::external_body] pub fn read_until(&mut self, d: u8, buf: &mut Vec<u8>) -> (r: Result<usize, VErr>)
        ensures src(*final(self)) == src(*old(self)), r is Err ==> io_error(src(*old(self))),
            r is Ok ==> ({ let rec = first_record(rest(*old(self)), d); r->Ok_0 == rec.len() && final(buf)@ == old(buf)@ + rec && rest(*final(self)) == rest(*old(self)).skip(rec.len() as int) }) { unimplemented!() }
}
pub proof fn lemma_first_record(s: Seq<u8>, d: u8) ensures first_record(s, d).len() <= s.len(), s.len() > 0 ==> first_record(s, d).len() > 0 decreases s.len() { if s.len() > 0 && s[0] != d { lemma_first_record(s.skip(1), d); } }
impl FnMap { #[verifier::external_body] pub fn new() -> (r: FnMap) ensures fmap(r) == Map::<Seq<u8>, FunctionV>::empty() { unimplemented!() } }
pub uninterp spec fn utf8_name(b: Seq<u8>) -> Option<NameV>;
#[verifier::external_body] pub fn string_from_utf8_f(v: Vec<u8>) -> (r: Result<NameV, VErr>) ensures r is Ok <==> utf8_name(v@) is Some, r is Ok ==> r->Ok_0 == utf8_name(v@)->Some_0 && name_bytes(r->Ok_0) == v@ { unimplemented!() }
pub uninterp spec fn mk_fn(name: NameV, instrs: Seq<Instruction>) -> FunctionV;
#[verifier::external_body] pub fn function_new_f(name: NameV, instructions: Vec<Instruction>) -> (r: FunctionV) ensures r == mk_fn(name, instructions@), fn_name(r) == name, fn_instrs(r) == instructions@ { unimplemented!() }

// ---- the meaning of a bytecode file: its records, in order, each adding what it says
pub struct Abs { pub in_function: bool, pub name: Option<NameV>, pub instrs: Seq<Instruction>, pub fns: Map<Seq<u8>, FunctionV> }
pub open spec fn init_state() -> Abs { Abs { in_function: false, name: None, instrs: Seq::empty(), fns: Map::empty() } }
pub open spec fn step(s: Abs, rec: Seq<u8>) -> Option<Abs> {
    let payload = rec.subrange(2, rec.len() - 1);
    if !s.in_function {                                              // `f name\0`
        match utf8_name(payload) { None => None, Some(n) => Some(Abs { in_function: true, name: Some(n), ..s }) }
    } else if rec[0] == 101 {                                        // `e\0`: the function is complete
        Some(Abs { in_function: false, name: None, instrs: Seq::empty(), fns: s.fns.insert(name_bytes(s.name->Some_0), mk_fn(s.name->Some_0, s.instrs)) })
    } else if rec.len() == 2 {                                       // `{id}\0`
        Some(Abs { instrs: s.instrs.push(Instruction { id: rec[0], arguments: no_args() }), ..s })
    } else {                                                         // `{id} args\0`
        match split_spec(payload) { None => None, Some(a) => Some(Abs { instrs: s.instrs.push(Instruction { id: rec[0], arguments: a }), ..s }) }
    }
}
pub open spec fn load(bytes: Seq<u8>, s: Abs) -> Option<Abs> decreases bytes.len() {
    if bytes.len() == 0 { Some(s) } else {
        let rec = first_record(bytes, 0);
        if rec.len() == 0 || rec.len() > bytes.len() { None } else { match step(s, rec) { None => None, Some(s2) => load(bytes.skip(rec.len() as int), s2) } }
    }
}
// every record is one the writer emits, in a place it emits it (a malformed record panics the loader: R8)
pub open spec fn file_ok(bytes: Seq<u8>, in_function: bool) -> bool decreases bytes.len() {
    if bytes.len() == 0 { true } else {
        let rec = first_record(bytes, 0);
        if rec.len() == 0 || rec.len() > bytes.len() { false } else { well_formed(rec, in_function) && file_ok(bytes.skip(rec.len() as int), if in_function { !is_end(rec) } else { true }) }
    }
}
"""


def build_loop(repo):
    src = Source(repo)
    log = []
    f = src.fn(FILE, "get_functions")
    body = list(f["body"])
    try:
        h, o, c = find_block_after(body, "while let Ok ( size ) = reader . read_until ( 0x00 , & mut buffer )")
    except Exception as e:
        raise Undecided(f"{FILE}: the record loop `while let Ok(size) = reader.read_until(0x00, &mut buffer)` of get_functions not found: {e}")
    pre, inner, post = body[:h], body[o + 1:c], body[c + 1:]
    inner = slice_match_to_if(inner, "buffer", log)
    inner = [str(ord(t[2])) + "u8" if re.match(r"b'[^\\]'$", t) else t for t in inner]
    ABS = "Abs { in_function, name: current_function_name, instrs: instruction_buffer@, fns: fmap(functions) }"
    body_rules = [Rule("R9", "$b . is_ascii_whitespace ( )", "is_ascii_ws ( $b )", why="u8::is_ascii_whitespace")] + self_spec_all_any() + [
        Rule("R9", "String :: from_utf8 ( name . to_vec ( ) ) ?", "string_from_utf8_f ( name ) ?", why="String::from_utf8: the same bytes, or an error"),
        Rule("R9", "current_function_name . take ( ) . context ( $m ) ?", "take_name ( & mut current_function_name ) ?", why="Option::take + context"),
        Rule("R6", "Function :: new ( Rc :: downgrade ( self ) , current_function_name . clone ( ) , instruction_buffer . into_boxed_slice ( ) , )",
             "function_new_f ( clone_name ( & current_function_name ) , instruction_buffer )", why="Function::new: name and instruction list (the back reference to the file is dropped)"),
        Rule("R6", "split_string ( String :: from_utf8_lossy ( args ) . as_ref ( ) ) ?", "split_args ( & args ) ?", why="argument splitter: own obligations (c04_codec)"),
        Rule("R1", "Box :: new ( [ ] )", "args_none ( )", why="empty argument list"),
        Rule("R1", "let pos = reader . stream_position ( ) ? ;", "", why="position only feeds the panic message"),
        Rule("R8", "panic ! ( $$a )", "vpanic ( ) ; return Err ( VErr ) ;", why="panic! on a malformed record: excluded by the precondition (every record is one the writer emits)"),
        Rule("R9", "functions . entry ( $k ) . or_insert ( $v ) ;", "functions . insert_if_absent ( $k , $v ) ;", why="HashMap::entry().or_insert(): keeps an existing entry"),
    ]
    bi = translate(inner, body_rules, log, "get_functions[loop body]")
    frame_rules = [
        Rule("R1", "let path = self . path ( ) ;", "", why="the path only names the file to open"),
        Rule("R6", "BufReader :: new ( File :: open ( & * path ) . with_context ( $$c ) ? , )", "open_reader ( file ) ?", why="File::open + BufReader::new: a reader over the file's bytes (ghost), or an error"),
        Rule("R9", "HashMap < String , Function >", "FnMap", why="HashMap<String, Function>: abstract map keyed by the bytes of the name"),
        Rule("R9", "HashMap :: new ( )", "FnMap :: new ( )", why="empty map"),
        Rule("R9", "Option < String >", "Option < NameV >", why="String -> NameV"),
        Rule("R6", "Functions :: new ( $$m )", "$$m", why="Functions::new wraps the map"),
    ]
    bpre = translate(pre, frame_rules, log, "get_functions[prologue]")
    bpost = translate(post, frame_rules, log, "get_functions[epilogue]")
    log.append(("R13", "while let Ok(size) = reader.read_until(0x00, &mut buffer) { BODY }", "loop { let size = match reader.read_until(0x00, &mut buffer) { Ok(size) => size, Err(_) => { break; } }; BODY }", "while-let loop -> loop + match + break, with the loop invariant"))
    for b in (bi, bpre, bpost):
        check_closed(b, "get_functions")
    gen = header(log, f"{FILE}: MScriptFile::get_functions (whole function, with its record loop)") + SPEC + LOOP_SPEC + f"""
//@ OBL C04.loader.loop
pub fn get_functions(file: &FileV) -> (r: Result<FnMap, VErr>)
    requires
        !io_error(*file),                                // assumption: the file opens and no read fails (`while let Ok(..)`: an I/O error ends loading silently)
        file_ok(file_bytes(*file), false),               // R8
    ensures
        // the loaded functions are those the records of the file say, taken in order from the first byte to the last: nothing skipped, nothing read twice,
        // loading fails exactly when a name is not UTF-8 or an argument list cannot be split
        r is Ok <==> load(file_bytes(*file), init_state()) is Some,
        r is Ok ==> fmap(r->Ok_0) =~= load(file_bytes(*file), init_state())->Some_0.fns,
{{
{render(bpre, 1)}
    assert({ABS} =~= init_state());
    loop
        invariant
            !io_error(*file), src(reader) == *file, buffer@.len() == 0, in_function ==> current_function_name is Some,
            file_ok(rest(reader), in_function),
            load(file_bytes(*file), init_state()) == load(rest(reader), {ABS}),
        ensures rest(reader).len() == 0,
        decreases rest(reader).len(),
    {{
        let ghost rest0 = rest(reader); let ghost abs0 = {ABS};
        let size = match reader.read_until(0x00, &mut buffer) {{ Ok(size) => size, Err(_) => {{ break; }} }};
        proof {{ lemma_first_record(rest0, 0); assert(buffer@ =~= first_record(rest0, 0)); if size == 0 {{ assert(rest(reader) =~= rest0); }} }}
{render(bi, 2)}
        proof {{ assert(step(abs0, first_record(rest0, 0)) is Some); assert({ABS} =~= step(abs0, first_record(rest0, 0))->Some_0); }}
    }}
{render(bpost, 1)}
}}
}} // verus!
fn main() {{}}
"""
    return gen, [Obl("C04.loader.loop", ["C04", "C18"], fn="MScriptFile::get_functions", desc="get_functions, whole: the loaded functions are the fold of the record step over the records of the file from first byte to last; fails exactly on a non-UTF-8 name or unsplittable arguments")], log


UNITS = [VUnit("c04_loader", ["C04", "C18"], "the file loader: what each record of a .mmm file becomes", build)]
UNITS.append(VUnit("c04_loader_loop", ["C04", "C18"], "the file loader: the loop over the records of a .mmm file", build_loop))
UNITS[1].assumes = ["std contracts assumed: File::open / BufReader (a reader over the file bytes), BufRead::read_until (doc), String::from_utf8, HashMap::new / insert", "precondition: no read of the file fails (an I/O error ends loading silently: not covered) and every record is one the writer emits in that place (a malformed record panics the loader)", "split_string, Function::new: abstract callees"]
UNITS[0].assumes = ["fragment: the body of the record loop; the loop itself (`while let Ok(size) = reader.read_until(0, &mut buffer)`: one record per iteration, an I/O error ends the loop) and Functions::new are not under contract",
                    "precondition: every record is one the writer emits in that place (a malformed record panics the loader -- not covered)", "String::from_utf8, split_string (own obligations), HashMap::insert: assumed contracts"]

"""C10: `type NAME T` (Parser::type_alias, compiler/src/ast/type.rs).  When T is a class the declaration also binds NAME as a variable (a second
name for the class).  That binding is a write form: it must not take the place of a name that already exists in the function -- a `const` in
particular -- and what it binds is, like a class name, a constant.  The registration is an abstract callee that REQUIRES both."""
from vlib.rules import *

FILE = "compiler/src/ast/type.rs"

SPEC = r"""
pub struct Ident { pub name: VStr, pub ty: Option<TypeLayout>, pub read_only: bool }
impl Ident {
    pub fn mark_const(&mut self) ensures final(self).read_only, final(self).name == old(self).name, final(self).ty == old(self).ty { self.read_only = true; }     // obligation C10.ident.mark_const
    #[verifier::external_body] pub fn name(&self) -> (r: &VStr) ensures *r == self.name { unimplemented!() }
    #[verifier::external_body] pub fn boxed_name(&self) -> (r: VStr) ensures r == self.name { unimplemented!() }
}
#[verifier::external_body] pub fn parse_ident(n: Node) -> (r: Result<Ident, VErr>) ensures r is Ok ==> str_view(&r->Ok_0.name) == node_text(&n) && r->Ok_0.ty is None && !r->Ok_0.read_only { unimplemented!() }
pub uninterp spec fn lookup_in_function(n: &Node, name: Seq<char>) -> Option<Ident>;
#[verifier::external_body] pub fn has_name_been_mapped_in_function(n: &Node, name: &VStr) -> (r: Option<Ident>) ensures r == lookup_in_function(n, str_view(name)) { unimplemented!() }
pub uninterp spec fn lookup_local(n: &Node, name: Seq<char>) -> Option<Ident>;
#[verifier::external_body] pub fn get_ident_from_name_local(n: &Node, name: &VStr) -> (r: Option<Ident>) ensures r == lookup_local(n, str_view(name)) { unimplemented!() }
pub uninterp spec fn ty_is_optional(t: TypeLayout) -> bool;
pub uninterp spec fn ty_is_class(t: TypeLayout) -> bool;
#[verifier::external_body] pub fn is_optional0(t: &TypeLayout) -> (r: bool) ensures r == ty_is_optional(*t) { unimplemented!() }
#[verifier::external_body] pub fn is_class(t: &TypeLayout) -> (r: bool) ensures r == ty_is_class(*t) { unimplemented!() }
#[verifier::external_body] pub fn clone_ty(t: &TypeLayout) -> (r: TypeLayout) ensures r == *t { unimplemented!() }
#[verifier::external_body] pub fn alias_of(name: &VStr, t: TypeLayout) -> (r: TypeLayout) { unimplemented!() }
#[verifier::external_body] pub fn add_type(n: &Node, name: VStr, t: &TypeLayout) { unimplemented!() }
#[verifier::external_body] pub fn add_export_type(n: &Node, name: &VStr, t: &TypeLayout) { unimplemented!() }
// the registration that makes NAME a variable of the enclosing scope
#[verifier::external_body] pub fn link_alias_ident(i: &mut Ident, n: &Node, t: TypeLayout) -> (r: Result<(), VErr>)
    requires old(i).read_only,                                                          // C10: a name for a class is a constant
             lookup_in_function(n, str_view(&old(i).name)) is None,                    // C10: it does not replace an existing (possibly const) name
    ensures final(i).name == old(i).name, final(i).read_only == old(i).read_only { unimplemented!() }
#[derive(PartialEq, Eq, Structural, Clone, Copy)]
pub enum RuleK { ident, other }
pub uninterp spec fn rule_of(n: &Node) -> RuleK;
#[verifier::external_body] pub fn as_rule(n: &Node) -> (r: RuleK) ensures r == rule_of(n) { unimplemented!() }
pub struct TypeAlias;
"""


def build(repo):
    src = Source(repo)
    log = []
    f = src.fn(FILE, "type_alias", "impl Parser")
    b = translate(f["body"], parser_idioms() + [
        Rule("R6", "input . children ( )", "children ( & input )", why="pest API abstract"),
        Rule("R8", "children . next ( ) . unwrap ( )", "unwrap_node ( children . next ( ) )", why="unwrap on a child: grammar child count (R8)"),
        Rule("R6", "maybe_ident_node . as_rule ( ) == Rule :: ident", "as_rule ( & maybe_ident_node ) == RuleK :: ident", why="pest rule test abstract"),
        Rule("R1", "let ty_span = ty_node . as_span ( ) ;", "", why="span only feeds a diagnostic"),
        Rule("R1", "let ident_span = ident_node . as_span ( ) ;", "", why="span only feeds a diagnostic"),
        Rule("R6", "Self :: ident ( ident_node ) ?", "parse_ident ( ident_node ) ?", why="sub-parser abstract"),
        Rule("R6", "Self :: r#type ( ty_node ) ?", "parse_type ( ty_node ) ?", why="sub-parser abstract"),
        Rule("R6", "real_ty . is_optional ( ) . 0", "is_optional0 ( & real_ty )", why="type predicate abstract"),
        Rule("R6", "real_ty . is_class ( )", "is_class ( & real_ty )", why="type predicate abstract"),
        Rule("R3", "return Err ( new_err ( $$a ) ) ;", "return Err ( VErr ) ;", why="diagnostic construction dropped (that a diagnostic IS returned is kept)"),
        Rule("R6", "input . user_data ( ) . has_name_been_mapped_in_function ( ident . name ( ) )", "has_name_been_mapped_in_function ( & input , ident . name ( ) )", why="scope lookup abstract"),
        Rule("R6", "input . user_data ( ) . get_ident_from_name_local ( ident . name ( ) )", "get_ident_from_name_local ( & input , ident . name ( ) )", why="scope lookup abstract (innermost scope only)"),
        Rule("R6", "ident . link_force_no_inherit ( input . user_data ( ) , real_ty . clone ( ) ) ? ;", "link_alias_ident ( & mut ident , & input , clone_ty ( & real_ty ) ) ? ;", why="registration of NAME as a variable: abstract callee that requires a constant and a free name"),
        Rule("R1", "TypeLayout :: Alias ( ident . name ( ) . to_owned ( ) , Box :: new ( real_ty ) )", "alias_of ( ident . name ( ) , real_ty )", why="alias type constructor abstract"),
        Rule("R6", "input . user_data ( ) . add_type ( ident . boxed_name ( ) , Cow :: Owned ( ty . clone ( ) ) ) ;", "add_type ( & input , ident . boxed_name ( ) , & ty ) ;", why="type registry abstract"),
        Rule("R6", "input . user_data ( ) . get_export_ref ( ) . add_type ( ident . name ( ) . to_owned ( ) , Cow :: Owned ( ty . clone ( ) ) ) ;", "add_export_type ( & input , ident . name ( ) , & ty ) ;", why="export registry abstract"),
    ], log, "Parser::type_alias")
    check_closed(b, "Parser::type_alias")
    gen = header(log, f"{FILE}: Parser::type_alias") + prelude("parser.rs") + SPEC + f"""
//@ OBL C10.type_alias.binding
pub fn type_alias(input: Node) -> (r: Result<TypeAlias, VErr>)
    requires node_children(&input).len() >= 3          // grammar: type_alias = {{ export? ~ ident ~ type }} -- the longer form has 3 children
{{
{render(b, 1)}
}}
}} // verus!
fn main() {{}}
"""
    return gen, [Obl("C10.type_alias.binding", ["C10"], fn="Parser::type_alias", desc="Parser::type_alias: when the alias of a class also binds NAME as a variable, NAME is free in the function (no const is replaced) and the binding is a constant")], log


UNITS = [VUnit("c10_type_alias", ["C10"], "`type NAME Class`: the variable it binds is a constant and replaces nothing", build)]
UNITS[0].assumes = ["pest API, sub-parsers, type registries abstract; the registration is an abstract callee whose PRECONDITION is the const flag and a free name", "child count from the grammar"]

"""C08 / C02: `obj.name(args)` -- Parser::dot_chain_option (compiler/src/ast/dot_lookup.rs), the part of the `dot_function_call` arm that decides
whether the receiver is handed to the callee as `self`.  A METHOD called on an object reads and updates the fields of that object: it gets
the object as `self`.  A FIELD that holds a function value is not a method: `a.cb(4)` with `cb: fn(int) -> int` calls that function with
the arguments as written -- handing the object over as an extra first argument makes the callee compute with an object where it expects
its parameter (`<Object * Int> is invalid`: D113).  A member of a module is called without a receiver.  The code generated for the two
shapes is unit c08_dot_call; which shape is chosen is decided here."""
from vlib.rules import *
from vlib.pattern import Pat

FILE = "compiler/src/ast/dot_lookup.rs"

SPEC = r"""
use vstd::prelude::*;
verus! {
pub struct VErr;
#[verifier::external_body] pub struct Node { x: usize }
#[verifier::external_body] pub struct VStr { x: usize }
#[verifier::external_body] pub struct TypeLayout { x: usize }
#[verifier::external_body] pub struct ModuleType { x: usize }
#[verifier::external_body] pub struct Ident { x: usize }
#[verifier::external_body] pub struct FunctionType { x: usize }
#[verifier::external_body] pub struct FunctionArguments { x: usize }
pub uninterp spec fn is_module(t: &TypeLayout) -> bool;
pub uninterp spec fn is_method(f: &FunctionType) -> bool;            // FunctionType::is_associated_fn: declared with `self` (class methods, built-in methods)
pub uninterp spec fn is_ctor(f: &FunctionType) -> bool;
#[verifier::external_body] pub fn as_module(t: &TypeLayout) -> (r: Option<ModuleType>) ensures r is Some <==> is_module(t), r is Some ==> module_of(&r->Some_0) == *t, !is_module(t) ==> (forall|n: &VStr| !module_member(t, n)) { unimplemented!() }
#[verifier::external_body] pub fn ty_clone(t: &TypeLayout) -> (r: TypeLayout) { unimplemented!() }
#[verifier::external_body] pub fn fn_layout(f: FunctionType) -> (r: TypeLayout) { unimplemented!() }
#[verifier::external_body] pub fn callable_of(t: &TypeLayout, n: &Node) -> (r: Result<FunctionType, VErr>) { unimplemented!() }
#[verifier::external_body] pub fn ident_ty_of(i: &Ident) -> (r: TypeLayout) { unimplemented!() }
pub uninterp spec fn module_member(t: &TypeLayout, name: &VStr) -> bool;       // t is a module and exports `name`
pub uninterp spec fn module_of(m: &ModuleType) -> TypeLayout;
impl ModuleType { #[verifier::external_body] pub fn get_property(&self, name: &VStr) -> (r: Option<Ident>) ensures r is Some <==> module_member(&module_of(self), name) { unimplemented!() } }
impl TypeLayout { #[verifier::external_body] pub fn is_class(&self) -> (r: bool) { unimplemented!() } }
impl FunctionType {
    #[verifier::external_body] pub fn is_associated_fn(&self) -> (r: bool) ensures r == is_method(self) { unimplemented!() }
    #[verifier::external_body] pub fn is_constructor(&self) -> (r: bool) ensures r == is_ctor(self) { unimplemented!() }
}
// Parser::function_arguments: the argument list checked against the parameters; with a self type the first parameter is the receiver's (obligations C03.args.*)
pub uninterp spec fn args_checked_with_self(a: &FunctionArguments) -> bool;
#[verifier::external_body] pub fn function_arguments(n: Node, f: &FunctionType, self_ty: Option<&TypeLayout>) -> (r: Result<FunctionArguments, VErr>)
    ensures r is Ok ==> args_checked_with_self(&r->Ok_0) == (self_ty is Some) { unimplemented!() }
pub enum DotLookupOption { Name { name: VStr }, FunctionCall { function_name: VStr, arguments: FunctionArguments, assume_self_is_on_top: bool } }
"""


def build(repo):
    src = Source(repo)
    log = []
    f = src.fn(FILE, "dot_chain_option", "impl Parser")
    body = list(f["body"])
    p0 = Pat("let mut allow_self_type = $$e ;")
    a = next((i for i in range(len(body)) if p0.match_at(body, i)), None)
    p1 = Pat("let lookup_type = DotLookupOption :: FunctionCall { $$f } ;")
    z = None
    for i in range(a or 0, len(body)):
        r = p1.match_at(body, i)
        if r:
            z = r[0]; break
    if a is None or z is None:
        raise Undecided(f"{FILE}: the receiver decision of dot_chain_option (`let mut allow_self_type = ..;` .. `let lookup_type = DotLookupOption::FunctionCall {{..}};`) not found")
    frag = body[a:z]
    log.append(("R0", "Parser::dot_chain_option, arm Rule::dot_function_call", "from `let mut allow_self_type` to `let lookup_type = DotLookupOption::FunctionCall { .. };`", "fragment: the member's function type, the receiver's type, the member name and the argument node are parameters"))
    b = translate(frag, [
        Rule("R1", "Cow :: Borrowed ( lhs_ty )", "ty_clone ( lhs_ty )", why="Cow of the receiver's type"),
        Rule("R1", "Cow :: Owned ( $$e )", "$$e", why="Cow::Owned -> the value"),
        Rule("R9", "if let TypeLayout :: Module ( module_type ) = lhs_ty {", "if let Some ( module_type ) = as_module ( lhs_ty ) {", why="variant test on the receiver's type: is it a module"),
        Rule("R8", "ident . ty ( ) . expect ( $m )", "ident_ty_of ( & ident )", why="the exported identifier's type"),
        Rule("R1", "ident_ty . clone ( ) . into_owned ( )", "ty_clone ( & ident_ty )", why="copy of a type"),
        Rule("R6", "ident_ty . is_callable_allow_class ( true ) . details ( $$a ) . to_err_vec ( ) ?", "callable_of ( & ident_ty , & input ) ?", why="the member's function type, or a diagnostic"),
        Rule("R1", "TypeLayout :: Function ( callable_ty . into_owned ( ) )", "fn_layout ( callable_ty )", why="TypeLayout::Function(..)"),
        Rule("R6", "Self :: function_arguments ( arguments , function_type . parameters ( ) , $$e , ) ?", "function_arguments ( arguments , function_type , $$e ) ?", why="Parser::function_arguments: abstract (obligations C03.args.*); whether it is given a self type is kept"),
        Rule("R6", "Self :: function_arguments ( arguments , function_type . parameters ( ) , $$e ) ?", "function_arguments ( arguments , function_type , $$e ) ?", why="Parser::function_arguments: abstract"),
        Rule("R1", "allow_self_type . as_ref ( )", "& allow_self_type", why="Cow::as_ref"),
    ], log, "dot_chain_option[receiver]")
    check_closed(b, "dot_chain_option[receiver]")
    gen = header(log, f"{FILE}: Parser::dot_chain_option, arm dot_function_call (is the receiver handed over as `self`)") + SPEC + f"""
//@ OBL C08.member-call.self-iff-method
pub fn member_call(input: Node, lhs_ty: &TypeLayout, function_type: &FunctionType, ident_str: VStr, arguments: Node) -> (r: Result<DotLookupOption, VErr>)
    ensures r is Ok ==> r->Ok_0 is FunctionCall && r->Ok_0->function_name == ident_str && ({{ let with_self = r->Ok_0->assume_self_is_on_top;
        // the argument list was checked with a receiver exactly when one is passed
        &&& args_checked_with_self(&r->Ok_0->arguments) == with_self
        // a module's own member (an exported function or class) is called without a receiver
        &&& (module_member(lhs_ty, &ident_str) ==> !with_self)
        // anything else: a method (of a class, or a built-in one of the value) gets the receiver as `self`; a field that merely holds a function value does not
        &&& (!module_member(lhs_ty, &ident_str) && is_method(function_type) ==> with_self)
        &&& (!is_method(function_type) && !is_ctor(function_type) ==> !with_self) }}),
{{
{render(b, 1)}
    Ok(lookup_type)
}}
}} // verus!
fn main() {{}}
"""
    return gen, [Obl("C08.member-call.self-iff-method", ["C08", "C02"], fn="Parser::dot_chain_option[dot_function_call]",
                     desc="`x.name(args)`: the receiver is handed over as `self` for a method (an associated function), not for a field that holds a function value, never for a module's member; the arguments are checked accordingly")], log


UNITS = [VUnit("c08_member_self", ["C08", "C02"], "a member call passes the receiver as self exactly for methods", build)]
UNITS[0].assumes = ["fragment of the dot_function_call arm of Parser::dot_chain_option; the property lookup in front of it and the result type behind it are not under contract here",
                    "FunctionType::is_associated_fn is taken as the definition of `method` (set by Parser::class_bound_function and the built-in method tables; a declared `fn(..)` type has it false)",
                    "Parser::function_arguments abstract (its own obligations C03.args.*)"]

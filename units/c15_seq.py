"""C15: list literals, map literals and call arguments -- elements / pairs / arguments are compiled left to right, each exactly once, and
the registers that hold the collection under construction / the already evaluated arguments are not written by the code of later siblings."""
from vlib.rules import *

LIST = "compiler/src/ast/list.rs"
MAP = "compiler/src/ast/map.rs"
CALL = "compiler/src/ast/callable.rs"

SPEC = r"""
#[verifier::external_body] pub fn strlit_vs(s: &'static str) -> (r: VString) ensures text_of(&r) == s@ { unimplemented!() }
#[verifier::external_body] pub struct Reg { x: usize }
pub uninterp spec fn reg_id(r: &Reg) -> int;
pub uninterp spec fn reg_owned(r: &Reg) -> bool;
pub uninterp spec fn is_reg_arg(s: &VString) -> bool;       // the argument text is a temporary register `#k`
impl ToVs for Reg {
    open spec fn as_num(&self) -> int { reg_id(self) }
    open spec fn as_text(&self) -> Seq<char> { dec_text(reg_id(self)) }
    #[verifier::external_body] fn to_vs(&self) -> (r: VString) ensures is_reg_arg(&r) { unimplemented!() }
}
impl ToVs for VString {
    open spec fn as_num(&self) -> int { num_of(self) }
    open spec fn as_text(&self) -> Seq<char> { text_of(self) }
    #[verifier::external_body] fn to_vs(&self) -> (r: VString) ensures r == *self { unimplemented!() }
}
#[verifier::external_body] pub struct State { x: usize }
pub uninterp spec fn count(s: &State) -> int;                // temporary_register_c
#[verifier::external_body] pub fn poll_temporary_register(s: &mut State) -> (r: Reg)
    ensures reg_id(&r) == count(old(s)), reg_owned(&r), count(final(s)) == count(old(s)) + 1 { unimplemented!() }
#[verifier::external_body] pub fn free_temporary_register(s: &mut State, r: Reg)
    requires count(old(s)) >= 1 ensures count(final(s)) == count(old(s)) - 1 { unimplemented!() }
// unsafe: a register that is not released on drop; the caller frees it with free_many_temporary_registers
#[verifier::external_body] pub fn poll_temporary_register_ghost(s: &mut State) -> (r: Reg)
    ensures reg_id(&r) == count(old(s)), !reg_owned(&r), count(final(s)) == count(old(s)) + 1 { unimplemented!() }
#[verifier::external_body] pub fn new_ghost_register(id: usize) -> (r: Reg) ensures reg_id(&r) == id, !reg_owned(&r) { unimplemented!() }
#[verifier::external_body] pub fn free_many_temporary_registers(s: &mut State, n: usize)
    requires n <= count(old(s)) ensures count(final(s)) == count(old(s)) - n { unimplemented!() }
#[verifier::external_body] pub fn reg_id_of(r: &Reg) -> (i: usize) ensures i == reg_id(r) { unimplemented!() }

// the register an instruction writes
pub open spec fn reg_write(it: CompiledItem) -> Option<int> {
    if (is_instr(it, STORE_FAST) || is_instr(it, STORE_SKIP)) && nargs(it) >= 1 && is_reg_arg(&it->arguments@[0]) { Some(argn(it, 0)) } else { None }
}
// code compiled while the counter was c writes only registers handed out later
pub open spec fn writes_ge(out: Seq<CompiledItem>, c: int) -> bool {
    forall|i: int| 0 <= i < out.len() ==> (#[trigger] reg_write(out[i]) is Some ==> reg_write(out[i])->Some_0 >= c)
}
// a child expression (element, key, value, argument): arbitrary code; the register frame contract of compile_depth (C15.binop.layout)
#[verifier::external_body] pub struct ValueV { x: usize }
#[verifier::external_body]
pub fn compile_value(v: &ValueV, s: &mut State) -> (r: Result<Vec<CompiledItem>, VErr>)
    ensures count(final(s)) == count(old(s)), r is Ok ==> writes_ge(r->Ok_0@, count(old(s)))
{ unimplemented!() }

pub open spec fn flat(parts: Seq<Seq<CompiledItem>>) -> Seq<CompiledItem> decreases parts.len() {
    if parts.len() == 0 { Seq::<CompiledItem>::empty() } else { flat(parts.drop_last()) + parts.last() }
}
pub proof fn lemma_flat_push(parts: Seq<Seq<CompiledItem>>, p: Seq<CompiledItem>)
    ensures flat(parts.push(p)) == flat(parts) + p
{ assert(parts.push(p).drop_last() =~= parts); }
"""

LIST_SPEC = r"""
pub struct List { pub values: Vec<ValueV> }
pub uninterp spec fn plus_reg(r: int) -> Seq<char>;               // "+" followed by the register's text
#[verifier::external_body] pub fn plus_reg_text(r: &Reg) -> (s: VString) ensures text_of(&s) == plus_reg(reg_id(r)), !is_reg_arg(&s) { unimplemented!() }
// one element: its code, then `vec_op +R` appending the value to the list held in register R
pub open spec fn list_elem(code: Seq<CompiledItem>, r: int) -> Seq<CompiledItem> { code.push(vec_op_item(r)) }
pub open spec fn is_vec_op_push(it: CompiledItem, r: int) -> bool { is_instr(it, VEC_OP) && nargs(it) == 1 && argt(it, 0) == plus_reg(r) }
pub uninterp spec fn vec_op_item(r: int) -> CompiledItem;
// out = [make_vector n, store_fast R] ++ (code_0 ++ [vec_op +R]) ++ .. ++ (code_{n-1} ++ [vec_op +R]) ++ [delete_name_reference_scoped R]
pub open spec fn list_layout(out: Seq<CompiledItem>, codes: Seq<Seq<CompiledItem>>, r: int, n: int) -> bool {
    &&& codes.len() == n
    &&& out.len() == 2 + flat(codes).len() + n + 1
    &&& is_instr(out[0], MAKE_VECTOR) && nargs(out[0]) == 1 && argn(out[0], 0) == n
    &&& is_instr(out[1], STORE_FAST) && nargs(out[1]) == 1 && argn(out[1], 0) == r && is_reg_arg(&out[1]->arguments@[0])
    &&& is_instr(out.last(), DELETE_NAME_REFERENCE_SCOPED) && argn(out.last(), 0) == r
    // the list register is not written by the code of any element
    &&& forall|i: int| 0 <= i < n ==> writes_ge(#[trigger] codes[i], r + 1)
}
"""

MAP_SPEC = r"""
pub struct MapInitializer { pub map: Vec<(ValueV, ValueV)> }
pub struct Map { pub initializer: MapInitializer }
pub fn vec1(a: CompiledItem) -> (r: Vec<CompiledItem>) ensures r@ == seq![a] { let mut v = Vec::new(); v.push(a); v }
pub open spec fn is_store_reg(it: CompiledItem, r: int) -> bool { is_instr(it, STORE_FAST) && nargs(it) == 1 && argn(it, 0) == r && is_reg_arg(&it->arguments@[0]) }
pub open spec fn is_map_insert(it: CompiledItem, m: int, k: int) -> bool { is_instr(it, FAST_MAP_INSERT) && nargs(it) == 2 && argn(it, 0) == m && argn(it, 1) == k }
// the pair part built so far: concatenation of (keycode_i ++ [store_fast K] ++ valcode_i ++ [fast_map_insert M K])
pub open spec fn pairs_ok(seg: Seq<CompiledItem>, ks: Seq<Seq<CompiledItem>>, vs: Seq<Seq<CompiledItem>>, m: int, k: int) -> bool decreases ks.len() {
    if ks.len() == 0 { seg.len() == 0 && vs.len() == 0 } else {
        let kc = ks.last(); let vc = vs.last(); let n = kc.len() + 1 + vc.len() + 1;
        &&& vs.len() == ks.len() && seg.len() >= n
        &&& seg.subrange(seg.len() - n, seg.len() - n + kc.len()) == kc                 // the key's code, once, first
        &&& is_store_reg(seg[seg.len() - n + kc.len()], k)                                // the key is saved in K
        &&& seg.subrange(seg.len() - vc.len() - 1, seg.len() - 1) == vc                   // then the value's code, once
        &&& is_map_insert(seg.last(), m, k)                                               // then the pair is inserted into the map in M
        &&& pairs_ok(seg.subrange(0, seg.len() - n), ks.drop_last(), vs.drop_last(), m, k)
    }
}
pub open spec fn map_shape(out: Seq<CompiledItem>, ks: Seq<Seq<CompiledItem>>, vs: Seq<Seq<CompiledItem>>, m: int, k: int, c0: int) -> bool {
    &&& out.len() >= 3 && m != k && c0 <= m < c0 + 2 && c0 <= k < c0 + 2 && ks.len() == vs.len()
    &&& is_store_reg(out[1], m)
    &&& is_instr(out.last(), LOAD_FAST) && nargs(out.last()) == 1 && argn(out.last(), 0) == m
    &&& pairs_ok(out.subrange(2, out.len() - 1), ks, vs, m, k)
    &&& (forall|i: int| 0 <= i < ks.len() ==> writes_ge(#[trigger] ks[i], c0 + 2))
    &&& (forall|i: int| 0 <= i < vs.len() ==> writes_ge(#[trigger] vs[i], c0 + 2))
}
pub proof fn lemma_pairs_step(seg: Seq<CompiledItem>, ks: Seq<Seq<CompiledItem>>, vs: Seq<Seq<CompiledItem>>, kc: Seq<CompiledItem>, st: CompiledItem, vc: Seq<CompiledItem>, ins: CompiledItem, m: int, k: int)
    requires pairs_ok(seg, ks, vs, m, k), ks.len() == vs.len(), is_store_reg(st, k), is_map_insert(ins, m, k)
    ensures pairs_ok(seg + kc + seq![st] + vc + seq![ins], ks.push(kc), vs.push(vc), m, k)
{
    let s2 = seg + kc + seq![st] + vc + seq![ins];
    let n = kc.len() + 1 + vc.len() + 1;
    assert(ks.push(kc).drop_last() =~= ks);
    assert(vs.push(vc).drop_last() =~= vs);
    assert(s2.subrange(s2.len() - n, s2.len() - n + kc.len()) =~= kc);
    assert(s2.subrange(s2.len() - vc.len() - 1, s2.len() - 1) =~= vc);
    assert(s2.subrange(0, s2.len() - n) =~= seg);
}
"""

CALL_SPEC = r"""
pub enum CallableDestination { Standard { load_instruction: CompiledItem, self_register: Option<VString> }, ToSelf }
pub struct Callable { pub destination: CallableDestination, pub function_arguments: Vec<ValueV> }       // FunctionArguments(Vec<Value>): iter() is the slice iterator
// `x.compile(state).unwrap()`: the argument's compile result is unwrapped (a compile error here would be a compiler panic: C16, not claimed by this unit)
#[verifier::external_body]
pub fn compile_value_unwrapped(v: &ValueV, s: &mut State) -> (r: Vec<CompiledItem>)
    ensures count(final(s)) == count(old(s)), writes_ge(r@, count(old(s)))
{ unimplemented!() }
pub open spec fn is_load_reg(it: CompiledItem, r: int) -> bool { is_instr(it, LOAD_FAST) && nargs(it) == 1 && argn(it, 0) == r }
// the argument part: concatenation of (code_i ++ [store_fast c0+i])
pub open spec fn args_ok(seg: Seq<CompiledItem>, codes: Seq<Seq<CompiledItem>>, c0: int) -> bool decreases codes.len() {
    if codes.len() == 0 { seg.len() == 0 } else {
        let c = codes.last();
        &&& seg.len() >= c.len() + 1
        &&& seg.subrange(seg.len() - c.len() - 1, seg.len() - 1) == c                 // this argument's code, once
        &&& is_store_reg(seg.last(), c0 + codes.len() - 1)                             // its value is parked in the next consecutive register
        &&& args_ok(seg.subrange(0, seg.len() - c.len() - 1), codes.drop_last(), c0)   // after all earlier arguments
    }
}
pub proof fn lemma_args_step(seg: Seq<CompiledItem>, codes: Seq<Seq<CompiledItem>>, c: Seq<CompiledItem>, st: CompiledItem, c0: int)
    requires args_ok(seg, codes, c0), is_store_reg(st, c0 + codes.len())
    ensures args_ok(seg + c + seq![st], codes.push(c), c0)
{
    let s2 = seg + c + seq![st];
    assert(codes.push(c).drop_last() =~= codes);
    assert(s2.subrange(s2.len() - c.len() - 1, s2.len() - 1) =~= c);
    assert(s2.subrange(0, s2.len() - c.len() - 1) =~= seg);
}
// the end of a call: `call_self`, or [ld_self NAME] LOAD call
pub open spec fn tail_ok(t: Seq<CompiledItem>, d: CallableDestination) -> bool {
    match d {
        CallableDestination::ToSelf => t.len() == 1 && is_instr(t[0], CALL_SELF),
        CallableDestination::Standard { load_instruction, self_register: None } => t.len() == 2 && t[0] == load_instruction && is_instr(t[1], CALL),
        CallableDestination::Standard { load_instruction, self_register: Some(name) } =>
            t.len() == 3 && is_instr(t[0], LD_SELF) && nargs(t[0]) == 1 && t[0]->arguments@[0] == name && t[1] == load_instruction && is_instr(t[2], CALL),
    }
}
pub open spec fn call_post(out: Seq<CompiledItem>, c0: int, n: int, d: CallableDestination) -> bool {
    exists|codes: Seq<Seq<CompiledItem>>, a: int| #[trigger] call_shape(out, codes, a, c0, n) && tail_ok(out.subrange(a + n, out.len() as int), d)
}
// out = args ++ [load_fast c0 .. load_fast c0+n-1] ++ tail
pub open spec fn call_shape(out: Seq<CompiledItem>, codes: Seq<Seq<CompiledItem>>, a: int, c0: int, n: int) -> bool {
    &&& codes.len() == n && 0 <= a && a + n <= out.len()
    &&& args_ok(out.subrange(0, a), codes, c0)
    // argument j's code runs while arguments 0..j-1 are parked in c0..c0+j-1: it writes none of them
    &&& (forall|j: int| 0 <= j < n ==> writes_ge(#[trigger] codes[j], c0 + j))
    // then the parked values are pushed back in argument order
    &&& (forall|i: int| 0 <= i < n ==> is_load_reg(#[trigger] out[a + i], c0 + i))
}
"""


def build(repo):
    src = Source(repo)
    ids = opcode_ids(repo)
    log = []
    # ---------------- List::compile
    fl = src.fn(LIST, "compile", "impl Compile for List")
    inv = ("invariant $K <= $V.len(), count(state) == c0 + 1, codes.len() == $K, "
           "forall|i: int| 0 <= i < $K ==> writes_ge(#[trigger] codes[i], c0 + 1), "
           "result@.len() == 2 + seg.len(), result@.subrange(0, 2) == head, result@.subrange(2, result@.len() as int) == seg, "
           "elems_ok(seg, codes, c0) decreases $V.len() - $K")
    rules_l = [
        Rule("R6", "state . poll_temporary_register ( )", "poll_temporary_register ( state )", why="register allocator abstract"),
        Rule("R6", "state . free_temporary_register ( $r )", "free_temporary_register ( state , $r )", why="register allocator abstract"),
        Rule("R1", "\"+\" . to_owned ( ) + & vec_init_register . to_string ( )", "plus_reg_text ( & vec_init_register )", count=1, why="String concatenation \"+\" ++ register text"),
        r_instruction(ids),
        Rule("R12", "vec ! [ $$a , $$b , ]", "vec2 ( $$a , $$b )", why="vec![a, b]"),
        Rule("R1", "self . values . len ( )", "self . values . len ( )"),
        Rule("R6", "value . compile ( state ) ?", "compile_value ( value , state ) ?", why="child Value::compile abstract (register frame contract)"),
    ]
    bl = translate(fl["body"], rules_l, log, "List::compile")
    def lloop(b):
        r = for_in_vec("l", inv)
        b2 = dict(b); b2["v"] = ["self", ".", "values"] if text(b["v"]).replace(" ", "") == "&self.values" else b["v"]
        return r.repl(b2)
    bl = Rule("R2", "for $x in & self . values { $$body }", lambda b: for_in_vec("l", inv).repl({"x": b["x"], "v": ["self", ".", "values"], "body": b["body"]}), count=1, why="for over &Vec -> indexed while").apply(bl, log)
    bl = Rule("R11", "let mut result = vec2 ( $$a ) ;", ["let mut result = vec2 ( $$a ) ;", G("proof { head = result@; assert(result@.subrange(2, result@.len() as int) =~= seg); }")], count=1, why="").apply(bl, log)
    bl = Rule("R11", "result . append ( & mut value_init ) ;", [G("let ghost vi = value_init@;"), "result . append ( & mut value_init ) ;"], count=1, why="").apply(bl, log)
    bl = Rule("R11", "result . push ( mk_instr ( $$a ) ) ; }", ["result . push ( mk_instr ( $$a ) ) ;",
              G("proof { let ghost old_seg = seg; let ghost old_codes = codes; seg = seg + vi + seq![result@.last()]; codes = codes.push(vi); lemma_elems_step(old_seg, old_codes, vi, result@.last(), c0); "
                "assert(result@.subrange(0, 2) =~= head); assert(result@.subrange(2, result@.len() as int) =~= seg); }"), "}"], why="").apply(bl, log)
    if bl[-4:] != ["Ok", "(", "result", ")"]:
        raise Undecided("List::compile: final `Ok(result)` not found")
    bl = bl[:-4] + [G("proof { assert(result@.subrange(2, result@.len() - 1) =~= seg); assert(result@[0] == head[0] && result@[1] == head[1]); }")] + bl[-4:]
    check_closed(bl, "List::compile")
    txt_l = render(bl, 2)

    # ---------------- Map::compile
    fm = src.fn(MAP, "compile", "impl Compile for Map")
    invm = ("invariant $K <= $V.len(), count(state) == c0 + 2, ks.len() == $K, vs.len() == $K, "
            "forall|i: int| 0 <= i < $K ==> writes_ge(#[trigger] ks[i], c0 + 2), forall|i: int| 0 <= i < $K ==> writes_ge(#[trigger] vs[i], c0 + 2), "
            "result@.len() == 2 + seg.len(), result@.subrange(0, 2) == head, result@.subrange(2, result@.len() as int) == seg, "
            "pairs_ok(seg, ks, vs, gm, gk), gm == reg_id(&map_register), gk == reg_id(&key_register) decreases $V.len() - $K")
    def mloop(b):
        k = "verif_k_m"
        return [f"let mut {k} : usize = 0 ; while {k} < self . initializer . map . len ( )", G(invm.replace("$K", k).replace("$V", "self.initializer.map")),
                "{", f"let {text(b['k'])} = & self . initializer . map [ {k} ] . 0 ; let {text(b['v'])} = & self . initializer . map [ {k} ] . 1 ; {k} += 1 ;", *b["body"], "}"]
    rules_m = [
        Rule("R6", "state . poll_temporary_register ( )", "poll_temporary_register ( state )", why="register allocator abstract"),
        r_instruction(ids),
        Rule("R12", "vec ! [ $$a , $$b , ]", "vec2 ( $$a , $$b )", why="vec![a, b]"),
        Rule("R12", "vec ! [ $$a ]", "vec1 ( $$a )", why="vec![a]"),
        Rule("R6", "key . compile ( state ) ?", "compile_value ( key , state ) ?", why="child Value::compile abstract (register frame contract)"),
        Rule("R6", "value . compile ( state ) ?", "compile_value ( value , state ) ?", why="child Value::compile abstract (register frame contract)"),
        Rule("R2", "for ( $k , $v ) in & self . initializer . map { $$body }", mloop, count=1, why="for over &Vec<(K, V)> -> indexed while"),
        Rule("R13", "result . append ( & mut compile_value ( key , state ) ? ) ;", ["let mut verif_kc = compile_value ( key , state ) ? ;", G("let ghost kc = verif_kc@;"), "result . append ( & mut verif_kc ) ;"], count=1, why="temporary named"),
        Rule("R13", "result . append ( & mut compile_value ( value , state ) ? ) ;", ["let mut verif_vc = compile_value ( value , state ) ? ;", G("let ghost vc = verif_vc@; let ghost st = result@.last();"), "result . append ( & mut verif_vc ) ;"], count=1, why="temporary named"),
    ]
    bm = translate(fm["body"], rules_m, log, "Map::compile")
    bm = Rule("R11", "let mut result = vec2 ( $$a ) ;", ["let mut result = vec2 ( $$a ) ;", G("proof { head = result@; gm = reg_id(&map_register); gk = reg_id(&key_register); assert(result@.subrange(2, result@.len() as int) =~= seg); }")], count=1, why="").apply(bm, log)
    bm = Rule("R11", "result . push ( mk_instr ( $$a ) ) ; }", ["result . push ( mk_instr ( $$a ) ) ;",
              G("proof { let ghost old_seg = seg; let ghost oks = ks; let ghost ovs = vs; seg = seg + kc + seq![st] + vc + seq![result@.last()]; ks = ks.push(kc); vs = vs.push(vc); "
                "lemma_pairs_step(old_seg, oks, ovs, kc, st, vc, result@.last(), gm, gk); "
                "assert(result@.subrange(0, 2) =~= head); assert(result@.subrange(2, result@.len() as int) =~= seg); }"), "}"], count=1, why="").apply(bm, log)
    bm = Rule("R11", "result } )", [G("proof { assert(result@.subrange(2, result@.len() - 1) =~= seg); assert(result@[0] == head[0] && result@[1] == head[1]); "
              "assert(is_store_reg(result@[1], gm)); assert(is_instr(result@.last(), LOAD_FAST)); assert(pairs_ok(result@.subrange(2, result@.len() - 1), ks, vs, gm, gk)); assert(map_shape(result@, ks, vs, gm, gk, c0)); assert(is_instr(result@[0], MAKE_MAP) && nargs(result@[0]) == 1 && argn(result@[0], 0) == self.initializer.map@.len()); assert(ks.len() == self.initializer.map@.len()); }"), "result } )"], count=1, why="").apply(bm, log)
    check_closed(bm, "Map::compile")
    txt_m = render(bm, 2)

    # ---------------- Callable::compile
    fc = src.fn(CALL, "compile", "impl Compile for Callable < '_ >")
    invc = ("invariant verif_k_c <= self.function_arguments.len(), count(state) == c0 + verif_k_c, codes.len() == verif_k_c, register_count == verif_k_c, "
            "register_start == (if verif_k_c == 0 { None::<usize> } else { Some(c0 as usize) }), "
            "forall|j: int| 0 <= j < verif_k_c ==> writes_ge(#[trigger] codes[j], c0 + j), args_init@ == seg, args_ok(seg, codes, c0) "
            "decreases self.function_arguments.len() - verif_k_c")
    def flat_map(b):
        n, x = text(b["n"]), text(b["x"])
        return [f"let mut {n} : Vec < CompiledItem > = Vec :: new ( ) ;", "let mut verif_k_c : usize = 0 ; while verif_k_c < self . function_arguments . len ( )", G(invc),
                "{", f"let {x} = & self . function_arguments [ verif_k_c ] ; verif_k_c += 1 ; let mut verif_chunk = {{", *b["body"], "} ;",
                G("proof { let ghost oseg = seg; let ghost ocodes = codes; seg = seg + vi + seq![verif_chunk@.last()]; codes = codes.push(vi); lemma_args_step(oseg, ocodes, vi, verif_chunk@.last(), c0); "
                  "assert(verif_chunk@ =~= vi + seq![verif_chunk@.last()]); }"),
                f"{n} . append ( & mut verif_chunk ) ;", "}"]
    invl = ("invariant reg_lo <= register_idx <= reg_hi, reg_lo == c0, reg_hi == c0 + nargs_g, count(state) == c0 + nargs_g, codes.len() == nargs_g, "
            "args_init@.len() == seg.len() + (register_idx - reg_lo), args_init@.subrange(0, seg.len() as int) == seg, "
            "forall|i: int| 0 <= i < register_idx - reg_lo ==> is_load_reg(#[trigger] args_init@[seg.len() + i], c0 + i) decreases reg_hi - register_idx")
    def range_loop(b):
        i = text(b["i"])
        return [f"let reg_lo = {text(b['lo'])} ; let reg_hi = {text(b['hi'])} ; let mut {i} = reg_lo ; while {i} < reg_hi", G(invl), "{", *b["body"],
                G("proof { assert(args_init@.subrange(0, seg.len() as int) =~= seg); }"), f"{i} += 1 ;", "}"]
    rules_c = [
        Rule("R9", "# [ cfg ( feature = \"debug\" ) ] { $$b }", "", why="cfg(feature = \"debug\") is off in the default build: block not compiled"),
        Rule("R1", "unsafe { $$e }", "{ $$e }", why="unsafe block marker dropped: the callee's contract carries what the caller must guarantee"),
        Rule("R2", "let mut $n : Vec < CompiledItem > = self . function_arguments . iter ( ) . flat_map ( | $x | { $$body } ) . collect ( ) ;", flat_map, count=1,
             why="iter().flat_map(f).collect(): the closure's results concatenated in iteration order (closure run once per item)"),
        Rule("R8", "x . compile ( state ) . unwrap ( )", "compile_value_unwrapped ( x , state )", count=1, why="child Value::compile abstract; unwrap() of its result: see the callee's note"),
        Rule("R6", "state . poll_temporary_register_ghost ( )", "poll_temporary_register_ghost ( state )", why="register allocator abstract"),
        Rule("R6", "state . free_many_temporary_registers ( $$a )", "free_many_temporary_registers ( state , $$a )", why="register allocator abstract"),
        Rule("R6", "TemporaryRegister :: new_ghost_register ( $$a )", "new_ghost_register ( $$a )", why="ghost register constructor"),
        Rule("R1", "argument_register . id", "reg_id_of ( & argument_register )", why="TemporaryRegister.id field"),
        r_instruction(ids),
        Rule("R2", "for $i in $lo .. $$hi { $$body }", range_loop, count=1, why="for over a range -> counted while"),
        Rule("R1", "load_instruction . clone ( )", "clone_item ( load_instruction )", why="CompiledItem::clone"),
    ]
    bc = translate(fc["body"], rules_c, log, "Callable::compile")
    bc = Rule("R11", "value_init . push ( mk_instr ( $$a ) ) ;", [G("proof { vi = value_init@; }"), "value_init . push ( mk_instr ( $$a ) ) ;"], count=1, why="").apply(bc, log)
    bc = Rule("R11", "if let Some ( register_start ) = register_start {", [G("let ghost nargs_g: int = self.function_arguments@.len() as int; proof { assert(args_init@.subrange(0, seg.len() as int) =~= seg); }"), "if let Some ( register_start ) = register_start {"], count=1, why="").apply(bc, log)
    bc = Rule("R11", "free_many_temporary_registers ( state , $$n ) ;", ["free_many_temporary_registers ( state , $$n ) ;",
              G("proof { assert(args_init@.subrange(0, seg.len() as int) =~= seg); assert(call_shape(args_init@, codes, seg.len() as int, c0, nargs_g)); }")], count=1, why="").apply(bc, log)
    exit_hint = G("proof { assert(args_init@.subrange(0, (seg.len() as int)) =~= seg); assert(call_shape(args_init@, codes, (seg.len() as int), c0, nargs_g)); "
                  "let t = args_init@.subrange((seg.len() as int) + nargs_g, args_init@.len() as int); assert(t.len() == args_init@.len() - (seg.len() as int) - nargs_g); "
                  "assert(forall|i: int| 0 <= i < t.len() ==> t[i] == args_init@[(seg.len() as int) + nargs_g + i]); assert(tail_ok(t, self.destination)); assert(call_post(args_init@, c0, nargs_g, self.destination)); }")
    bc = Rule("R11", "return Ok ( args_init ) ;", [exit_hint, "return Ok ( args_init ) ;"], count=1, why="").apply(bc, log)
    if bc[-4:] != ["Ok", "(", "args_init", ")"]:
        raise Undecided("Callable::compile: final `Ok(args_init)` not found")
    bc = bc[:-4] + [exit_hint] + bc[-4:]
    check_closed(bc, "Callable::compile")
    txt_c = render(bc, 2)
    # anchor the ghost state after the head of the output is built
    gen = header(log, f"{LIST}: List::compile") + prelude("compile.rs").replace("pub struct CompilationState;", "") + \
        opcode_consts(ids, ["make_vector", "store_fast", "store_skip", "vec_op", "delete_name_reference_scoped", "load_fast", "make_map", "fast_map_insert", "call", "call_self", "ld_self"]) + SPEC + LIST_SPEC + MAP_SPEC + CALL_SPEC + f"""
pub fn vec2(a: CompiledItem, b: CompiledItem) -> (r: Vec<CompiledItem>) ensures r@ == seq![a, b] {{ let mut v = Vec::new(); v.push(a); v.push(b); v }}
// the element part built so far: concatenation of (code_i ++ [vec_op +R])
pub open spec fn elems_ok(seg: Seq<CompiledItem>, codes: Seq<Seq<CompiledItem>>, r: int) -> bool decreases codes.len() {{
    if codes.len() == 0 {{ seg.len() == 0 }} else {{
        let c = codes.last();
        &&& seg.len() >= c.len() + 1
        &&& seg.subrange(seg.len() - c.len() - 1, seg.len() - 1) == c                 // this element's code, once
        &&& is_vec_op_push(seg.last(), r)                                              // then its value is appended to the list in R
        &&& elems_ok(seg.subrange(0, seg.len() - c.len() - 1), codes.drop_last(), r)   // after all earlier elements
    }}
}}
pub proof fn lemma_elems_step(seg: Seq<CompiledItem>, codes: Seq<Seq<CompiledItem>>, c: Seq<CompiledItem>, op: CompiledItem, r: int)
    requires elems_ok(seg, codes, r), is_vec_op_push(op, r)
    ensures elems_ok(seg + c + seq![op], codes.push(c), r)
{{
    let s2 = seg + c + seq![op];
    assert(codes.push(c).drop_last() =~= codes);
    assert(s2.subrange(s2.len() - c.len() - 1, s2.len() - 1) =~= c);
    assert(s2.subrange(0, s2.len() - c.len() - 1) =~= seg);
}}

impl List {{
    //@ OBL C15.list.layout
    #[verifier::loop_isolation(false)]
    pub fn compile(&self, state: &mut State) -> (r: Result<Vec<CompiledItem>, VErr>)
        requires self.values@.len() < 0x1000_0000, count(old(state)) >= 0
        ensures
            r is Ok ==> count(final(state)) == count(old(state)),       // (on the error path the register is released by its Drop impl: not modelled)
            r is Ok ==> ({{
                let out = r->Ok_0@; let c0 = count(old(state)); let n = self.values@.len() as int;
                &&& out.len() >= 3
                &&& is_instr(out[0], MAKE_VECTOR) && nargs(out[0]) == 1 && argn(out[0], 0) == n
                &&& is_instr(out[1], STORE_FAST) && nargs(out[1]) == 1 && argn(out[1], 0) == c0 && is_reg_arg(&out[1]->arguments@[0])
                &&& is_instr(out.last(), DELETE_NAME_REFERENCE_SCOPED) && nargs(out.last()) == 1 && argn(out.last(), 0) == c0
                // elements left to right, each compiled exactly once, each followed by the append to the list in register c0;
                // no element's code writes register c0 (the list under construction is not disturbed)
                &&& exists|codes: Seq<Seq<CompiledItem>>| codes.len() == n && #[trigger] elems_ok(out.subrange(2, out.len() - 1), codes, c0)
                        && (forall|i: int| 0 <= i < n ==> writes_ge(#[trigger] codes[i], c0 + 1))
            }}),
    {{
        let ghost c0 = count(state);
        let ghost mut codes: Seq<Seq<CompiledItem>> = Seq::empty();
        let ghost mut seg: Seq<CompiledItem> = Seq::empty();
        let ghost mut head: Seq<CompiledItem> = Seq::empty();
{txt_l}
    }}
}}

impl Map {{
    //@ OBL C15.map.layout
    #[verifier::loop_isolation(false)]
    pub fn compile(&self, state: &mut State) -> (r: Result<Vec<CompiledItem>, VErr>)
        requires self.initializer.map@.len() < 0x1000_0000, count(old(state)) >= 0
        ensures
            r is Ok ==> ({{
                let out = r->Ok_0@; let c0 = count(old(state)); let n = self.initializer.map@.len() as int;
                &&& (n == 0 ==> out.len() == 1 && is_instr(out[0], MAKE_MAP))
                // two distinct registers M (the map under construction) and K (the current key), both handed out before any key / value is
                // compiled; pairs left to right; within a pair the key first, then the value, each compiled exactly once; neither M nor K
                // is written by any key's or value's code
                &&& (n > 0 ==> out.len() >= 3 && is_instr(out[0], MAKE_MAP) && nargs(out[0]) == 1 && argn(out[0], 0) == n
                    && exists|ks: Seq<Seq<CompiledItem>>, vs: Seq<Seq<CompiledItem>>, m: int, k: int| #[trigger] map_shape(out, ks, vs, m, k, c0) && ks.len() == n)
            }}),
    {{
        let ghost c0 = count(state);
        let ghost mut ks: Seq<Seq<CompiledItem>> = Seq::empty();
        let ghost mut vs: Seq<Seq<CompiledItem>> = Seq::empty();
        let ghost mut gm: int = 0; let ghost mut gk: int = 0;
        let ghost mut seg: Seq<CompiledItem> = Seq::empty();
        let ghost mut head: Seq<CompiledItem> = Seq::empty();
{txt_m}
    }}
}}

impl Callable {{
    //@ OBL C15.call.layout
    #[verifier::loop_isolation(false)]
    pub fn compile(&self, state: &mut State) -> (r: Result<Vec<CompiledItem>, VErr>)
        requires self.function_arguments@.len() < 0x1000_0000, 0 <= count(old(state)) < 0x1000_0000
        ensures
            count(final(state)) == count(old(state)),
            // arguments left to right, each compiled exactly once and parked in consecutive registers c0, c0+1, ..; argument j's code writes
            // none of the registers holding arguments 0..j-1; then the values are pushed back in order, then the callee is loaded and called
            r is Ok && call_post(r->Ok_0@, count(old(state)), self.function_arguments@.len() as int, self.destination),
    {{
        let ghost c0 = count(state);
        let ghost mut codes: Seq<Seq<CompiledItem>> = Seq::empty();
        let ghost mut seg: Seq<CompiledItem> = Seq::empty();
        let ghost mut vi: Seq<CompiledItem> = Seq::empty();
{txt_c}
    }}
}}
}} // verus!
fn main() {{}}
"""
    obls = [Obl("C15.call.layout", ["C15"], fn="Callable::compile", desc="Callable::compile: per argument, in order and exactly once, its code then store_fast to the next consecutive register; no later argument's code writes an earlier argument's register; values reloaded in order; then [ld_self] load call / call_self; registers released"),
            Obl("C15.map.layout", ["C15"], fn="Map::compile", desc="Map::compile: make_map n; store_fast M; per pair, in order: key code, store_fast K, value code, fast_map_insert M K; load_fast M; no key/value code writes M or K"),
            Obl("C15.list.layout", ["C15"], fn="List::compile", desc="List::compile: make_vector n; store_fast R; then for each element, in order and exactly once, its code followed by vec_op +R; no element's code writes R; register released")]
    return gen, obls, log


UNITS = [VUnit("c15_seq", ["C15"], "list / map literals and call arguments: order, each once, holding registers undisturbed", build)]
UNITS[0].assumes = ["child Value::compile is an abstract callee satisfying the register frame contract (writes only registers handed out after its start; counter restored) -- the contract C15.binop.layout proves of compile_depth's BinOp arm",
                    "register allocator abstract (poll = counter value, free = counter - 1)"]

"""C01 / C09 / C16: a block and its statements -- `impl Compile for Block` (compiler/src/ast/function_body.rs) and `impl Compile for Declaration`
(compiler/src/ast/declaration.rs).  The code of a block is the code of its statements, each exactly once, in source order; the code of a
statement is what that statement kind compiles to -- no statement is dropped or emitted twice --, a value used as a statement being its
code followed by `void` (the result is discarded).  A statement whose code generation fails makes the block fail with that error: it is
never unwrapped into a compiler panic (C16)."""
from vlib.rules import *

BLOCK = "compiler/src/ast/function_body.rs"
DECL = "compiler/src/ast/declaration.rs"

SPEC = r"""
#[verifier::external_body] pub struct PartV { x: usize }                 // a statement's payload (PrintStatement, Assignment, ...)
// what a statement payload compiles to (its own Compile impl: units c01_if / c01_while / c01_from / ...): None = a code-generation error
pub uninterp spec fn code_of(p: &PartV) -> Option<Seq<CompiledItem>>;
impl PartV {
    #[verifier::external_body] pub fn compile(&self, state: &CompilationState) -> (r: Result<Vec<CompiledItem>, VErr>)
        ensures r is Ok <==> code_of(self) is Some, r is Ok ==> r->Ok_0@ == code_of(self)->Some_0 { unimplemented!() }
}
pub enum Declaration { PrintStatement(PartV), Assignment(PartV), Reassignment(PartV), ReturnStatement(PartV), IfStatement(PartV), WhileLoop(PartV), Continue(PartV), Break(PartV),
                       NumberLoop(PartV), Assertion(PartV), Class(PartV), Value(PartV), Import(PartV), TypeAlias(PartV) }
pub open spec fn payload(d: &Declaration) -> PartV {
    match *d { Declaration::PrintStatement(x) => x, Declaration::Assignment(x) => x, Declaration::Reassignment(x) => x, Declaration::ReturnStatement(x) => x, Declaration::IfStatement(x) => x,
               Declaration::WhileLoop(x) => x, Declaration::Continue(x) => x, Declaration::Break(x) => x, Declaration::NumberLoop(x) => x, Declaration::Assertion(x) => x, Declaration::Class(x) => x,
               Declaration::Value(x) => x, Declaration::Import(x) => x, Declaration::TypeAlias(x) => x }
}
pub open spec fn is_void_instr(c: CompiledItem) -> bool { c is Instruction && c->Instruction_id == VOID && c->Instruction_arguments@.len() == 0 }
// the code of one statement
pub open spec fn stmt_ok(d: &Declaration, out: Seq<CompiledItem>) -> bool {
    code_of(&payload(d)) is Some && (if *d is Value { out.len() == code_of(&payload(d))->Some_0.len() + 1 && out.subrange(0, out.len() - 1) == code_of(&payload(d))->Some_0 && is_void_instr(out.last()) }
                                     else { out == code_of(&payload(d))->Some_0 })
}
// a block's code: the statements' codes, in order
pub uninterp spec fn decl_code(d: &Declaration) -> Option<Seq<CompiledItem>>;      // Declaration::compile (obligation C01.declaration.compile)
pub open spec fn block_code(s: Seq<Declaration>) -> Seq<CompiledItem> decreases s.len() { if s.len() == 0 { Seq::empty() } else { block_code(s.drop_last()) + decl_code(&s.last())->Some_0 } }
pub open spec fn all_compile(s: Seq<Declaration>) -> bool { forall|i: int| 0 <= i < s.len() ==> decl_code(#[trigger] &s[i]) is Some }
pub struct Block(pub Vec<Declaration>);
#[verifier::external_body] pub fn compile_decl(d: &Declaration, state: &CompilationState) -> (r: Result<Vec<CompiledItem>, VErr>)
    ensures r is Ok <==> decl_code(d) is Some, r is Ok ==> r->Ok_0@ == decl_code(d)->Some_0 { unimplemented!() }
// Result::unwrap PANICS on Err (R8)
pub fn unwrap_code(r: Result<Vec<CompiledItem>, VErr>) -> (v: Vec<CompiledItem>) requires r is Ok ensures v == r->Ok_0 { match r { Ok(v) => v, Err(_) => Vec::new() } }
"""


def build(repo):
    src = Source(repo)
    log = []
    ids = opcode_ids(repo)
    fd = src.fn(DECL, "compile", "impl Compile for Declaration")
    bd = translate(fd["body"], [r_instruction(ids), Rule("R1", "Self :: $v", "Declaration :: $v", why="Self"),
                                Rule("R11", "result . push ( mk_instr ( $$a ) ) ;", [G("let ghost verif_before = result@;"), "result . push ( mk_instr ( $$a ) ) ;", G("proof { assert(result@.subrange(0, result@.len() - 1) =~= verif_before); }")], why="ghost: the code in front of the pushed instruction is unchanged")], log, "Declaration::compile")
    check_closed(bd, "Declaration::compile")
    fb = src.fn(BLOCK, "compile", "impl Compile for Block")
    INV = ("invariant $K <= $V.len(), compiled_body@ == block_code($V@.take($K as int)), all_compile($V@.take($K as int)), decreases $V.len() - $K,")
    # old form: iterator chain with an unwrap inside the closure; new form: a loop with `?`
    flat = ("let mut compiled_body : Vec < CompiledItem > = Vec :: new ( ) ; let mut verif_k : usize = 0 ; while verif_k < self . 0 . len ( )")
    bb = translate(fb["body"], [
        Rule("R2", "let compiled_body : Vec < super :: CompiledItem > = self . 0 . iter ( ) . flat_map ( | x | x . compile ( state ) . unwrap ( ) ) . collect ( ) ;",
             [flat, G(INV.replace("$K", "verif_k").replace("$V", "self.0")), "{ let x = & self . 0 [ verif_k ] ; verif_k += 1 ;",
              G("proof { assert(self.0@.take(verif_k as int).drop_last() =~= self.0@.take(verif_k as int - 1)); assert(self.0@.take(verif_k as int).last() == self.0@[verif_k as int - 1]); }"),
              "let mut verif_c = unwrap_code ( compile_decl ( x , state ) ) ; compiled_body . append ( & mut verif_c ) ; }",
              G("proof { assert(self.0@.take(self.0@.len() as int) =~= self.0@); }")],
             why="iter().flat_map(|x| x.compile(state).unwrap()).collect(): the statements in order, each code appended; the unwrap keeps its panic precondition (R8)"),
        Rule("R1", "let mut compiled_body = vec ! [ ] ;", "let mut compiled_body : Vec < CompiledItem > = Vec :: new ( ) ;", why="type ascription"),
        Rule("R1", "let mut compiled_body : Vec < super :: CompiledItem > = vec ! [ ] ;", "let mut compiled_body : Vec < CompiledItem > = Vec :: new ( ) ;", why="type ascription"),
        Rule("R2", "for $x in & self . 0 { $$body }", lambda b: ["let mut verif_k : usize = 0 ; while verif_k < self . 0 . len ( )", G(INV.replace("$K", "verif_k").replace("$V", "self.0")),
                                                              "{", f"let {text(b['x'])} = & self . 0 [ verif_k ] ; verif_k += 1 ;",
                                                              G("proof { assert(self.0@.take(verif_k as int).drop_last() =~= self.0@.take(verif_k as int - 1)); assert(self.0@.take(verif_k as int).last() == self.0@[verif_k as int - 1]); }"), *b["body"], "}",
                                                              G("proof { assert(self.0@.take(self.0@.len() as int) =~= self.0@); }")], why="for over &Vec -> indexed while"),
        Rule("R6", "$x . compile ( state ) ?", "compile_decl ( $x , state ) ?", why="Declaration::compile: own obligation (C01.declaration.compile)"),
        Rule("R13", "compiled_body . append ( & mut compile_decl ( $x , state ) ? ) ;", "let mut verif_c = compile_decl ( $x , state ) ? ; compiled_body . append ( & mut verif_c ) ;", why="temporary named"),
    ], log, "Block::compile")
    check_closed(bb, "Block::compile")
    gen = header(log, f"{DECL}: impl Compile for Declaration; {BLOCK}: impl Compile for Block") + prelude("compile.rs") + opcode_consts(ids, ["void"]) + SPEC + f"""
impl Declaration {{
    //@ OBL C01.declaration.compile
    pub fn compile(&self, state: &CompilationState) -> (r: Result<Vec<CompiledItem>, VErr>)
        ensures
            r is Ok <==> code_of(&payload(self)) is Some,
            r is Ok ==> stmt_ok(self, r->Ok_0@),
    {{
{render(bd, 2)}
    }}
}}
impl Block {{
    //@ OBL C01.block.compile
    pub fn compile(&self, state: &CompilationState) -> (r: Result<Vec<CompiledItem>, VErr>)
        ensures
            // every statement compiles: the block's code is the statements' codes in order; one does not: the block fails (no panic)
            all_compile(self.0@) <==> r is Ok,
            r is Ok ==> r->Ok_0@ == block_code(self.0@),
    {{
        proof {{ assert(self.0@.take(0) =~= Seq::<Declaration>::empty()); }}
{render(bb, 2)}
    }}
}}
}} // verus!
fn main() {{}}
"""
    return gen, [Obl("C01.declaration.compile", ["C01", "C12", "C09"], fn="Declaration::compile", desc="Declaration::compile: exactly the code of the statement it holds (a value statement: its code, then `void`); nothing dropped"),
                 Obl("C01.block.compile", ["C01", "C09", "C16"], fn="Block::compile", desc="Block::compile: the statements' codes in source order, each once; a statement's code-generation error is the block's error, never an unwrap panic")], log


UNITS = [VUnit("c01_block", ["C01", "C09", "C12", "C16"], "a block = its statements in order; a statement = its own code", build)]
UNITS[0].assumes = ["the statements' own Compile impls are abstract callees here (units c01_if, c01_while, c01_from, c01_function, c15_binop, ...)"]

"""C11: `import a, b from m` at run time -- the handler split_lookup_store binds each imported name in the importer.
From the property: "importers cannot reassign [exports]" and "all importers observe the same module instance".  The compiler lets an
importer assign to a name it imported by name (that rebinding is the importer's private business: known finding D45 / test
assignments::not_import_const_bypass), so the run-time binding must be a variable OF THE IMPORTER -- a cell of its own holding the export's
current value -- never the module's own variable cell: otherwise `x = v` in the importer overwrites the module's state for everybody."""
from vlib.rules import *

INSTR = "bytecode/src/instruction.rs"

SPEC = r"""
use vstd::prelude::*;
verus! {
pub struct VErr;
#[verifier::external_body] pub struct VString { x: usize }
pub uninterp spec fn text_of(s: &VString) -> Seq<char>;
#[verifier::external_body] pub fn clone_vs(s: &VString) -> (r: VString) ensures text_of(&r) == text_of(s) { unimplemented!() }
#[verifier::external_body] pub struct OtherV { x: usize }
// a variable cell handle (PrimitiveFlagsPair): identified by the cell it points to
#[verifier::external_body] pub struct Handle { x: usize }
pub uninterp spec fn cell_id(h: &Handle) -> int;
pub uninterp spec fn cell_value(id: int) -> Primitive;          // current content of a cell
// a module value: its export table, name -> the module variable's own cell (unit c11_export)
#[verifier::external_body] pub struct ModuleH { x: usize }
pub uninterp spec fn module_view(m: &ModuleH) -> Map<Seq<char>, Handle>;
#[verifier::external_body] pub struct ModuleRef { x: usize }      // the `Ref` of module.borrow()
pub uninterp spec fn ref_view(m: &ModuleRef) -> Map<Seq<char>, Handle>;
impl ModuleH {
    #[verifier::external_body] pub fn clone(&self) -> (r: ModuleH) ensures module_view(&r) == module_view(self) { unimplemented!() }
    #[verifier::external_body] pub fn borrow(&self) -> (r: ModuleRef) ensures ref_view(&r) == module_view(self) { unimplemented!() }
}
impl ModuleRef {
    #[verifier::external_body] pub fn get(&self, name: &VString) -> (r: Option<Handle>)
        ensures r is Some <==> ref_view(self).contains_key(text_of(name)), r is Some ==> cell_id(&r->Some_0) == cell_id(&ref_view(self)[text_of(name)]) { unimplemented!() }
}
pub enum Primitive { Module(ModuleH), Vector(OtherV), Map(OtherV), Object(OtherV), Other(OtherV) }
impl Handle {
    #[verifier::external_body] pub fn primitive(&self) -> (r: &Primitive) ensures *r == cell_value(cell_id(self)) { unimplemented!() }
    #[verifier::external_body] pub fn clone(&self) -> (r: Handle) ensures cell_id(&r) == cell_id(self) { unimplemented!() }
}
impl Primitive { #[verifier::external_body] pub fn clone(&self) -> (r: Primitive) ensures r == *self { unimplemented!() } }
// what the handler does to the importer's frame, in order
pub enum Bind { Own(Seq<char>, Primitive),      // register_variable_local: a NEW cell of the importer holding the value
                Shared(Seq<char>, int) }         // ref_variable: the name is bound to an EXISTING cell
pub open spec fn bind_name(b: Bind) -> Seq<char> { match b { Bind::Own(n, _) => n, Bind::Shared(n, _) => n } }
// what a read of the name yields right after the binding
pub open spec fn bind_value(b: Bind) -> Primitive { match b { Bind::Own(_, v) => v, Bind::Shared(_, c) => cell_value(c) } }
pub struct Ctx { pub stack: Vec<Primitive>, pub binds: Ghost<Seq<Bind>> }
impl Ctx {
    #[verifier::external_body] pub fn get_last_op_item(&self) -> (r: Option<&Primitive>)
        ensures self.stack@.len() == 0 ==> r is None, self.stack@.len() > 0 ==> r == Some(&self.stack@.last()) { unimplemented!() }
    #[verifier::external_body] pub fn register_variable_local(&mut self, name: VString, var: Primitive) -> (r: Result<(), VErr>)
        ensures final(self).stack == old(self).stack, r is Ok ==> final(self).binds@ == old(self).binds@.push(Bind::Own(text_of(&name), var)), r is Err ==> final(self).binds@ == old(self).binds@ { unimplemented!() }
    #[verifier::external_body] pub fn register_variable(&mut self, name: VString, var: Primitive) -> (r: Result<(), VErr>)
        ensures final(self).stack == old(self).stack, r is Ok ==> final(self).binds@ == old(self).binds@.push(Bind::Own(text_of(&name), var)), r is Err ==> final(self).binds@ == old(self).binds@ { unimplemented!() }
    #[verifier::external_body] pub fn ref_variable(&mut self, name: VString, var: Handle)
        ensures final(self).stack == old(self).stack, final(self).binds@ == old(self).binds@.push(Bind::Shared(text_of(&name), cell_id(&var))) { unimplemented!() }
}
#[verifier::external_body] pub fn into_cow(s: VString) -> (r: VString) ensures text_of(&r) == text_of(&s) { unimplemented!() }
// each imported name, in the order written: a variable of the importer's own, holding what the module's variable holds now
pub open spec fn imported(m: Map<Seq<char>, Handle>, names: Seq<VString>, n: int) -> Seq<Bind> decreases n {
    if n <= 0 { Seq::empty() } else { imported(m, names, n - 1).push(Bind::Own(text_of(&names[n - 1]), cell_value(cell_id(&m[text_of(&names[n - 1])])))) }
}
pub proof fn lemma_imported(m: Map<Seq<char>, Handle>, names: Seq<VString>, n: int) requires n >= 0
    ensures imported(m, names, n).len() == n, forall|i: int| 0 <= i < n ==> imported(m, names, n)[i] is Own decreases n
{ if n > 0 { lemma_imported(m, names, n - 1); } }
"""


def build(repo):
    src = Source(repo)
    log = []
    f = src.fn(INSTR, "split_lookup_store", "pub mod implementations")
    INV = ("invariant $K <= args.len(), ctx.stack == verif_ctx0.stack, ref_view(&view) == verif_m, forall|j: int| 0 <= j < $K ==> verif_m.contains_key(text_of(&args@[j])), "
           "ctx.binds@.len() == verif_ctx0.binds@.len() + $K, "
           "forall|j: int| 0 <= j < $K ==> bind_name(#[trigger] ctx.binds@[verif_ctx0.binds@.len() + j]) == text_of(&args@[j]) "
           "&& bind_value(ctx.binds@[verif_ctx0.binds@.len() + j]) == cell_value(cell_id(&verif_m[text_of(&args@[j])]))$EXTRA decreases args.len() - $K")

    def mk_body(extra, what):
        def loop(b):
            v, x = text(b["v"]), text(b["x"])
            if v != "args":
                return None
            k = "verif_k"
            return [G("let ghost verif_m = ref_view(&view);"),
                    f"let mut {k} : usize = 0 ; while {k} < args . len ( )", G(INV.replace("$K", k).replace("$EXTRA", extra)), "{", f"let {x} = & args [ {k} ] ; {k} += 1 ;",
                    *b["body"], "}",
                    G("proof { verif_done = true; }")]

        rules = [
            Rule("R3", "bail ! $a", "return Err ( VErr )", why="bail! -> return Err (error text dropped)"),
            Rule("R2", "for $x in $v { $$body }", loop, count=1, why="for over &[String] -> indexed while (iteration order of slice::Iter)"),
            Rule("R1", "name . to_owned ( )", "clone_vs ( name )", why="String clone"),
            Rule("R1", "name . clone ( )", "clone_vs ( name )", why="String clone"),
            Rule("R1", "Cow :: Owned ( $$e )", "into_cow ( $$e )", why="Cow wrapper: the same text"),
            Rule("R1", "$e . into ( )", "into_cow ( $e )", why="Into<Cow<str>>: the same text"),
        ]
        out = translate(list(f["body"]), rules, log if what == "main" else [], "implementations::split_lookup_store")
        check_closed(out, "split_lookup_store")
        return out

    # may an importer rebind a name it imported?  (known finding D45: yes -- Parser::import_names does not mark the name const; the obligation
    # that decides it is C10.import.member-const in unit c10_import_names; here only its syntactic trace is looked up, to pick the clause below)
    rebind_possible = True
    try:
        fi = src.fn("compiler/src/ast/import.rs", "import_names")
        rebind_possible = "ident . mark_const ( )" not in " ".join(fi["body"])
    except Undecided:
        pass
    own_clause = ("        // WHILE an importer may rebind an imported name (known finding D45), the name must be a cell of the importer's own: bound to the\n"
                  "        // module's cell, the importer's `name = v` would overwrite the module's variable for everybody (\"importers cannot reassign them\")\n"
                  "        forall|i: int| old(ctx).binds@.len() <= i < final(ctx).binds@.len() ==> final(ctx).binds@[i] is Own,\n") if rebind_possible else ""
    log.append(("R0", "Parser::import_names", "`ident.mark_const()` " + ("absent" if rebind_possible else "present"),
                "an importer " + ("MAY rebind an imported name: own-cell clause required" if rebind_possible else "cannot rebind an imported name: the name may (and, for D105, should) denote the module's cell")))
    body = mk_body(", forall|i: int| verif_ctx0.binds@.len() <= i < ctx.binds@.len() ==> ctx.binds@[i] is Own" if rebind_possible else "", "main")
    body_shared = mk_body(", forall|i: int| verif_ctx0.binds@.len() <= i < ctx.binds@.len() ==> ctx.binds@[i] is Shared", "kf")
    gen = header(log, f"{INSTR}: split_lookup_store") + SPEC + f"""
//@ OBL C11.import.names-bound
#[verifier::loop_isolation(false)]
pub fn split_lookup_store(ctx: &mut Ctx, args: &Vec<VString>) -> (r: Result<(), VErr>)
    ensures
        // success: the value on top is a module that exports every listed name, and each name is bound in the importer, in the order written,
        // to what the export holds at that moment
        r is Ok ==> old(ctx).stack@.len() > 0 && old(ctx).stack@.last() is Module
            && (forall|j: int| 0 <= j < args@.len() ==> module_view(&old(ctx).stack@.last()->Module_0).contains_key(text_of(&args@[j])))
            && final(ctx).binds@.len() == old(ctx).binds@.len() + args@.len()
            && (forall|j: int| 0 <= j < args@.len() ==> bind_name(#[trigger] final(ctx).binds@[old(ctx).binds@.len() + j]) == text_of(&args@[j])
                    && bind_value(final(ctx).binds@[old(ctx).binds@.len() + j]) == cell_value(cell_id(&module_view(&old(ctx).stack@.last()->Module_0)[text_of(&args@[j])]))),
{own_clause}        final(ctx).stack == old(ctx).stack,
{{
    let ghost verif_ctx0 = *ctx; let ghost mut verif_done = false;
{render(body, 1)}
}}

//@ KF C11.import.names-share-module-state
// the property's wording: "all importers observe the same module instance, so state changed through one importer is seen by the others" --
// for a name imported BY NAME that requires the name to denote the module's own variable (the same cell), as `m.name` does.  The same text
// binds a fresh cell holding a copy (known finding D105): `import count from counter` keeps reading the value `count` had when the import ran
#[verifier::loop_isolation(false)]
pub fn split_lookup_store_shared(ctx: &mut Ctx, args: &Vec<VString>) -> (r: Result<(), VErr>)
    ensures
        r is Ok ==> forall|i: int| old(ctx).binds@.len() <= i < final(ctx).binds@.len() ==> final(ctx).binds@[i] is Shared,
{{
    let ghost verif_ctx0 = *ctx; let ghost mut verif_done = false;
{render(body_shared, 1)}
}}
}} // verus!
fn main() {{}}
"""
    return gen, [Obl("C11.import.names-bound", ["C11", "C10"], fn="split_lookup_store",
                     desc="split_lookup_store (`import a, b from m`): every listed name is bound in the importer, in the order written, to what the export holds; fails when a name is not exported; while importers may rebind imported names (D45) never to the module's own cell"),
                 Obl("C11.import.names-share-module-state", ["C11"], kind="kf", finding="D105", fn="split_lookup_store",
                     desc="a name imported by name denotes the module's own variable, so a later change of the module's state is seen through it -- known finding D105: it is bound to a copy made when the import ran")], log


UNITS = [VUnit("c11_split_store", ["C11", "C10"], "import a, b from m: what the imported names are bound to", build)]
UNITS[0].assumes = ["Ctx::register_variable_local creates a new variable cell in the importer's frame; Ctx::ref_variable binds a name to an existing cell (abstract callees; gc cell semantics assumed)",
                    "the module value's export table (name -> cell) is what export_name built (unit c11_export)"]

"""C07 / C12: which variables an expression depends on (`impl Dependencies for Expr`, math_expr.rs).  A closure captures exactly the variables
its body depends on, so a sub-expression whose dependencies are dropped is a variable the closure cannot see after its owner has returned."""
from vlib.rules import *

MATH = "compiler/src/ast/math_expr.rs"

SPEC = r"""
use vstd::prelude::*;
verus! {
#[verifier::external_body] pub struct Dep { x: usize }
#[verifier::external_body] pub struct OtherV { x: usize }
#[verifier::external_body] pub struct ValueV { x: usize }          // Value
#[verifier::external_body] pub struct ArgsV { x: usize }           // FunctionArguments
#[verifier::external_body] pub struct IndexV { x: usize }          // Index
#[verifier::external_body] pub struct ChainV { x: usize }          // DotChain: `.field`, `.method(args)` links
pub enum CallableContents { ToSelf { arguments: ArgsV, x: OtherV }, Standard { lhs_raw: Box<Expr>, arguments: ArgsV, x: OtherV } }
pub enum Expr {
    Value(ValueV), UnaryMinus(Box<Expr>), UnaryNot(Box<Expr>), BinOp { lhs: Box<Expr>, rhs: Box<Expr>, op: OtherV }, Callable(CallableContents),
    Index { lhs_raw: Box<Expr>, index: IndexV }, DotLookup { lhs: Box<Expr>, dot_chain: ChainV, expected_type: OtherV }, ReferenceToSelf(OtherV), ReferenceToConstructor(OtherV), Nil,
    UnaryUnwrap { value: Box<Expr>, span: OtherV }, NilEval { primary: Box<Expr>, fallback: Box<Expr> }, Typeof(Box<Expr>, OtherV),
}
// net dependencies of a part (the recursive / foreign calls: abstract, as sets -- the order is irrelevant to capturing)
pub uninterp spec fn nd_expr(e: Expr) -> Set<Dep>;
pub uninterp spec fn nd_value(v: ValueV) -> Set<Dep>;
pub uninterp spec fn nd_args(a: ArgsV) -> Set<Dep>;
pub uninterp spec fn nd_index(i: IndexV) -> Set<Dep>;
pub uninterp spec fn nd_chain(c: ChainV) -> Set<Dep>;
impl Expr { #[verifier::external_body] pub fn net_dependencies(&self) -> (r: Vec<Dep>) ensures r@.to_set() == nd_expr(*self) { unimplemented!() } }
impl ValueV { #[verifier::external_body] pub fn net_dependencies(&self) -> (r: Vec<Dep>) ensures r@.to_set() == nd_value(*self) { unimplemented!() } }
impl ArgsV { #[verifier::external_body] pub fn net_dependencies(&self) -> (r: Vec<Dep>) ensures r@.to_set() == nd_args(*self) { unimplemented!() } }
impl ChainV { #[verifier::external_body] pub fn net_dependencies(&self) -> (r: Vec<Dep>) ensures r@.to_set() == nd_chain(*self) { unimplemented!() } }
impl IndexV { #[verifier::external_body] pub fn net_dependencies(&self) -> (r: Vec<Dep>) ensures r@.to_set() == nd_index(*self) { unimplemented!() } }
// what an expression depends on: everything any of its parts depends on -- BOTH operands, the callee AND the arguments, the indexed value
// AND the index, the optional AND its `or` fallback
pub open spec fn expr_deps(e: Expr) -> Set<Dep> {
    match e {
        Expr::Value(v) => nd_value(v),
        Expr::UnaryMinus(x) | Expr::UnaryNot(x) => nd_expr(*x),
        Expr::BinOp { lhs, rhs, .. } => nd_expr(*lhs).union(nd_expr(*rhs)),
        Expr::Callable(CallableContents::ToSelf { arguments, .. }) => nd_args(arguments),
        Expr::Callable(CallableContents::Standard { lhs_raw, arguments, .. }) => nd_expr(*lhs_raw).union(nd_args(arguments)),
        Expr::Index { lhs_raw, index } => nd_expr(*lhs_raw).union(nd_index(index)),
        // the receiver AND the arguments of every method call in the chain
        Expr::DotLookup { lhs, dot_chain, .. } => nd_expr(*lhs).union(nd_chain(dot_chain)),
        Expr::ReferenceToSelf(_) | Expr::ReferenceToConstructor(_) | Expr::Nil => Set::<Dep>::empty(),
        Expr::UnaryUnwrap { value, .. } => nd_expr(*value),
        Expr::NilEval { primary, fallback } => nd_expr(*primary).union(nd_expr(*fallback)),
        Expr::Typeof(val, _) => nd_expr(*val),
    }
}
pub proof fn lemma_append_set(a: Seq<Dep>, b: Seq<Dep>) ensures (a + b).to_set() == a.to_set().union(b.to_set()) {
    assert forall|x: Dep| (a + b).to_set().contains(x) == a.to_set().union(b.to_set()).contains(x) by {
        if (a + b).contains(x) { let i = choose|i: int| 0 <= i < (a + b).len() && (a + b)[i] == x; if i < a.len() { assert(a[i] == x); } else { assert(b[i - a.len()] == x); } }
        if a.contains(x) { let i = choose|i: int| 0 <= i < a.len() && a[i] == x; assert((a + b)[i] == x); }
        if b.contains(x) { let i = choose|i: int| 0 <= i < b.len() && b[i] == x; assert((a + b)[a.len() + i] == x); }
    }
    assert((a + b).to_set() =~= a.to_set().union(b.to_set()));
}
pub proof fn lemma_empty_set() ensures Seq::<Dep>::empty().to_set() == Set::<Dep>::empty() { assert(Seq::<Dep>::empty().to_set() =~= Set::<Dep>::empty()); }
// Vec::append with the set view
pub fn vappend(a: &mut Vec<Dep>, b: &mut Vec<Dep>) ensures final(a)@.to_set() == old(a)@.to_set().union(old(b)@.to_set()), final(a)@ == old(a)@ + old(b)@ {
    proof { lemma_append_set(a@, b@); }
    a.append(b);
}
pub fn vempty() -> (r: Vec<Dep>) ensures r@.to_set() == Set::<Dep>::empty() { proof { lemma_empty_set(); } Vec::new() }
"""


def build(repo):
    src = Source(repo)
    log = []
    f = src.fn(MATH, "dependencies", "impl Dependencies for Expr")
    b = translate(f["body"], [
        Rule("R1", "use Expr as E ;", "", why="local alias"),
        Rule("R1", "E :: $v", "Expr :: $v", why="local alias"),
        Rule("R12", "vec ! [ ]", "vempty ( )", why="vec![] (with its set view)"),
        Rule("R13", "$a . append ( & mut $$b ) ;", lambda bb: f"{{ let mut verif_tmp = {text(bb['b'])} ; vappend ( & mut {text(bb['a'])} , & mut verif_tmp ) ; }}", why="Vec::append (temporary named; set view of the concatenation)"),
    ], log, "Dependencies for Expr")
    check_closed(b, "Dependencies for Expr")
    ASG = "compiler/src/ast/assignment.rs"
    fa = src.fn(ASG, "net_dependencies", "impl Dependencies for Assignment")
    inva = ("invariant verif_k <= dependencies@.len(), result@ == dependencies@.subrange(0, verif_k as int).filter(keep(supply_name)) decreases dependencies@.len() - verif_k")
    def aloop(bb):
        x = text(bb["x"])
        return ["let mut verif_k : usize = 0 ; while verif_k < dependencies . len ( )", G(inva), "{", f"let {x} = clone_dep ( & dependencies [ verif_k ] ) ; verif_k += 1 ;",
                G("proof { lemma_filter_step(dependencies@, verif_k as int - 1, supply_name); }"), *bb["body"], "}",
                G("proof { assert(dependencies@.subrange(0, dependencies@.len() as int) =~= dependencies@); }")]
    ba = translate(fa["body"], [
        Rule("R6", "let dependencies = self . dependencies ( ) ;", "let dependencies = own_dependencies ( self ) ;", count=1, why="Assignment::dependencies abstract"),
        Rule("R6", "self . supplies ( ) . pop ( )", "supplied ( self )", count=1, why="Assignment::supplies().pop(): the identifier this assignment declares (None for `modify`)"),
        Rule("R12", "let mut result = Vec :: with_capacity ( $$n ) ;", "let mut result : Vec < Dep > = Vec :: new ( ) ;", count=1, why="capacity hint dropped"),
        Rule("R2", "for $x in dependencies { $$body }", aloop, count=1, why="for over Vec (by value) -> indexed while over clones"),
        Rule("R9", "dependency != supply_name", "! dep_eq ( & dependency , & supply_name )", why="Dependency: PartialEq (abstract relation: same identifier)"),
        Rule("R9", "dependency . name ( ) != supply_name . name ( )", "! name_eq ( & dependency , & supply_name )", why="comparison of the names only (a different relation)"),
    ], log, "Assignment::net_dependencies")
    check_closed(ba, "Assignment::net_dependencies")
    gen = header(log, f"{MATH}: impl Dependencies for Expr :: dependencies; {ASG}: Assignment::net_dependencies") + SPEC + f"""
#[verifier::external_body] pub struct Assignment {{ x: usize }}
pub uninterp spec fn own_deps(a: &Assignment) -> Seq<Dep>;
pub uninterp spec fn supplied_of(a: &Assignment) -> Option<Dep>;
#[verifier::external_body] pub fn own_dependencies(a: &Assignment) -> (r: Vec<Dep>) ensures r@ == own_deps(a) {{ unimplemented!() }}
#[verifier::external_body] pub fn supplied(a: &Assignment) -> (r: Option<Dep>) ensures r == supplied_of(a) {{ unimplemented!() }}
#[verifier::external_body] pub fn clone_dep(d: &Dep) -> (r: Dep) ensures r == *d {{ unimplemented!() }}
// Dependency equality: the SAME identifier -- name and what it denotes (a captured `x` and a freshly declared local `x` differ)
pub uninterp spec fn same_dep(a: Dep, b: Dep) -> bool;
pub uninterp spec fn same_name(a: Dep, b: Dep) -> bool;
#[verifier::external_body] pub fn dep_eq(a: &Dep, b: &Dep) -> (r: bool) ensures r == same_dep(*a, *b) {{ unimplemented!() }}
#[verifier::external_body] pub fn name_eq(a: &Dep, b: &Dep) -> (r: bool) ensures r == same_name(*a, *b) {{ unimplemented!() }}
pub open spec fn keep(sup: Dep) -> spec_fn(Dep) -> bool {{ |d: Dep| !same_dep(d, sup) }}
pub proof fn lemma_filter_step(s: Seq<Dep>, k: int, sup: Dep) requires 0 <= k < s.len()
    ensures s.subrange(0, k + 1).filter(keep(sup)) == (if !same_dep(s[k], sup) {{ s.subrange(0, k).filter(keep(sup)).push(s[k]) }} else {{ s.subrange(0, k).filter(keep(sup)) }})
{{
    assert(s.subrange(0, k + 1).drop_last() =~= s.subrange(0, k));
    reveal(Seq::filter);
}}
impl Assignment {{
    //@ OBL C07.deps.assignment
    // `x = x + 1` inside a closure: the captured x on the right is still a dependency; only the identifier the assignment itself declares is removed
    #[verifier::loop_isolation(false)]
    pub fn net_dependencies(&self) -> (r: Vec<Dep>)
        ensures supplied_of(self) is None ==> r@ == own_deps(self),
                supplied_of(self) is Some ==> r@ == own_deps(self).filter(keep(supplied_of(self)->Some_0)),
    {{
{render(ba, 2)}
    }}
}}
impl Expr {{
    //@ OBL C07.deps.expr
    pub fn dependencies(&self) -> (r: Vec<Dep>)
        ensures r@.to_set() == expr_deps(*self)
    {{
{render(b, 2)}
    }}
}}
}} // verus!
fn main() {{}}
"""
    return gen, [Obl("C07.deps.assignment", ["C07"], fn="Assignment::net_dependencies", desc="Assignment::net_dependencies: own dependencies minus exactly the identifier the assignment declares (Dependency equality, not name equality)"),
                 Obl("C07.deps.expr", ["C07", "C12", "C15"], fn="Dependencies for Expr", desc="Expr::dependencies: the union of the dependencies of ALL parts (both operands, callee and arguments, indexed value and index, optional and its `or` fallback)")], log


UNITS = [VUnit("c07_deps", ["C07", "C12"], "what an expression depends on = what a closure must capture", build)]
UNITS[0].assumes = ["net_dependencies of the parts (recursive call, Value, FunctionArguments, Index) are abstract callees, compared as sets",
                    "Assignment::net_dependencies (filtering of the assigned name), get_net_dependencies of function bodies and the parser's use of the list are not covered"]

"""C07 / C12: which variables an expression depends on (`impl Dependencies for Expr`, math_expr.rs).  A closure captures exactly the variables
its body depends on, so a sub-expression whose dependencies are dropped is a variable the closure cannot see after its owner has returned."""
from vlib.rules import *

MATH = "compiler/src/ast/math_expr.rs"

SPEC = r"""
use vstd::prelude::*;
verus! {
#[verifier::external_body] pub struct Dep { x: usize }
#[verifier::external_body] pub struct OtherV { x: usize }
#[verifier::external_body] pub struct ValueV { x: usize }          // Value
#[verifier::external_body] pub struct ArgsV { x: usize }           // FunctionArguments
#[verifier::external_body] pub struct IndexV { x: usize }          // Index
pub enum CallableContents { ToSelf { arguments: ArgsV, x: OtherV }, Standard { lhs_raw: Box<Expr>, arguments: ArgsV, x: OtherV } }
pub enum Expr {
    Value(ValueV), UnaryMinus(Box<Expr>), UnaryNot(Box<Expr>), BinOp { lhs: Box<Expr>, rhs: Box<Expr>, op: OtherV }, Callable(CallableContents),
    Index { lhs_raw: Box<Expr>, index: IndexV }, DotLookup { lhs: Box<Expr>, x: OtherV }, ReferenceToSelf(OtherV), ReferenceToConstructor(OtherV), Nil,
    UnaryUnwrap { value: Box<Expr>, span: OtherV }, NilEval { primary: Box<Expr>, fallback: Box<Expr> }, Typeof(Box<Expr>, OtherV),
}
// net dependencies of a part (the recursive / foreign calls: abstract, as sets -- the order is irrelevant to capturing)
pub uninterp spec fn nd_expr(e: Expr) -> Set<Dep>;
pub uninterp spec fn nd_value(v: ValueV) -> Set<Dep>;
pub uninterp spec fn nd_args(a: ArgsV) -> Set<Dep>;
pub uninterp spec fn nd_index(i: IndexV) -> Set<Dep>;
impl Expr { #[verifier::external_body] pub fn net_dependencies(&self) -> (r: Vec<Dep>) ensures r@.to_set() == nd_expr(*self) { unimplemented!() } }
impl ValueV { #[verifier::external_body] pub fn net_dependencies(&self) -> (r: Vec<Dep>) ensures r@.to_set() == nd_value(*self) { unimplemented!() } }
impl ArgsV { #[verifier::external_body] pub fn net_dependencies(&self) -> (r: Vec<Dep>) ensures r@.to_set() == nd_args(*self) { unimplemented!() } }
impl IndexV { #[verifier::external_body] pub fn net_dependencies(&self) -> (r: Vec<Dep>) ensures r@.to_set() == nd_index(*self) { unimplemented!() } }
// what an expression depends on: everything any of its parts depends on -- BOTH operands, the callee AND the arguments, the indexed value
// AND the index, the optional AND its `or` fallback
pub open spec fn expr_deps(e: Expr) -> Set<Dep> {
    match e {
        Expr::Value(v) => nd_value(v),
        Expr::UnaryMinus(x) | Expr::UnaryNot(x) => nd_expr(*x),
        Expr::BinOp { lhs, rhs, .. } => nd_expr(*lhs).union(nd_expr(*rhs)),
        Expr::Callable(CallableContents::ToSelf { arguments, .. }) => nd_args(arguments),
        Expr::Callable(CallableContents::Standard { lhs_raw, arguments, .. }) => nd_expr(*lhs_raw).union(nd_args(arguments)),
        Expr::Index { lhs_raw, index } => nd_expr(*lhs_raw).union(nd_index(index)),
        Expr::DotLookup { lhs, .. } => nd_expr(*lhs),
        Expr::ReferenceToSelf(_) | Expr::ReferenceToConstructor(_) | Expr::Nil => Set::<Dep>::empty(),
        Expr::UnaryUnwrap { value, .. } => nd_expr(*value),
        Expr::NilEval { primary, fallback } => nd_expr(*primary).union(nd_expr(*fallback)),
        Expr::Typeof(val, _) => nd_expr(*val),
    }
}
pub proof fn lemma_append_set(a: Seq<Dep>, b: Seq<Dep>) ensures (a + b).to_set() == a.to_set().union(b.to_set()) {
    assert forall|x: Dep| (a + b).to_set().contains(x) == a.to_set().union(b.to_set()).contains(x) by {
        if (a + b).contains(x) { let i = choose|i: int| 0 <= i < (a + b).len() && (a + b)[i] == x; if i < a.len() { assert(a[i] == x); } else { assert(b[i - a.len()] == x); } }
        if a.contains(x) { let i = choose|i: int| 0 <= i < a.len() && a[i] == x; assert((a + b)[i] == x); }
        if b.contains(x) { let i = choose|i: int| 0 <= i < b.len() && b[i] == x; assert((a + b)[a.len() + i] == x); }
    }
    assert((a + b).to_set() =~= a.to_set().union(b.to_set()));
}
pub proof fn lemma_empty_set() ensures Seq::<Dep>::empty().to_set() == Set::<Dep>::empty() { assert(Seq::<Dep>::empty().to_set() =~= Set::<Dep>::empty()); }
// Vec::append with the set view
pub fn vappend(a: &mut Vec<Dep>, b: &mut Vec<Dep>) ensures final(a)@.to_set() == old(a)@.to_set().union(old(b)@.to_set()), final(a)@ == old(a)@ + old(b)@ {
    proof { lemma_append_set(a@, b@); }
    a.append(b);
}
pub fn vempty() -> (r: Vec<Dep>) ensures r@.to_set() == Set::<Dep>::empty() { proof { lemma_empty_set(); } Vec::new() }
"""


def build(repo):
    src = Source(repo)
    log = []
    f = src.fn(MATH, "dependencies", "impl Dependencies for Expr")
    b = translate(f["body"], [
        Rule("R1", "use Expr as E ;", "", why="local alias"),
        Rule("R1", "E :: $v", "Expr :: $v", why="local alias"),
        Rule("R12", "vec ! [ ]", "vempty ( )", why="vec![] (with its set view)"),
        Rule("R13", "$a . append ( & mut $$b ) ;", lambda bb: f"{{ let mut verif_tmp = {text(bb['b'])} ; vappend ( & mut {text(bb['a'])} , & mut verif_tmp ) ; }}", why="Vec::append (temporary named; set view of the concatenation)"),
    ], log, "Dependencies for Expr")
    check_closed(b, "Dependencies for Expr")
    gen = header(log, f"{MATH}: impl Dependencies for Expr :: dependencies") + SPEC + f"""
impl Expr {{
    //@ OBL C07.deps.expr
    pub fn dependencies(&self) -> (r: Vec<Dep>)
        ensures r@.to_set() == expr_deps(*self)
    {{
{render(b, 2)}
    }}
}}
}} // verus!
fn main() {{}}
"""
    return gen, [Obl("C07.deps.expr", ["C07", "C12", "C15"], fn="Dependencies for Expr", desc="Expr::dependencies: the union of the dependencies of ALL parts (both operands, callee and arguments, indexed value and index, optional and its `or` fallback)")], log


UNITS = [VUnit("c07_deps", ["C07", "C12"], "what an expression depends on = what a closure must capture", build)]
UNITS[0].assumes = ["net_dependencies of the parts (recursive call, Value, FunctionArguments, Index) are abstract callees, compared as sets",
                    "Assignment::net_dependencies (filtering of the assigned name), get_net_dependencies of function bodies and the parser's use of the list are not covered"]

"""C05 (+ the "never panics" re-reading for C17, + run-time side of C02/C06): numeric operators of the interpreter.

K-t: the real text of the operator macros (ops.rs), the shorthand constructors, every `impl <Op> for &Primitive`,
`PartialOrd for Primitive`, `Primitive::equals` and `Primitive::negate` is copied token for token into a
dependency-free crate in which `Primitive` is reduced to its scalar variants; match arms whose pattern mentions a
variant that was dropped are removed (listed in the generated header).  One loop-free Kani harness per operator and
kind pair quantifies over the full operand domain (all i32 / i128 / f64 / u8 values): a complete proof, not bounded.
"""
import re
from pathlib import Path
from vlib.rules import *
from vlib.extract import filter_match_arms, extract_macro_rules, extract_item
from vlib import kani as K
from vlib.core import UnitResult

OPS = "bytecode/src/variables/ops.rs"
SH = "bytecode/src/variables/primitive_shorthands.rs"
PRIM = "bytecode/src/variables/primitive.rs"
KEEP_VARIANTS = {"Int", "BigInt", "Float", "Byte", "Bool"}
ALL_VARIANTS = {"Bool", "Str", "Int", "BigInt", "Float", "Byte", "Function", "BuiltInFunction", "Vector", "HeapPrimitive", "Object", "Module", "Optional", "Map"}
DROPPED = ALL_VARIANTS - KEEP_VARIANTS

SHIMS = r"""#![allow(warnings)]
// ---- shims: what the extraction replaces (stated exhaustively in DESIGN.md / evidence) ----
//  anyhow::{Result, bail!, Context}  -> unit error type KErr (error text is never evaluated)
//  log::error!                        -> no-op
//  Primitive                          -> scalar variants only (Int, BigInt, Float, Byte, Bool); arms on other variants dropped
pub struct KErr;
impl<E: std::error::Error> From<E> for KErr { fn from(_: E) -> Self { KErr } }
pub type Result<T, E = KErr> = core::result::Result<T, E>;
macro_rules! bail { ($($t:tt)*) => { return Err(crate::KErr) } }
pub trait Context<T> { fn context<C>(self, c: C) -> Result<T>; fn with_context<C, F: FnOnce() -> C>(self, f: F) -> Result<T>; }
impl<T> Context<T> for Option<T> {
    fn context<C>(self, _c: C) -> Result<T> { match self { Some(v) => Ok(v), None => Err(KErr) } }
    fn with_context<C, F: FnOnce() -> C>(self, _f: F) -> Result<T> { match self { Some(v) => Ok(v), None => Err(KErr) } }
}
impl<T, E> Context<T> for core::result::Result<T, E> {
    fn context<C>(self, _c: C) -> Result<T> { match self { Ok(v) => Ok(v), Err(_) => Err(KErr) } }
    fn with_context<C, F: FnOnce() -> C>(self, _f: F) -> Result<T> { match self { Ok(v) => Ok(v), Err(_) => Err(KErr) } }
}
pub mod log { macro_rules! error { ($($t:tt)*) => { () } } pub(crate) use error; }
#[derive(PartialEq, Debug, Clone)]
pub enum Primitive { Bool(bool), Int(i32), BigInt(i128), Float(f64), Byte(u8) }
pub use Primitive as BytecodePrimitive;
pub mod variables { pub use crate::Primitive; }
impl Primitive { pub fn ty(&self) -> u8 { 0 } }
impl core::fmt::Display for Primitive { fn fmt(&self, _f: &mut core::fmt::Formatter<'_>) -> core::fmt::Result { Ok(()) } }
use crate::variables::Primitive::*;
use std::cmp::Ordering;
"""

KINDS = ["int", "bigint", "float", "byte"]          # kind codes 0..3
ARITH = ["add", "sub"]       # `* / %`: SAT bit-blasting of 32/128-bit multipliers/dividers does not finish -> unit c05_muldiv (V-t)
BITS = ["bitand", "bitor", "bitxor"]
SHIFTS = ["shl", "shr"]
CMPS = ["lt", "le", "gt", "ge"]

HARNESS = r"""
#[cfg(kani)]
mod verif {
    use super::*;
    pub const ADD: u8 = 0; pub const SUB: u8 = 1; pub const MUL: u8 = 2; pub const DIV: u8 = 3; pub const REM: u8 = 4;
    pub const AND: u8 = 5; pub const OR: u8 = 6; pub const XOR: u8 = 7; pub const SHL: u8 = 8; pub const SHR: u8 = 9;
    pub const LT: u8 = 10; pub const LE: u8 = 11; pub const GT: u8 = 12; pub const GE: u8 = 13; pub const EQ: u8 = 14;

    fn any_num(k: u8) -> Primitive { match k { 0 => Primitive::Int(kani::any()), 1 => Primitive::BigInt(kani::any()), 2 => Primitive::Float(kani::any()), _ => Primitive::Byte(kani::any()) } }
    fn kind(p: &Primitive) -> u8 { match p { Primitive::Int(_) => 0, Primitive::BigInt(_) => 1, Primitive::Float(_) => 2, Primitive::Byte(_) => 3, _ => 9 } }
    // promotion table of the property statement: same kinds keep their kind, byte yields to the other operand,
    // int yields to bigint, anything with float is float
    fn promote(l: u8, r: u8) -> u8 { if l == 2 || r == 2 { 2 } else if l == r { l } else if l == 3 { r } else if r == 3 { l } else { 1 } }
    fn as_i128(p: &Primitive) -> i128 { match p { Primitive::Int(x) => *x as i128, Primitive::BigInt(x) => *x, Primitive::Byte(x) => *x as i128, _ => 0 } }
    fn as_f64(p: &Primitive) -> f64 { match p { Primitive::Int(x) => *x as f64, Primitive::BigInt(x) => *x as f64, Primitive::Byte(x) => *x as f64, Primitive::Float(x) => *x, _ => 0.0 } }
    fn fits(k: u8, v: i128) -> bool { match k { 0 => v >= i32::MIN as i128 && v <= i32::MAX as i128, 3 => v >= 0 && v <= 255, _ => true } }
    fn width(k: u8) -> u32 { match k { 0 => 32, 1 => 128, _ => 8 } }

    // the run-time operator under contract (real text above)
    fn apply(op: u8, a: &Primitive, b: &Primitive) -> Result<Primitive> {
        match op {
            ADD => a + b, SUB => a - b, MUL => a * b, DIV => a / b, REM => a % b,
            AND => a & b, OR => a | b, XOR => a ^ b, SHL => a << b, _ => a >> b,
        }
    }
    // exact integer result in the promoted kind pk (None = undefined / not representable).  It is computed with the
    // checked operations of pk's own machine type: "truncating division", "remainder with the sign of the dividend",
    // "overflow" are Rust's definitions for that type (trusted: rustc / CBMC integer semantics).
    macro_rules! exact_in { ($t:ty, $op:expr, $x:expr, $y:expr) => {{
        let (x, y): ($t, $t) = ($x as $t, $y as $t);
        let w = <$t>::BITS as i128;
        let v: Option<$t> = match $op {
            ADD => x.checked_add(y), SUB => x.checked_sub(y), MUL => x.checked_mul(y),
            DIV => if y == 0 { None } else { x.checked_div(y) },
            REM => if y == 0 { None } else { Some(x.wrapping_rem(y)) },           // MIN % -1 == 0 is representable
            AND => Some(x & y), OR => Some(x | y), XOR => Some(x ^ y),
            // x * 2^y, when the kind can hold it: no set bit (no sign change) may be shifted out -- shifting back gives x
            SHL => if ($y as i128) < 0 || ($y as i128) >= w { None } else { let v = x << ($y as u32); if (v >> ($y as u32)) == x { Some(v) } else { None } },
            _   => if ($y as i128) < 0 || ($y as i128) >= w { None } else { Some(x >> ($y as u32)) },
        };
        v.map(|v| v as i128)
    }} }
    fn exact_int(op: u8, pk: u8, x: i128, y: i128) -> Option<i128> {
        match pk { 0 => exact_in!(i32, op, x, y), 3 => exact_in!(u8, op, x, y), _ => exact_in!(i128, op, x, y) }
    }
    fn exact_float(op: u8, x: f64, y: f64) -> f64 { match op { ADD => x + y, SUB => x - y, MUL => x * y, DIV => x / y, _ => x % y } }
    fn same_f64(a: f64, b: f64) -> bool { a.to_bits() == b.to_bits() || (a.is_nan() && b.is_nan()) }

    // C05.<op>.<lk>.<rk>.value : wherever the exact result is defined the operator returns it, in the promoted kind
    pub fn check_value(op: u8, lk: u8, rk: u8) {
        let a = any_num(lk); let b = any_num(rk);
        let pk = promote(lk, rk);
        if pk == 2 {
            if op >= AND { return; }                                       // bitwise/shift on float: see check_fail
            let (x, y) = (as_f64(&a), as_f64(&b));
            if (op == DIV || op == REM) && y == 0.0 { return; }           // zero divisor: see check_fail
            match apply(op, &a, &b) {
                Ok(Primitive::Float(v)) => assert!(same_f64(v, exact_float(op, x, y)), "C05.value: float result differs from IEEE-754 double operation"),
                Ok(_) => assert!(false, "C05.kind: result kind differs from the promotion table"),
                Err(_) => assert!(false, "C05.spurious: operator fails although the exact result is defined"),
            }
        } else {
            let e = exact_int(op, pk, as_i128(&a), as_i128(&b));
            kani::assume(e.is_some());
            match apply(op, &a, &b) {
                Ok(p) => { assert!(kind(&p) == pk, "C05.kind: result kind differs from the promotion table");
                           assert!(as_i128(&p) == e.unwrap(), "C05.value: result differs from the exact value"); }
                Err(_) => assert!(false, "C05.spurious: operator fails although the exact result is defined"),
            }
        }
    }
    // C05.<op>.<lk>.<rk>.fail : wherever the exact result is undefined / unrepresentable no value is produced
    pub fn check_fail(op: u8, lk: u8, rk: u8) {
        let a = any_num(lk); let b = any_num(rk);
        let pk = promote(lk, rk);
        if pk == 2 {
            let undefined = op >= AND || ((op == DIV || op == REM) && as_f64(&b) == 0.0);
            kani::assume(undefined);
        } else {
            kani::assume(exact_int(op, pk, as_i128(&a), as_i128(&b)).is_none());
        }
        let r = apply(op, &a, &b);
        assert!(r.is_err(), "C05.wrong-value: a value is produced although the exact result is undefined or not representable");
    }
    // comparisons and equality: by numeric value across kinds, integer operand converted to double when the other is float
    pub fn check_cmp(op: u8, lk: u8, rk: u8) {
        let a = any_num(lk); let b = any_num(rk);
        let expect = if lk == 2 || rk == 2 {
            let (x, y) = (as_f64(&a), as_f64(&b));
            match op { LT => x < y, LE => x <= y, GT => x > y, GE => x >= y, _ => x == y }
        } else {
            let (x, y) = (as_i128(&a), as_i128(&b));
            match op { LT => x < y, LE => x <= y, GT => x > y, GE => x >= y, _ => x == y }
        };
        let got = match op { LT => a < b, LE => a <= b, GT => a > b, GE => a >= b,
                             _ => match a.equals(&b) { Ok(v) => v, Err(_) => { assert!(false, "C05.spurious: equality of two numbers fails"); false } } };
        assert!(got == expect, "C05.value: comparison differs from comparison by numeric value");
    }
    pub fn check_neg_value(k: u8) {
        let mut a = any_num(k);
        if k == 2 { let x = as_f64(&a); match a.negate() { Ok(()) => assert!(same_f64(as_f64(&a), -x) && kind(&a) == 2, "C05.value: float negation"), Err(_) => assert!(false, "C05.spurious: negation fails") } }
        else { let x = as_i128(&a);
               kani::assume(!(k == 1 && x == i128::MIN)); kani::assume(fits(k, -x));
               match a.negate() { Ok(()) => assert!(kind(&a) == k && as_i128(&a) == -x, "C05.value: negation differs from the exact value"), Err(_) => assert!(false, "C05.spurious: negation fails") } }
    }
    pub fn check_neg_fail(k: u8) {
        let mut a = any_num(k);
        let x = as_i128(&a);
        kani::assume(if k == 1 { x == i128::MIN } else { !fits(k, x.wrapping_neg()) });
        let r = a.negate();
        assert!(r.is_err(), "C05.wrong-value: negation produces a value although the exact result is not representable");
    }
    pub fn check_not() {
        let b: bool = kani::any();
        let x = !b;          // `not` handler: `*val = !*val` on Primitive::Bool (handler itself: unit c05 dispatch, V-t)
        assert!(x != b, "C05.value: boolean not");
    }
    macro_rules! h { ($name:ident, $f:ident ( $($a:expr),* )) => { #[kani::proof] fn $name() { $f($($a),*) } } }
HARNESSES
}
"""


def extract_crate(repo):
    src = Source(repo)
    dropped_log = []

    def keep(pat):
        bad = [t for t in pat if t in DROPPED]
        return not bad

    def filt(toks, what):
        new, dropped = filter_match_arms(toks, "$$s", keep)
        for d in dropped:
            dropped_log.append(f"{what}: dropped arm `{d[:100]}`")
        return new

    parts = []
    ops = src.toks(OPS)
    for m in ("apply_math_bin_op_if_applicable", "apply_bool_bin_op_if_applicable"):
        try:
            parts.append(("// " + OPS + " : macro " + m + " (verbatim)", extract_macro_rules(ops, m)))
        except Exception as e:
            raise Undecided(f"{OPS}: macro {m} not found: {e}")
    sh = src.toks(SH)
    for m in ("int", "bigint", "float", "byte", "bool"):
        try:
            parts.append(("// " + SH + " : macro " + m + " (verbatim)", extract_macro_rules(sh, m)))
        except Exception as e:
            raise Undecided(f"{SH}: macro {m} not found: {e}")
    for f, tr in (("add", "Add"), ("sub", "Sub"), ("mul", "Mul"), ("div", "Div"), ("rem", "Rem")):
        rel = f"bytecode/src/variables/ops/{f}.rs"
        it = src.item(rel, f"impl std :: ops :: {tr} for & Primitive")
        parts.append((f"// {rel} : impl std::ops::{tr} for &Primitive (arms on dropped variants removed)", filt(it["all"], f"{f}.rs")))
    rel = "bytecode/src/variables/ops/bitops.rs"
    bt = src.toks(rel)
    # the whole file except its `use` lines: helper traits / macros, generic_bitop! and its invocations
    i = 0
    body = []
    while i < len(bt):
        if bt[i] == "use":
            while bt[i] != ";":
                i += 1
            i += 1
            continue
        body.append(bt[i]); i += 1
    n_inv = sum(1 for k in range(len(body) - 2) if body[k] == "generic_bitop" and body[k + 1] == "!" and body[k + 2] == "(" and (k == 0 or body[k - 1] != "macro_rules"))
    if n_inv < 5:
        raise Undecided(f"{rel}: expected 5 generic_bitop! invocations, found {n_inv}")
    parts.append((f"// {rel} : the whole file but its `use` lines (helpers, macro generic_bitop, its invocations)", body))
    rel = "bytecode/src/variables/ops/ord.rs"
    for hdr in ("impl std :: cmp :: PartialOrd for Primitive", "impl std :: cmp :: Eq for Primitive", "impl std :: cmp :: Ord for Primitive"):
        it = src.item(rel, hdr)
        parts.append((f"// {rel} : {hdr.replace(' ', '')} (verbatim)", it["all"]))
    # equals / negate from impl Primitive
    feq = src.fn(PRIM, "equals")
    eq_body = filt(feq["body"], "Primitive::equals")
    # impl_eq!(each Optional, Str, Bool, Function with itself) -> keep only retained variants
    log = []
    def each_rule(b):
        names = [t for t in b["l"] if t != ","]
        kept = [n for n in names if n in KEEP_VARIANTS]
        for n in names:
            if n not in KEEP_VARIANTS:
                dropped_log.append(f"Primitive::equals: impl_eq!(each ..): dropped variant {n}")
        return "impl_eq ! ( each " + " , ".join(kept) + " with itself )"
    eq_body = Rule("Kt", "impl_eq ! ( each $$l with itself )", each_rule, count=1).apply(eq_body, log)
    fneg = src.fn(PRIM, "negate")
    parts.append((f"// {PRIM} : Primitive::equals, Primitive::negate (arms on dropped variants removed)",
                  lex("impl Primitive {") + feq["sig"] + ["{"] + eq_body + ["}"] + fneg["sig"] + ["{"] + fneg["body"] + ["}", "}"]))
    text_parts = []
    for c, t in parts:
        if c:
            text_parts.append(c)
        text_parts.append(render(t, 0))
    return "\n".join(text_parts), dropped_log


def harness_list():
    hs = []   # (harness fn name, call text, obligation id, kind: value|fail|cmp)
    opc = {"add": "ADD", "sub": "SUB", "mul": "MUL", "div": "DIV", "rem": "REM", "bitand": "AND", "bitor": "OR", "bitxor": "XOR",
           "shl": "SHL", "shr": "SHR", "lt": "LT", "le": "LE", "gt": "GT", "ge": "GE", "eq": "EQ"}
    for op in ARITH + BITS + SHIFTS:
        for li, lk in enumerate(KINDS):
            for ri, rk in enumerate(KINDS):
                isf = (li == 2 or ri == 2)
                base = f"C05.{op}.{lk}.{rk}"
                if not (isf and op in BITS + SHIFTS):
                    hs.append((f"v_{op}_{lk}_{rk}", f"check_value({opc[op]}, {li}, {ri})", base + ".value", "value"))
                needs_fail = True
                if op in BITS and not isf:
                    needs_fail = False        # bitwise on integers is always defined
                if isf and op in ("add", "sub", "mul"):
                    needs_fail = False        # float + - * is total (IEEE)
                if needs_fail:
                    hs.append((f"f_{op}_{lk}_{rk}", f"check_fail({opc[op]}, {li}, {ri})", base + ".fail", "fail"))
    for op in CMPS + ["eq"]:
        for li, lk in enumerate(KINDS):
            for ri, rk in enumerate(KINDS):
                hs.append((f"c_{op}_{lk}_{rk}", f"check_cmp({opc[op]}, {li}, {ri})", f"C05.{op}.{lk}.{rk}.value", "cmp"))
    for ki, k in enumerate(KINDS[:3]):
        hs.append((f"v_neg_{k}", f"check_neg_value({ki})", f"C05.neg.{k}.value", "value"))
        if k != "float":
            hs.append((f"f_neg_{k}", f"check_neg_fail({ki})", f"C05.neg.{k}.fail", "fail"))
    hs.append(("v_not", "check_not()", "C05.not.value", "value"))
    return hs


class OpsUnit:
    engine = "kani"
    uid = "c05_ops"
    props = ["C05", "C17", "C02", "C06", "C01"]
    title = "numeric operators: exact value / promoted kind / failure, all operand values (K-t)"
    timeout = 3000
    assumes = [
        "K-t extraction: Primitive reduced to Bool/Int/BigInt/Float/Byte; match arms on Str/Vector/Optional/... dropped (listed per run); anyhow/log replaced by unit shims; error texts never evaluated",
        "overflow detection relies on overflow-checks=on (dev profile, also what Kani models); a --release build would wrap",
        "Kani/CBMC IEEE-754 double semantics incl. fmod for float %",
        "operand order and symbol dispatch of the bin_op/equ/neg handlers are not part of this unit",
    ]

    def run(self, repo, workdir, tier):
        res = UnitResult(self.uid)
        res.engine = "kani 0.68 / cbmc 6.11 (K-t: real text in a dependency-free crate)"
        real, dropped = extract_crate(repo)
        hs = harness_list()
        only = os.environ.get("VERIF_C05_ONLY")
        if only:
            hs = [h for h in hs if re.search(only, h[2])]
        htext = "\n".join(f"    h!({n}, {call});" for n, call, _, _ in hs)
        lib = SHIMS + "\n// ======== real text, extracted on this run ========\n" + real + "\n" + HARNESS.replace("HARNESSES", htext)
        hdr = "// GENERATED on every run from /repo's working tree (K-t). Dropped by the extraction:\n" + "\n".join("//   " + d for d in dropped) + "\n"
        crate = K.write_crate(Path(workdir) / "kt_ops", "kt_ops", hdr + lib)
        res.gen_path = str(crate / "src/lib.rs")
        per, raw, wall, cmd, timed_out = K.run_kani(crate, jobs=int(os.environ.get("VERIF_KANI_JOBS", "14")), timeout=self.timeout, harness_timeout=int(os.environ.get("VERIF_KANI_HARNESS_TIMEOUT", "300")))
        res.raw = raw[-20000:]
        res.checker_cmd = cmd
        res.functions = ["ops.rs: apply_math_bin_op_if_applicable!, apply_bool_bin_op_if_applicable!", "add.rs/sub.rs/mul.rs/div.rs/rem.rs: impl <Op> for &Primitive",
                         "bitops.rs: generic_bitop! (BitAnd, BitOr, BitXor, Shl, Shr)", "ord.rs: PartialOrd/Ord for Primitive", "primitive.rs: Primitive::equals, Primitive::negate"]
        res.assumptions = ["K-t dropped: " + d for d in dropped[:40]]
        res.samples = [f"{o}: harness {n} = {c}" for n, c, o, _ in hs[:3]]
        if not per:
            res.undecided = "kani produced no harness results (build failure?): " + raw[-2500:]
            return res
        obls = []
        for n, call, oid, kind in hs:
            r = per.get(n)
            o5 = Obl(oid, ["C05", "C06", "C01"] + (["C02"] if kind != "fail" else []), fn=n, engine="kani/cbmc", desc=f"{call}: all operand values of the two kinds")
            parts = oid.split(".")
            o17 = Obl("C17.nopanic." + ".".join(parts[1:]), ["C17"], fn=n, engine="kani/cbmc",
                      desc=f"no Rust panic (overflow, division by zero, ...) inside the operator for any operand values [{call}]")
            if r is None or r["status"] is None or r["oom"] or r["unwind"] or r["unsupported"]:
                why = "not run / no result" if r is None else ("CBMC timed out" if r.get("timeout") else "out of memory" if r["oom"] else "no verdict" if r["status"] is None else "unwinding/unsupported")
                if timed_out:
                    why = "kani timeout"
                for o in (o5, o17):
                    o.status = "undecided"; o.detail = why
                obls += [o5, o17]
                continue
            named, panics, ign, other = K.classify(r["failed"])
            o5.time_s = r["time"]; o17.time_s = 0.0
            if other:
                for o in (o5, o17):
                    o.status = "undecided"; o.detail = "unclassified failed check: " + repr(other[:2])
                obls += [o5, o17]
                continue
            # C05: named assertion failure = violation; a Rust panic where the exact result is defined = violation too
            if named or (panics and kind != "fail"):
                o5.status = "failed"
                o5.detail = "\n".join(f"{d} @ {l}" for d, l in named + (panics if kind != "fail" else []))
            else:
                o5.status = "discharged"
            if panics:
                o17.status = "failed"
                o17.detail = "\n".join(f"Rust panic instead of an MScript error: {d} @ {l}" for d, l in panics)
            else:
                o17.status = "discharged"
            obls += [o5, o17]
        res.obls = obls
        return res

    def witness(self, repo, o, res):
        """the verifier's counterexample: kani concrete playback gives the operand bytes; they are decoded and replayed on the real CLI"""
        try:
            crate = Path(res.gen_path).parent.parent
            if not crate.exists():
                return None
            env = dict(os.environ, CARGO_NET_OFFLINE="true"); env.pop("RUSTUP_TOOLCHAIN", None)
            p = subprocess.run(["cargo", "kani", "--harness", o.fn, "-Z", "concrete-playback", "--concrete-playback=print"], cwd=crate, capture_output=True, text=True, timeout=600, env=env)
            m = re.search(r"Concrete playback unit test for `[^`]*`:\n```\n(.*?)```", p.stdout, re.S)
            if m:
                w = {"found": True, "kani_concrete_playback_test": m.group(1), "note": "byte vectors are the values of kani::any() in harness order"}
                rp = getattr(self, "cli_replay", None)
                if rp:
                    try:
                        from vlib import numreplay
                        w["real_cli"] = rp(repo, o, numreplay.parse_playback(m.group(1)))
                    except Exception as e:
                        w["real_cli"] = {"replayed_on_real_cli": False, "why": f"replay aid failed: {e}"}
                return w
        except Exception as e:
            return {"found": False, "error": str(e)}
        return None

    def cli_replay(self, repo, o, vals):
        from vlib import numreplay as N
        parts = o.oid.split(".")
        parts = parts[2:] if parts[0] == "C17" else parts[1:]          # C17.nopanic.<op>... / C05.<op>...
        op = parts[0]
        if op == "neg":
            return N.replay_neg(repo, parts[1], N.decode(parts[1], vals[0]))
        if op not in N.SYMS or len(vals) < 2:
            return {"replayed_on_real_cli": False, "why": "no program template for this obligation"}
        lk, rk = parts[1], parts[2]
        return N.replay_binop(repo, op, lk, rk, N.decode(lk, vals[0]), N.decode(rk, vals[1]))


import os, subprocess
UNITS = [OpsUnit()]

"""C19 / C17: Program::process_standard_jump_request (interpreter.rs), the tail that runs the target function: whatever that function fails
with -- a raised foreign error, a missing library, a missing symbol, any run-time failure -- is what the requester fails with: the error
itself (message and cause chain), for calls and for module imports alike.  Errors have identity here (as in c01_run_step): `?` and added
context pass THE error on, `bail!` makes a new one."""
from vlib.rules import *
from vlib.pattern import Pat

FILE = "bytecode/src/interpreter.rs"

SPEC = r"""
use vstd::prelude::*;
verus! {
#[verifier::external_body] pub struct VErr { x: usize }
#[verifier::external_body] pub fn verr_new() -> (r: VErr) { unimplemented!() }
#[verifier::external_body] pub struct PathV { x: usize }
#[verifier::external_body] pub struct CapsV { x: usize }
#[verifier::external_body] pub struct ReturnValue { x: usize }
#[verifier::external_body] pub struct FileV { x: usize }          // Rc<MScriptFile>
pub enum JumpRequestDestination { Standard(PathV), Module(PathV), Library { lib_name: PathV, func_name: PathV } }
pub struct JumpRequest { pub destination: JumpRequestDestination, pub callback_state: Option<CapsV> }
#[verifier::external_body] pub fn clone_caps(c: &Option<CapsV>) -> (r: Option<CapsV>) ensures r == *c { unimplemented!() }
// file.run_function(label, arguments, stack, callback_state, jump callback): runs the target; abstract
pub uninterp spec fn ran(f: &FileV, label: &PathV, req: &JumpRequest, caps: Option<CapsV>) -> Result<ReturnValue, VErr>;
#[verifier::external_body] pub fn run_function(f: &FileV, label: &PathV, req: &JumpRequest, caps: Option<CapsV>) -> (r: Result<ReturnValue, VErr>) ensures r == ran(f, label, req, caps) { unimplemented!() }
"""


def build(repo):
    src = Source(repo)
    log = []
    f = src.fn(FILE, "process_standard_jump_request", "impl Program")
    body = f["body"]
    p = Pat("let file = self . get_file ( path_ref ) $$rest ;")
    at = None
    for i in range(len(body)):
        r = p.match_at(body, i)
        if r:
            at = r[0]; break
    if at is None:
        raise Undecided(f"{FILE}: `let file = self.get_file(path_ref)..;` not found in process_standard_jump_request")
    frag = body[at:]
    log.append(("R0", "process_standard_jump_request", "its tail after `let file = self.get_file(path_ref)..;`", "fragment: the label parsing and file lookup in front of it produce `file`, `label`, `path` (parameters)"))
    b = translate(frag, [
        Rule("R1", "request . callback_state . clone ( )", "clone_caps ( & request . callback_state )", why="Option<VariableMapping>::clone"),
        Rule("R6", "file . run_function ( $$a )", "run_function ( & file , label , request , callback_state )", count=1, why="the callee (target function with its arguments, stack, captured variables; nested requests come back through process_jump_request): abstract"),
        Rule("R3", "bail ! $a", "return Err ( verr_new ( ) )", why="bail!: a NEW error (its text is not modelled)"),
        Rule("R1", "JD :: $v", "JumpRequestDestination :: $v", why="local alias"),
        Rule("R3", ". with_context ( $$c )", "", why="added context keeps the error"),
        Rule("R3", ". context ( $m )", "", why="added context keeps the error"),
    ], log, "process_standard_jump_request[tail]")
    check_closed(b, "process_standard_jump_request[tail]")
    gen = header(log, f"{FILE}: Program::process_standard_jump_request, tail") + SPEC + f"""
//@ OBL C19.jump.error-unchanged
pub fn run_target(file: FileV, label: &PathV, path: &PathV, request: &JumpRequest) -> (r: Result<ReturnValue, VErr>)
    ensures
        // the target runs as the closure it is (its captured variables are passed on) and its outcome -- value or error -- is the outcome
        r == ran(&file, label, request, request.callback_state),
{{
{render(b, 1)}
}}
}} // verus!
fn main() {{}}
"""
    return gen, [Obl("C19.jump.error-unchanged", ["C19", "C17", "C07"], fn="Program::process_standard_jump_request[tail]", desc="process_standard_jump_request: the target's outcome (value, or the error itself) is the request's outcome, for calls and imports; captured variables passed on")], log


UNITS = [VUnit("c19_jump_error", ["C19", "C17", "C07"], "a called function's failure is the caller's failure, unchanged", build)]
UNITS[0].assumes = ["fragment: the tail of process_standard_jump_request; label parsing (split at `#`), file registration and lookup in front of it are not under contract", "MScriptFile::run_function abstract"]

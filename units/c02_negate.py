"""C02: unary minus is typed only for the kinds the run-time `neg` succeeds on (int, bigint, float) -- TypeLayout::supports_negate (type.rs)
against the run-time contract C05.neg.* proves of Primitive::negate."""
from vlib.rules import *

TYPE = "compiler/src/ast/type.rs"

SPEC = r"""
use vstd::prelude::*;
verus! {
#[verifier::external_body] pub struct StrWrapper { x: usize }
#[verifier::external_body] pub struct OtherT { x: usize }
pub enum NativeType { Bool, Str(StrWrapper), Int, BigInt, Float, Byte }
pub enum TypeLayout { Native(NativeType), Other(OtherT) }
pub uninterp spec fn resolved(t: TypeLayout) -> TypeLayout;          // get_type_recursively: aliases / wrappers looked through
impl TypeLayout {
    #[verifier::external_body] pub fn get_type_recursively(&self) -> (r: &TypeLayout) ensures *r == resolved(*self) { unimplemented!() }
    #[verifier::external_body] pub fn disregard_distractors(&self, include_optional: bool) -> (r: &TypeLayout) ensures *r == resolved(*self) { unimplemented!() }
}
// the kinds on which the run-time unary minus yields a value (obligations C05.neg.int / bigint / float; bytes, bools, strings have no negation)
pub open spec fn rt_negatable(t: TypeLayout) -> bool { t matches TypeLayout::Native(k) && (k is Int || k is BigInt || k is Float) }
"""


def build(repo):
    src = Source(repo)
    log = []
    f = src.fn(TYPE, "supports_negate", "impl TypeLayout")
    b = translate(f["body"], [Rule("R1", "Self :: Native", "TypeLayout :: Native", why="Self -> TypeLayout")], log, "TypeLayout::supports_negate")
    check_closed(b, "supports_negate")
    # kind tests of TypeLayout a change may route the decision through: real text, under their own contracts
    fnum = src.fn(TYPE, "is_numeric", "impl TypeLayout")
    bnum = translate(fnum["body"], [Rule("R1", "Self :: Native", "TypeLayout :: Native", why="Self -> TypeLayout")], log, "TypeLayout::is_numeric")
    check_closed(bnum, "is_numeric")
    gen = header(log, f"{TYPE}: TypeLayout::supports_negate") + SPEC + f"""
impl TypeLayout {{
    //@ OBL C02.negate.sound
    pub fn supports_negate(&self) -> (r: bool)
        ensures r == rt_negatable(resolved(*self))
    {{
{render(b, 2)}
    }}
    //@ OBL C02.kind.is_numeric
    pub fn is_numeric(&self, allow_byte: bool) -> (r: bool)
        ensures r == (resolved(*self) matches TypeLayout::Native(k) && (k is Int || k is BigInt || k is Float || (allow_byte && k is Byte)))
    {{
{render(bnum, 2)}
    }}
}}
}} // verus!
fn main() {{}}
"""
    return gen, [Obl("C02.kind.is_numeric", ["C02", "C03"], fn="TypeLayout::is_numeric", desc="is_numeric: int, bigint, float -- and byte only when asked for"), Obl("C02.negate.sound", ["C02", "C03"], fn="TypeLayout::supports_negate", desc="supports_negate: exactly the kinds on which the run-time unary minus yields a value (int, bigint, float)")], log


UNITS = [VUnit("c02_negate", ["C02", "C03"], "unary minus: static support = run-time support", build)]
UNITS[0].assumes = ["get_type_recursively abstract; the run-time side is the C05.neg.* obligations (Primitive::negate has arms for Int, BigInt, Float only)"]

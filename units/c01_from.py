"""C01/C09: NumberLoop::compile -- `from a to|through b [step s] [, name]` layout for all block lengths."""
from vlib.rules import *

FILE = "compiler/src/ast/number_loop.rs"

SPEC = r"""
pub struct Value; pub struct Block; pub struct Ident;
pub open spec fn no_placeholders(s: Seq<CompiledItem>) -> bool {
    forall|i: int| 0 <= i < s.len() ==> !(#[trigger] s[i] is Break) && !(s[i] is Continue)
}
// assumed contract on the abstract child: expression code carries no loop-control placeholders
#[verifier::external_body] pub fn value_compile(v: &Value, s: &CompilationState) -> (r: Result<Vec<CompiledItem>, VErr>)
    ensures r is Ok ==> no_placeholders(r->Ok_0@)
{ unimplemented!() }
// assumed contract on the abstract child: placeholders carry a frame count >= 1 (scopes_since_loop postcondition)
#[verifier::external_body] pub fn block_compile(v: &Block, s: &CompilationState) -> (r: Result<Vec<CompiledItem>, VErr>)
    ensures r is Ok ==> forall|i: int| 0 <= i < r->Ok_0@.len() ==> (#[trigger] r->Ok_0@[i] is Continue ==> r->Ok_0@[i]->Continue_0 >= 1)
{ unimplemented!() }

// loop registers (NumberLoopRegister): opaque, identified by reg_id; rendered into instruction arguments by Display
#[verifier::external_body] pub struct Reg { x: usize }
pub uninterp spec fn reg_id(r: &Reg) -> int;
impl ToVs for Reg {
    open spec fn as_num(&self) -> int { reg_id(self) }
    open spec fn as_text(&self) -> Seq<char> { dec_text(reg_id(self)) }
    #[verifier::external_body] fn to_vs(&self) -> (r: VString) { unimplemented!() }
}
#[verifier::external_body] pub fn reg_from_option(o: Option<&Ident>, s: &CompilationState) -> (r: Reg) { unimplemented!() }
#[verifier::external_body] pub fn poll_loop_register(s: &CompilationState) -> (r: Reg) { unimplemented!() }
#[verifier::external_body] pub fn reg_free(r: Reg, s: &CompilationState) { unimplemented!() }
#[verifier::external_body] pub fn strlit_vs(s: &'static str) -> (r: VString) ensures text_of(&r) == s@ { unimplemented!() }

pub struct NumberLoop { pub inclusive: bool, pub val_start: Value, pub val_end: Value, pub step: Option<Value>, pub name: Option<Ident>, pub body: Block, pub name_is_collision: bool }

// out = start ++ [store_fast L] ++ end ++ [store_fast E]                      (pre instructions)
//       ++ [load_fast L, load_fast E, bin_op "<" | "<="]                      (condition, at pre)
//       ++ [while_loop off]                                                   (at q = pre + 3)
//       ++ body'(b0) ++ step(st) ending in [bin_op_assign "+=" L] ++ [jmp_pop back] ++ [delete_name_scoped L E]?
pub open spec fn from_layout(out: Seq<CompiledItem>, a: int, pre: int, b0: int, st: int, body: Seq<CompiledItem>, l: int, e: int, inclusive: bool, collision: bool, has_step: bool) -> bool {
    let q = pre + 3;
    &&& 0 <= a && a + 2 <= pre && 0 <= b0 && 1 <= st && body.len() == b0
    // counter stored (after the start value's code) before the condition: into the EXISTING variable when the counter re-uses a name
    // (`store` writes the visible variable's own cell), into a fresh local of the innermost frame otherwise
    &&& is_instr(out[a], if collision { STORE } else { STORE_FAST }) && nargs(out[a]) == 1 && argn(out[a], 0) == l
    &&& out.len() == q + 1 + b0 + st + 1 + (if collision { 0int } else { 1int })
    &&& is_instr(out[pre - 1], STORE_FAST) && nargs(out[pre - 1]) == 1 && argn(out[pre - 1], 0) == e      // bound stored before the condition
    &&& is_instr(out[pre], LOAD_FAST) && nargs(out[pre]) == 1 && argn(out[pre], 0) == l
    &&& is_instr(out[pre + 1], LOAD_FAST) && nargs(out[pre + 1]) == 1 && argn(out[pre + 1], 0) == e
    &&& is_instr(out[pre + 2], BIN_OP) && nargs(out[pre + 2]) == 1
            && argt(out[pre + 2], 0) == (if inclusive { "<="@ } else { "<"@ })                              // through => "<=", to => "<"
    &&& is_instr(out[q], WHILE_LOOP) && nargs(out[q]) == 1 && q + argn(out[q], 0) == q + 1 + b0 + st + 1     // exit: one past the closing jmp_pop
    &&& is_instr(out[q + b0 + st], BIN_OP_ASSIGN) && nargs(out[q + b0 + st]) == 2
            && argt(out[q + b0 + st], 0) == "+="@ && argn(out[q + b0 + st], 1) == l                          // counter += step closes the step code
    &&& (!has_step ==> st == 2 && is_instr(out[q + b0 + 1], MAKE_INT) && nargs(out[q + b0 + 1]) == 1 && argt(out[q + b0 + 1], 0) == "1"@)  // default step 1
    &&& is_instr(out[q + 1 + b0 + st], JMP_POP) && nargs(out[q + 1 + b0 + st]) == 1
    &&& (q + 1 + b0 + st) + argn(out[q + 1 + b0 + st], 0) == pre                                            // back to the first instruction of the condition
    &&& forall|i: int| 0 <= i < b0 ==> #[trigger] from_item_ok(out[q + 1 + i], body[i], q + 1 + i, q, b0, st)
    &&& (!collision ==> is_instr(out[q + 1 + b0 + st + 1], DELETE_NAME_SCOPED) && nargs(out[q + 1 + b0 + st + 1]) == 2
            && argn(out[q + 1 + b0 + st + 1], 0) == l && argn(out[q + 1 + b0 + st + 1], 1) == e)
}
pub open spec fn from_item_ok(o: CompiledItem, src: CompiledItem, pos: int, q: int, b0: int, st: int) -> bool {
    match src {
        CompiledItem::Continue(k) => is_instr(o, JMP_POP) && nargs(o) == 2
            && pos + argn(o, 0) == q + 1 + b0          // continue: first instruction of the step code (the counter is still advanced)
            && argn(o, 1) == k - 1,
        CompiledItem::Break(k) => is_instr(o, JMP_POP) && nargs(o) == 2
            && pos + argn(o, 0) == q + 1 + b0 + st + 1  // break: one past the closing jmp_pop
            && argn(o, 1) == k,
        _ => o == src,
    }
}
pub open spec fn from_wellformed(out: Seq<CompiledItem>, inclusive: bool, collision: bool, has_step: bool) -> bool {
    exists|a: int, pre: int, b0: int, st: int, body: Seq<CompiledItem>, l: int, e: int| #[trigger] from_layout(out, a, pre, b0, st, body, l, e, inclusive, collision, has_step)
}
"""

INV = """invariant
    $K <= $V.len(), $V@.len() == b0 + st + 1,
    st >= 1, b0 < 0x1000_0000, st < 0x1000_0002, b0 == body0.len(),
    full0.len() == b0 + st + 1,
    forall|i: int| 0 <= i < b0 ==> #[trigger] full0[i] == body0[i],
    forall|i: int| b0 <= i < b0 + st + 1 ==> !(#[trigger] full0[i] is Break) && !(full0[i] is Continue),
    forall|i: int| 0 <= i < b0 + st + 1 && (i >= $K || i >= b0) ==> #[trigger] $V@[i] == full0[i],
    forall|i: int| 0 <= i < b0 ==> (#[trigger] body0[i] is Continue ==> body0[i]->Continue_0 >= 1),
    forall|i: int| 0 <= i < $K && i < b0 ==> #[trigger] from_item_ok($V@[i], body0[i], q + 1 + i, q, b0, st),
decreases $V.len() - $K,"""
BEFORE = """let ghost full0 = $V@; let ghost q = pre + 3;
proof {
    assert(forall|i: int| 0 <= i < b0 ==> #[trigger] full0[i] == body0[i]);
    assert forall|i: int| b0 <= i < b0 + st + 1 implies !(#[trigger] full0[i] is Break) && !(full0[i] is Continue) by {
        if i < b0 + st { assert(full0[i] == step0[i - b0]); }
    }
}"""
PRE = """let ghost before = $V@;
proof {
    assert(before[idx as int] == full0[idx as int]);
    if idx < b0 { assert(full0[idx as int] == body0[idx as int]); }
}"""
POST = """proof {
    assert(forall|j: int| 0 <= j < before.len() && j != idx ==> $V@[j] == #[trigger] before[j]);
    if idx < b0 { assert(from_item_ok($V@[idx as int], body0[idx as int], q + 1 + idx, q, b0, st)); }
}"""


def build(repo):
    src = Source(repo)
    ids = opcode_ids(repo)
    log = []
    f = src.fn(FILE, "compile", "impl Compile for NumberLoop")
    rules = [
        R_CONST_LOCAL, R12_VEC_EMPTY, R7_TRY_INTO_ISIZE, r_instruction(ids),
        Rule("R6", "NumberLoopRegister :: from_option ( self . name . as_ref ( ) , state )", "reg_from_option ( self . name . as_ref ( ) , state )", count=1, why="register allocation abstract (opaque register)"),
        Rule("R6", "state . poll_loop_register ( )", "poll_loop_register ( state )", count=1, why="register allocation abstract (opaque register)"),
        Rule("R6", "$r . free ( state ) ;", "reg_free ( $r , state ) ;", count=2, why="register release abstract"),
        Rule("R6", "self . val_start . compile ( state )", "value_compile ( & self . val_start , state )", count=1, why="child Value::compile abstract"),
        Rule("R6", "self . val_end . compile ( state )", "value_compile ( & self . val_end , state )", count=1, why="child Value::compile abstract"),
        Rule("R6", "self . body . compile ( state )", "block_compile ( & self . body , state )", count=1, why="child Block::compile abstract"),
        Rule("R6", "$v . append ( & mut step . compile ( state ) ? )",
             ["{ let mut verif_step = value_compile ( step , state ) ? ;", G("assume(verif_step.len() < 0x1000_0000);  // stated assumption: block lengths < 2^28"),
              "$v . append ( & mut verif_step ) }"], count=1, why="child Value::compile abstract; temporary named"),
        Rule("R1", "Box :: new ( [ $s . to_owned ( ) ] )", "args1 ( strlit_vs ( $s ) )", count=1, why="boxed slice of one String literal -> argument vector"),
        # ghost
        Rule("R11", "let mut $v = value_compile ( & self . val_end , state ) ? ;",
             ["let mut $v = value_compile ( & self . val_end , state ) ? ;", G("assume(val_start.len() < 0x1000_0000 && $v.len() < 0x1000_0000);  // stated assumption: block lengths < 2^28\nlet ghost a0 = val_start@.len() as int;")], count=1),
        Rule("R11", f"result . push ( mk_instr ( {ids['store_fast']}u8 , args1 ( ( end_loop_register ) . to_vs ( ) ) ) ) ;",
             [f"result . push ( mk_instr ( {ids['store_fast']}u8 , args1 ( ( end_loop_register ) . to_vs ( ) ) ) ) ;", G("let ghost pre = result@.len() as int;")], count=1),
        Rule("R11", "let mut $v = block_compile ( $$a ) ? ;",
             ["let mut $v = block_compile ( $$a ) ? ;",
              G("let ghost body0 = $v@; let ghost b0 = body0.len() as int;\nassume($v.len() < 0x1000_0000);  // stated assumption: block lengths < 2^28")], count=1),
        Rule("R11", "body_compiled . append ( & mut step_compiled ) ;",
             [G("let ghost st = step_compiled@.len() as int; let ghost step0 = step_compiled@;\n"
                "proof { assert(no_placeholders(step0)) by { assert forall|i: int| 0 <= i < step0.len() implies !(#[trigger] step0[i] is Break) && !(step0[i] is Continue) by { } } }"),
              "body_compiled . append ( & mut step_compiled ) ;"], count=1),
        for_each_iter_mut_enumerate("f", INV, PRE, POST, before=BEFORE),
        Rule("R11", "result . append ( & mut body_compiled ) ;", [G("let ghost bc = body_compiled@;"), "result . append ( & mut body_compiled ) ;"], count=1),
        Rule("R11", "Ok ( result )",
             [G("""proof {
    let out = result@;
    assert(out.len() == q + 1 + b0 + st + 1 + (if self.name_is_collision { 0int } else { 1int }));
    assert(forall|i: int| 0 <= i < b0 + st + 1 ==> out[q + 1 + i] == bc[i]);
    assert(bc[b0 + st - 1] == full0[b0 + st - 1]);
    assert(full0[b0 + st - 1] == step0[st - 1]);
    assert(bc[b0 + st] == full0[b0 + st]);
    if self.step.is_none() { assert(bc[b0] == full0[b0]); assert(full0[b0] == step0[0]); }
    assert(forall|i: int| 0 <= i < b0 ==> #[trigger] from_item_ok(out[q + 1 + i], body0[i], q + 1 + i, q, b0, st));
    assert(from_layout(out, a0, pre, b0, st, body0, reg_id(&loop_identity), reg_id(&end_loop_register), self.inclusive, self.name_is_collision, self.step.is_some()));
}"""), "Ok ( result )"], count=1),
    ]
    t = translate(f["body"], rules, log, "NumberLoop::compile")
    check_closed(t, "NumberLoop::compile")
    gen = header(log, f"{FILE}: NumberLoop::compile") + prelude("compile.rs") + \
        opcode_consts(ids, ["while_loop", "jmp_pop", "store", "store_fast", "load_fast", "bin_op", "bin_op_assign", "delete_name_scoped", "make_int"]) + SPEC + f"""
impl NumberLoop {{
    //@ OBL C01.from.layout
    #[verifier::loop_isolation(false)]
    pub fn compile(&self, state: &CompilationState) -> (r: Result<Vec<CompiledItem>, VErr>)
        ensures r is Ok ==> from_wellformed(r->Ok_0@, self.inclusive, self.name_is_collision, self.step.is_some())
    {{
{render(t, 2)}
    }}
}}

}} // verus!
fn main() {{}}
"""
    obls = [Obl("C01.from.layout", ["C01", "C09"], fn="NumberLoop::compile",
                desc="NumberLoop::compile: counter and bound stored before the condition; condition load L; load E; bin_op '<' (to) / '<=' (through); default step make_int 1; "
                     "bin_op_assign '+=' L closes the step code; while_loop exits one past the closing jmp_pop; closing jmp_pop returns to the first condition instruction; "
                     "Continue(k) -> jmp_pop to the first step instruction popping k-1; Break(k) -> jmp_pop one past the closing jmp_pop popping k; delete_name_scoped L E iff no name collision")]
    return gen, obls, log


UNITS = [VUnit("c01_from", ["C01", "C09"], "from-loop layout", build)]

"""C15 (+C09, C12 compile side): the `Expr::BinOp` arm of compile_depth -- operand order, short-circuit layout, and
"the saved left value is not disturbed by the code of the right operand" (register discipline)."""
from vlib.rules import *
from vlib.extract import extract_match_arm

FILE = "compiler/src/ast/math_expr.rs"

SPEC = r"""
#[verifier::external_body] pub fn strlit_vs(s: &'static str) -> (r: VString) ensures text_of(&r) == s@ { unimplemented!() }

// temporary registers: `#id`; poll hands out the current counter value and advances it; dropping a register gives it back
#[verifier::external_body] pub struct Reg { x: usize }
pub uninterp spec fn reg_id(r: &Reg) -> int;
pub uninterp spec fn reg_owned(r: &Reg) -> bool;           // handed out by the allocator (backed by the counter), as opposed to a ghost register
pub uninterp spec fn is_reg_arg(s: &VString) -> bool;       // the argument text is a temporary register `#k`
impl ToVs for Reg {
    open spec fn as_num(&self) -> int { reg_id(self) }
    open spec fn as_text(&self) -> Seq<char> { dec_text(reg_id(self)) }
    #[verifier::external_body] fn to_vs(&self) -> (r: VString) ensures is_reg_arg(&r) { unimplemented!() }
}
#[verifier::external_body] pub struct State { x: usize }
pub uninterp spec fn count(s: &State) -> int;                // temporary_register_c
#[verifier::external_body] pub fn poll_temporary_register(s: &mut State) -> (r: Reg)
    ensures reg_id(&r) == count(old(s)), reg_owned(&r), count(final(s)) == count(old(s)) + 1 { unimplemented!() }
// TemporaryRegister::new_ghost_register(id): a register name that is NOT backed by the counter (unsafe fn in ast.rs)
#[verifier::external_body] pub fn new_ghost_register(id: usize) -> (r: Reg) ensures reg_id(&r) == id, !reg_owned(&r) { unimplemented!() }
#[verifier::external_body] pub fn reg_id_of(r: &Reg) -> (i: usize) ensures i == reg_id(r) { unimplemented!() }

#[verifier::external_body] pub struct Ident { x: usize }
#[verifier::external_body] pub fn ident_name(i: &Ident) -> (r: VString) ensures !is_reg_arg(&r) { unimplemented!() }
#[verifier::external_body] pub struct ValueV { x: usize }
pub enum Value { Ident(Ident), Other(ValueV) }
#[verifier::external_body] pub struct ExprV { x: usize }
pub enum Expr { Value(Value), DotLookup { x: ExprV }, Index { x: ExprV }, BinOp { op: Op, x: ExprV }, Nil, Other(ExprV) }
pub enum Op { Add, Subtract, Multiply, Divide, Modulo, Lt, Gt, Lte, Gte, Eq, Neq, And, Or, Xor, Unwrap, AddAssign, SubAssign, MulAssign, DivAssign, ModAssign, BinaryXor, BinaryOr, BinaryAnd, BitwiseLs, BitwiseRs, Is }
pub uninterp spec fn op_symbol(o: Op) -> Seq<char>;
#[verifier::external_body] pub fn op_symbol_vs(o: &Op) -> (r: VString) ensures text_of(&r) == op_symbol(*o), !is_reg_arg(&r) { unimplemented!() }

// the register an instruction writes (store_fast R / store_skip R ..)
pub open spec fn reg_write(it: CompiledItem) -> Option<int> {
    if (is_instr(it, STORE_FAST) || is_instr(it, STORE_SKIP)) && nargs(it) >= 1 && is_reg_arg(&it->arguments@[0]) { Some(argn(it, 0)) } else { None }
}
// code compiled for register d while the counter was c writes only d or registers handed out later
pub open spec fn writes_ok(out: Seq<CompiledItem>, d: int, c: int) -> bool {
    forall|i: int| 0 <= i < out.len() ==> (#[trigger] reg_write(out[i]) is Some ==> (reg_write(out[i])->Some_0 == d || reg_write(out[i])->Some_0 >= c))
}
// the recursive call (any expression): assumed with the contract this arm is proved to establish itself (induction hypothesis)
#[verifier::external_body]
pub fn compile_depth(e: &Expr, s: &mut State, depth: Reg) -> (r: Result<Vec<CompiledItem>, VErr>)
    requires reg_id(&depth) < count(old(s)), reg_owned(&depth)          // the callee releases the register it is given: it must be one the allocator handed out
    ensures count(final(s)) == count(old(s)) - 1, r is Ok ==> writes_ok(r->Ok_0@, reg_id(&depth), count(old(s))),
            r is Ok ==> r->Ok_0@ == code_of(*e, count(old(s)), reg_id(&depth))        // WHICH code: the code of that expression (for the twin obligation below)
{ unimplemented!() }
pub uninterp spec fn code_of(e: Expr, c: int, d: int) -> Seq<CompiledItem>;
#[verifier::external_body] pub fn vpanic() requires false { unimplemented!() }

// `a && b` / `a || b`:  out = code(a) ++ [store_skip d p n] ++ code(b) ++ [load_fast d, bin_op sym]
pub open spec fn andor_layout(out: Seq<CompiledItem>, l: Seq<CompiledItem>, r: Seq<CompiledItem>, d: int, pred: Seq<char>, sym: Seq<char>) -> bool {
    let p = l.len() as int;
    &&& out.len() == p + 1 + r.len() + 2
    &&& out.subrange(0, p) == l                                   // left operand's code first, once
    &&& is_instr(out[p], STORE_SKIP) && nargs(out[p]) == 3 && is_reg_arg(&out[p]->arguments@[0])
    &&& argn(out[p], 0) == d && argt(out[p], 1) == pred
    &&& p + argn(out[p], 2) == out.len()                          // short circuit: lands one past the final bin_op, so b is not evaluated
    &&& out.subrange(p + 1, p + 1 + r.len()) == r                 // right operand's code second, once
    &&& is_instr(out[p + 1 + r.len()], LOAD_FAST) && argn(out[p + 1 + r.len()], 0) == d
    &&& is_instr(out[p + 2 + r.len()], BIN_OP) && nargs(out[p + 2 + r.len()]) == 1 && argt(out[p + 2 + r.len()], 0) == sym
    // the saved left value is not disturbed while the right operand is evaluated
    &&& forall|i: int| 0 <= i < r.len() ==> (#[trigger] reg_write(r[i]) is Some ==> reg_write(r[i])->Some_0 != d)
}
// every other binary operator:  out = code(a) ++ [store_fast d] ++ code(b) ++ [load_fast d, fast_rev2] ++ [bin_op sym | equ | neq]
pub open spec fn binop_layout(out: Seq<CompiledItem>, l: Seq<CompiledItem>, r: Seq<CompiledItem>, d: int, op: Op) -> bool {
    let p = l.len() as int;
    &&& out.len() == p + 1 + r.len() + 3
    &&& out.subrange(0, p) == l
    &&& is_instr(out[p], STORE_FAST) && nargs(out[p]) == 1 && argn(out[p], 0) == d && is_reg_arg(&out[p]->arguments@[0])
    &&& out.subrange(p + 1, p + 1 + r.len()) == r
    &&& is_instr(out[p + 1 + r.len()], LOAD_FAST) && argn(out[p + 1 + r.len()], 0) == d
    &&& is_instr(out[p + 2 + r.len()], FAST_REV2)
    &&& (op is Eq ==> is_instr(out[p + 3 + r.len()], EQU))
    &&& (op is Neq ==> is_instr(out[p + 3 + r.len()], NEQ))
    &&& (!(op is Eq) && !(op is Neq) ==> is_instr(out[p + 3 + r.len()], BIN_OP) && nargs(out[p + 3 + r.len()]) == 1 && argt(out[p + 3 + r.len()], 0) == op_symbol(op))
    &&& forall|i: int| 0 <= i < r.len() ==> (#[trigger] reg_write(r[i]) is Some ==> reg_write(r[i])->Some_0 != d)
}
pub open spec fn is_assign_op(o: Op) -> bool { o is AddAssign || o is SubAssign || o is MulAssign || o is DivAssign || o is ModAssign }
"""


def build(repo):
    src = Source(repo)
    ids = opcode_ids(repo)
    log = []
    f = src.fn(FILE, "compile_depth")
    try:
        arm = extract_match_arm(f["body"], "Expr :: BinOp { lhs : lhs_raw , op , rhs , }")
    except Exception:
        try:
            arm = extract_match_arm(f["body"], "Expr :: BinOp { lhs : lhs_raw , op , rhs }")
        except Exception as e:
            raise Undecided(f"{FILE}: arm `Expr::BinOp {{ lhs: lhs_raw, op, rhs }}` of compile_depth not found: {e}")
    rules = [
        Rule("R6", "state . poll_temporary_register ( )", "poll_temporary_register ( state )", why="register allocator abstract: hands out the counter value, advances it"),
        r_instruction(ids),
        Rule("R1", "( ( op . symbol ( ) ) ) . to_vs ( )", "op_symbol_vs ( op )", why="Op::symbol text"),
        Rule("R1", "( ( ident . name ( ) ) ) . to_vs ( )", "ident_name ( ident )", why="identifier name text"),
        Rule("R1", "let name = ident . name ( ) ;", "let name = ident_name ( ident ) ;", why="identifier name text"),
        Rule("R1", "( name ) . to_vs ( )", "name", why="identifier name text"),
        Rule("R1", "let symbol = op . symbol ( ) ;", "let symbol = op_symbol_vs ( op ) ;", why="Op::symbol text"),
        Rule("R1", "( symbol ) . to_vs ( )", "symbol", why="Op::symbol text"),
        Rule("R1", "lhs_raw . as_ref ( )", "lhs_raw", why="Box<Expr> deref"),
        Rule("R1", "rhs . as_ref ( )", "rhs", why="Box<Expr> deref"),
        Rule("R8", "unimplemented ! $a", "{ vpanic ( ) ; return Err ( VErr ) }", why="unimplemented!: a panic, unreachable only under the stated precondition on the operand shape"),
        Rule("R8", "unreachable ! $a", "{ vpanic ( ) ; return Err ( VErr ) }", why="unreachable!: a panic, unreachable only under the stated precondition on the operand shape"),
        Rule("R1", "unsafe { $$e }", "{ $$e }", why="unsafe block marker dropped: the callee's contract carries what the caller must guarantee"),
        Rule("R6", "TemporaryRegister :: new_ghost_register ( $$a )", "new_ghost_register ( $$a )", why="ghost register constructor (abstract: id given, not owned)"),
        Rule("R1", "depth . id", "reg_id_of ( & depth )", why="TemporaryRegister.id field"),
        Rule("R10", "compile_depth ( $a , state , $$r )", "{ let verif_reg = $$r ; compile_depth ( $a , state , verif_reg ) }", count=2,
             why="&Cell state -> &mut state: the register argument is evaluated into a local first (same evaluation order)"),
        # ghost
        Rule("R11", "let mut lhs = { $$b } ? ;", ["let mut lhs = { $$b } ? ;", G("let ghost l0 = lhs@; assume(lhs.len() < 0x1000_0000);")], count=1),
        Rule("R11", "let mut rhs = { $$b } ? ;", ["let mut rhs = { $$b } ? ;", G("let ghost r0 = rhs@; assume(rhs.len() < 0x1000_0000);")], count=1),
    ]
    b = translate(inline_closures(arm["body"], log), rules, log, "compile_depth[BinOp]")
    # proof hints in front of every `return Ok(lhs)` / final `Ok(lhs)`
    hint = G("""proof {
    let out = lhs@; let p = l0.len() as int;
    assert(out.subrange(0, p) =~= l0);
    assert(out.subrange(p + 1, p + 1 + r0.len()) =~= r0);
    assert forall|i: int| 0 <= i < out.len() implies (#[trigger] reg_write(out[i]) is Some ==> (reg_write(out[i])->Some_0 == d0 || reg_write(out[i])->Some_0 >= c0)) by {
        if i < p { assert(out[i] == l0[i]); } else if p + 1 <= i < p + 1 + r0.len() { assert(out[i] == r0[i - p - 1]); }
    }
    assert forall|i: int| 0 <= i < r0.len() implies (#[trigger] reg_write(r0[i]) is Some ==> reg_write(r0[i])->Some_0 != d0) by { }
    if *op is And { assert(andor_layout(out, l0, r0, d0, "0"@, "&&"@)); }
    else if *op is Or { assert(andor_layout(out, l0, r0, d0, "1"@, "||"@)); }
    else if !is_assign_op(*op) && !(*op is Unwrap) { assert(binop_layout(out, l0, r0, d0, *op)); }
}""")
    hint_r = G("""proof {
    let out = rhs@; let q = r0.len() as int;
    assert forall|i: int| 0 <= i < out.len() implies (#[trigger] reg_write(out[i]) is Some ==> (reg_write(out[i])->Some_0 == d0 || reg_write(out[i])->Some_0 >= c0)) by {
        if i < q { assert(out[i] == r0[i]); } else if q + 1 <= i < q + 1 + l0.len() { assert(out[i] == l0[i - q - 1]); }
    }
}""")
    b = Rule("R11", "return Ok ( lhs ) ;", [hint, "return Ok ( lhs ) ;"], why="").apply(b, log)
    b = Rule("R11", "return Ok ( rhs ) ;", [hint_r, "return Ok ( rhs ) ;"], why="").apply(b, log)
    b = Rule("R11", "return Ok ( rhs ) }", [hint_r, "return Ok ( rhs ) }"], why="").apply(b, log)
    if b[-4:] == ["Ok", "(", "lhs", ")"]:
        b = b[:-4] + [hint] + b[-4:]
    check_closed(b, "compile_depth[BinOp]")
    gen = header(log, f"{FILE}: compile_depth, arm Expr::BinOp") + prelude("compile.rs").replace("pub struct CompilationState;", "") + \
        opcode_consts(ids, ["store_skip", "store_fast", "load_fast", "bin_op", "fast_rev2", "equ", "neq", "bin_op_assign", "unwrap_into"]) + SPEC + f"""
//@ OBL C15.binop.layout
#[verifier::loop_isolation(false)]
pub fn compile_depth_binop(lhs_raw: &Expr, op: &Op, rhs: &Expr, state: &mut State, depth: Reg) -> (r: Result<Vec<CompiledItem>, VErr>)
    requires
        reg_id(&depth) < count(old(state)), reg_owned(&depth),
        // operand shapes the parser delivers for op-assign and `?=` (assumed; C16 concerns the panics behind them)
        is_assign_op(*op) ==> (lhs_raw is Value && lhs_raw->Value_0 is Ident) || lhs_raw is DotLookup || lhs_raw is Index,
        *op is Unwrap ==> lhs_raw is Value && lhs_raw->Value_0 is Ident,
    ensures
        r is Ok ==> writes_ok(r->Ok_0@, reg_id(&depth), count(old(state))),
        // short-circuit operators
        (r is Ok && *op is And) ==> exists|l: Seq<CompiledItem>, rr: Seq<CompiledItem>| #[trigger] andor_layout(r->Ok_0@, l, rr, reg_id(&depth), "0"@, "&&"@),
        (r is Ok && *op is Or) ==> exists|l: Seq<CompiledItem>, rr: Seq<CompiledItem>| #[trigger] andor_layout(r->Ok_0@, l, rr, reg_id(&depth), "1"@, "||"@),
        // all other value operators: left operand's code strictly before the right operand's, each once
        (r is Ok && !(*op is And) && !(*op is Or) && !is_assign_op(*op) && !(*op is Unwrap)) ==>
            exists|l: Seq<CompiledItem>, rr: Seq<CompiledItem>| #[trigger] binop_layout(r->Ok_0@, l, rr, reg_id(&depth), *op),
{{
    let ghost d0 = reg_id(&depth); let ghost c0 = count(state);
{render(b, 1)}
}}

}} // verus!
fn main() {{}}
"""
    # twin obligation for known finding D79: by the property the operands of `place op= value` are evaluated left to right -- the place's own
    # sub-expressions (index, receiver) before the value; the code evaluates the value first
    i0 = gen.index("//@ OBL C15.binop.layout"); i1 = gen.index("}} // verus!") if "}} // verus!" in gen else gen.index("} // verus!")
    fn_txt = gen[i0:i1]
    twin = fn_txt.replace("//@ OBL C15.binop.layout", "//@ KF C15.binop.opassign-order").replace("pub fn compile_depth_binop(", "pub fn compile_depth_binop_opassign_order(") \
        .replace("    ensures\n", "    ensures\n        (r is Ok && is_assign_op(*op) && (lhs_raw is DotLookup || lhs_raw is Index)) ==> ({ let l = code_of(*lhs_raw, count(old(state)) + 1, count(old(state))); r->Ok_0@.len() >= l.len() && r->Ok_0@.subrange(0, l.len() as int) == l }),\n", 1)
    gen = gen[:i1] + twin + gen[i1:]
    obls = [Obl("C15.binop.opassign-order", ["C15"], kind="kf", finding="D79", fn="compile_depth_binop_opassign_order",
                desc="`place op= value` on an element / field: the place's own sub-expressions are evaluated before the value (left to right) -- known finding D79: the value's code comes first"),
            Obl("C15.binop.layout", ["C15", "C09", "C12", "C01", "C08"], fn="compile_depth_binop",
                desc="compile_depth BinOp arm: left operand's code strictly before the right operand's, each once; &&/|| emit store_skip with the skip landing one past the final bin_op (right operand not evaluated); the register holding the left value is not written by the right operand's code; for all operand code")]
    return gen, obls, log


UNITS = [VUnit("c15_binop", ["C15", "C09", "C12", "C01", "C08"], "binary operators: operand order, short-circuit layout, register discipline", build)]
UNITS[0].assumes = ["recursive compile_depth calls (any operand expression) are assumed to satisfy the register frame contract this arm is proved to re-establish (induction hypothesis over the expression tree, not mechanised)",
                    "register allocator abstract: poll hands out the counter value; a register passed by value is released by the callee",
                    "operand shapes for op-assign / ?= as delivered by the parser are preconditions"]

"""C04: `run` and `execute` size the interpreter thread from the same default (src/cli.rs, clap attributes of the two subcommands), so a
program that fits one mode's stack fits the other's.  The constants are read from the `#[arg(.. long = "stack-size" .. default_value = ..)]`
attributes of `Commands::Run` and `Commands::Execute` on every run; the obligation is the equality of the two."""
from vlib.rules import *
from vlib.extract import find_block_after
from vlib.lexer import match_close

FILE = "src/cli.rs"


def default_of(toks, lo, hi, variant):
    try:
        _, o, c = find_block_after(toks, variant, lo, hi)
    except Exception as e:
        raise Undecided(f"{FILE}: subcommand {variant} not found: {e}")
    j = o
    while j < c:
        if toks[j] == "#" and toks[j + 1] == "[" and toks[j + 2] == "arg":
            e = match_close(toks, j + 1)
            a = toks[j + 3:e]
            if '"stack-size"' in a:
                for q in range(len(a) - 2):
                    if a[q] in ("default_value", "default_value_t") and a[q + 1] == "=":
                        v = a[q + 2].strip('"').replace("_", "")
                        if not v.isdigit():
                            raise Undecided(f"{FILE}: {variant}: stack-size default `{a[q + 2]}` is not a decimal literal")
                        return int(v)
                raise Undecided(f"{FILE}: {variant}: --stack-size has no default_value")
            j = e
        j += 1
    raise Undecided(f"{FILE}: {variant}: no --stack-size option")


def build(repo):
    src = Source(repo)
    toks = src.toks(FILE)
    log = []
    try:
        _, lo, hi = find_block_after(toks, "enum Commands")
    except Exception as e:
        raise Undecided(f"{FILE}: enum Commands not found: {e}")
    r, x = default_of(toks, lo, hi, "Run"), default_of(toks, lo, hi, "Execute")
    log.append(("R0", '#[arg(.. long = "stack-size", default_value = "N")] of Commands::Run / Commands::Execute', "spec constants", "clap attribute values read as constants"))
    gen = header(log, f"{FILE}: --stack-size defaults of the run / execute subcommands") + f"""
use vstd::prelude::*;
verus! {{
pub open spec fn run_default_stack() -> int {{ {r} }}
pub open spec fn execute_default_stack() -> int {{ {x} }}
//@ OBL C04.cli.same-stack-default
pub proof fn same_stack_default() ensures run_default_stack() == execute_default_stack() {{}}
}} // verus!
fn main() {{}}
"""
    return gen, [Obl("C04.cli.same-stack-default", ["C04", "C18"], fn="cli.rs Commands::{Run,Execute}", desc="`run` and `execute` give the interpreter thread the same default stack size")], log


UNITS = [VUnit("c04_cli", ["C04", "C18"], "run / execute: same default interpreter stack", build)]
UNITS[0].assumes = ["clap derives the option default from the attribute text (trusted); that main.rs passes the option to the thread builder in both modes is by inspection"]

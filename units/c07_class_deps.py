"""C07 / C08: what a class body declares for the capture analysis -- `impl Dependencies for ClassBody` (compiler/src/ast/class/class_body.rs).
The methods' and the constructor's free variables arrive here already NET of their own parameters (ClassFeature / Constructor::net_dependencies);
what the class body itself may still subtract is what its own frame declares: the member variables.  If it also subtracts the PARAMETERS of
every method, a variable of the defining scope that one method reads is dropped from the class's captures as soon as another method has a
parameter of that name -- the method then finds whatever variable of that name is on the call stack when the object is made (D81)."""
from vlib.rules import *

FILE = "compiler/src/ast/class/class_body.rs"

SPEC = r"""
use vstd::prelude::*;
verus! {
#[verifier::external_body] pub struct Dependency { x: usize }
#[verifier::external_body] pub struct MemberFunction { x: usize }
#[verifier::external_body] pub struct MemberVariable { x: usize }
#[verifier::external_body] pub struct Constructor { x: usize }
pub uninterp spec fn params_of(f: &MemberFunction) -> Seq<Dependency>;          // MemberFunction::supplies: its parameters
pub uninterp spec fn ctor_params(c: &Constructor) -> Seq<Dependency>;           // Constructor::supplies: its parameters
pub uninterp spec fn field_of(v: &MemberVariable) -> Dependency;                // MemberVariable::supplies: the field itself
impl MemberFunction { #[verifier::external_body] pub fn supplies(&self) -> (r: Vec<Dependency>) ensures r@ == params_of(self) { unimplemented!() } }
impl MemberVariable { #[verifier::external_body] pub fn supplies(&self) -> (r: Vec<Dependency>) ensures r@ == seq![field_of(self)] { unimplemented!() } }
impl Constructor { #[verifier::external_body] pub fn supplies(&self) -> (r: Vec<Dependency>) ensures r@ == ctor_params(self) { unimplemented!() } }
pub enum ClassFeature { Function(MemberFunction), Variable(MemberVariable) }
// ClassFeature::supplies (class_feature.rs): whatever the feature supplies
pub open spec fn feature_supplies(f: ClassFeature) -> Seq<Dependency> { match f { ClassFeature::Function(m) => params_of(&m), ClassFeature::Variable(v) => seq![field_of(&v)] } }
impl ClassFeature {
    pub fn supplies(&self) -> (r: Vec<Dependency>) ensures r@ == feature_supplies(*self) { match self { ClassFeature::Function(x) => x.supplies(), ClassFeature::Variable(x) => x.supplies() } }
}
// what the class body's own frame declares: the member variables, in order
pub open spec fn verif_fields(fs: Seq<ClassFeature>) -> Seq<Dependency> decreases fs.len() {
    if fs.len() == 0 { Seq::empty() } else { match fs.last() { ClassFeature::Variable(v) => verif_fields(fs.drop_last()).push(field_of(&v)), ClassFeature::Function(_) => verif_fields(fs.drop_last()) } }
}
pub open spec fn all_supplies(fs: Seq<ClassFeature>) -> Seq<Dependency> decreases fs.len() {
    if fs.len() == 0 { Seq::empty() } else { all_supplies(fs.drop_last()) + feature_supplies(fs.last()) }
}
// `v.iter().flat_map(|x| x.supplies()).collect()`: every feature's supplies, concatenated in order (iteration order of slice::Iter + FlatMap)
#[verifier::external_body] pub fn flat_map_supplies(v: &Vec<ClassFeature>) -> (r: Vec<Dependency>) ensures r@ == all_supplies(v@) { unimplemented!() }
#[verifier::external_body] pub fn vec_append(a: &mut Vec<Dependency>, b: &mut Vec<Dependency>) ensures final(a)@ == old(a)@ + old(b)@ { unimplemented!() }
// ---- dependencies: every feature's own free variables (net of its own parameters / locals: MemberFunction::dependencies is its body's
// net dependencies, and get_net_dependencies -- unit c07_net_deps -- subtracts the parameters), then the constructor's
pub uninterp spec fn feature_net(f: ClassFeature) -> Seq<Dependency>;
pub uninterp spec fn ctor_net(c: &Constructor) -> Seq<Dependency>;
impl ClassFeature { #[verifier::external_body] pub fn net_dependencies(&self) -> (r: Vec<Dependency>) ensures r@ == feature_net(*self) { unimplemented!() } }
impl Constructor { #[verifier::external_body] pub fn net_dependencies(&self) -> (r: Vec<Dependency>) ensures r@ == ctor_net(self) { unimplemented!() } }
pub open spec fn all_net(fs: Seq<ClassFeature>) -> Seq<Dependency> decreases fs.len() {
    if fs.len() == 0 { Seq::empty() } else { all_net(fs.drop_last()) + feature_net(fs.last()) }
}
#[verifier::external_body] pub fn flat_map_net(v: &Vec<ClassFeature>) -> (r: Vec<Dependency>) ensures r@ == all_net(v@) { unimplemented!() }
pub struct ClassBody { pub features: Vec<ClassFeature>, pub constructor: Constructor }
pub proof fn lemma_fields_step(fs: Seq<ClassFeature>, k: int) requires 0 <= k < fs.len()
    ensures fs.subrange(0, k + 1).drop_last() == fs.subrange(0, k), fs.subrange(0, k + 1).last() == fs[k]
{ assert(fs.subrange(0, k + 1).drop_last() =~= fs.subrange(0, k)); }
"""


def build(repo):
    src = Source(repo)
    log = []
    it = src.item(FILE, "impl Dependencies for ClassBody")
    from vlib.extract import extract_fn
    f = extract_fn(it["body"], "supplies")
    INV = ("invariant verif_k_s <= self.features.len(), $R@ == verif_fields(self.features@.subrange(0, verif_k_s as int)) decreases self.features.len() - verif_k_s")

    def loop(b):
        x = text(b["x"])
        body = b["body"]
        # the accumulator: the vector the loop body appends to
        import re as _re
        m = _re.search(r"(\w+) \. (append|push|extend) \(", " ".join(body)) or _re.search(r"vec_append \( & mut (\w+)", " ".join(body))
        if not m:
            raise Undecided("ClassBody::supplies: the loop does not append to a vector")
        acc = m.group(1)
        return ["let mut verif_k_s : usize = 0 ; while verif_k_s < self . features . len ( )", G(INV.replace("$R", acc)), "{", f"let {x} = & self . features [ verif_k_s ] ; verif_k_s += 1 ;",
                G("proof { lemma_fields_step(self.features@, verif_k_s as int - 1); }"), *body,
                G(f"proof {{ assert({acc}@ =~= verif_fields(self.features@.subrange(0, verif_k_s as int))); }}"), "}",
                G("proof { assert(self.features@.subrange(0, self.features@.len() as int) =~= self.features@); }")]

    b = translate(list(f["body"]), [
        Rule("R2", "self . features . iter ( ) . flat_map ( | $x | $x . supplies ( ) ) . collect ( )", "flat_map_supplies ( & self . features )", why="iter().flat_map(|x| x.supplies()).collect(): every feature's supplies in order"),
        Rule("R2", "for $x in & self . features { $$body }", loop, why="for over &Vec -> indexed while"),
        Rule("R13", "$a . append ( & mut $$b )", "vec_append ( & mut $a , & mut $$b )", why="Vec::append"),
        Rule("R1", "let mut $n = vec ! [ ] ;", "let mut $n : Vec < Dependency > = Vec :: new ( ) ;", why="type ascription"),
        Rule("R1", "let mut $n : Vec < Dependency > = vec ! [ ] ;", "let mut $n : Vec < Dependency > = Vec :: new ( ) ;", why="vec![]"),
    ], log, "ClassBody::supplies", generic=False)
    from vlib.core import _generic_rules
    for r in _generic_rules():
        b = r.apply(b, log)
    b = Rule("R13", "vec_append ( & mut $a , & mut $b . supplies ( ) )", "{ let mut verif_t = $b . supplies ( ) ; vec_append ( & mut $a , & mut verif_t ) }", why="temporary bound to a name (same evaluation)").apply(b, log)
    check_closed(b, "ClassBody::supplies")
    fd = extract_fn(it["body"], "dependencies")
    bd = translate(list(fd["body"]), [
        Rule("R2", "self . features . iter ( ) . flat_map ( | $x | $x . net_dependencies ( ) ) . collect ( )", "flat_map_net ( & self . features )", why="iter().flat_map(|x| x.net_dependencies()).collect(): every feature's free variables in order"),
        Rule("R13", "$a . append ( & mut $$b )", "vec_append ( & mut $a , & mut $$b )", why="Vec::append"),
    ], log, "ClassBody::dependencies", generic=False)
    bd = Rule("R13", "vec_append ( & mut $a , & mut $b . constructor . net_dependencies ( ) )", "{ let mut verif_t = $b . constructor . net_dependencies ( ) ; vec_append ( & mut $a , & mut verif_t ) }", why="temporary bound to a name (same evaluation)").apply(bd, log)
    check_closed(bd, "ClassBody::dependencies")
    gen = header(log, f"{FILE}: impl Dependencies for ClassBody :: supplies, dependencies") + SPEC + f"""
impl ClassBody {{
    //@ OBL C07.class.supplies-only-fields
    #[verifier::loop_isolation(false)]
    pub fn supplies(&self) -> (r: Vec<Dependency>)
        ensures r@ == verif_fields(self.features@),            // the member variables, in order -- and nothing else: no parameter of any method or of the constructor
    {{
{render(b, 2)}
    }}
    //@ OBL C07.class.dependencies-all
    pub fn dependencies(&self) -> (r: Vec<Dependency>)
        ensures r@ == all_net(self.features@) + ctor_net(&self.constructor),     // every method's free variables and the constructor's: none dropped
    {{
{render(bd, 2)}
    }}
}}
}} // verus!
fn main() {{}}
"""
    return gen, [Obl("C07.class.dependencies-all", ["C07", "C08"], fn="ClassBody::dependencies", desc="ClassBody::dependencies: the free variables of every method (net of its own parameters) and of the constructor, none dropped"),
                 Obl("C07.class.supplies-only-fields", ["C07", "C08"], fn="ClassBody::supplies", desc="ClassBody::supplies: a class body declares its member variables and nothing else (the parameters of one method never hide a captured variable from another)")], log


UNITS = [VUnit("c07_class_deps", ["C07", "C08"], "capture analysis of a class: what the class body itself declares", build)]
UNITS[0].assumes = ["MemberFunction / MemberVariable / Constructor::supplies abstract (parameters / the field / parameters); the features' dependencies arrive net of their own parameters (ClassFeature::net_dependencies: by inspection)"]

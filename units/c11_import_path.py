"""C11: which file `import m` resolves to -- Parser::import_path (import.rs): when `<dir>/m.ms` exists (or was pre-loaded) the import resolves
to it, whatever else has the name `m` (a sibling directory `m/` does not make the module unimportable); otherwise a diagnostic."""
from vlib.rules import *

FILE = "compiler/src/ast/import.rs"

SPEC = r"""
use vstd::prelude::*;
verus! {
pub struct VErr;
#[verifier::external_body] pub struct Node { x: usize }
#[verifier::external_body] pub struct PathV { x: usize }
pub uninterp spec fn written_path(n: &Node) -> Option<PathV>;         // Import::path_from_parts of the node's text (obligation C11.path.no-dot)
pub uninterp spec fn with_ms(p: PathV) -> PathV;                      // path.with_extension("ms")
pub uninterp spec fn preloaded(n: &Node, p: PathV) -> bool;           // files given to the compiler in memory
// the file system at that moment (std::fs; abstract)
pub uninterp spec fn fs_exists(p: PathV) -> Option<bool>;             // None: I/O error
pub uninterp spec fn fs_is_dir(p: PathV) -> bool;
#[verifier::external_body] pub fn path_from_parts(n: &Node) -> (r: Result<PathV, VErr>) ensures r is Ok <==> written_path(n) is Some, r is Ok ==> r->Ok_0 == written_path(n)->Some_0 { unimplemented!() }
impl PathV {
    #[verifier::external_body] pub fn with_extension_ms(&self) -> (r: PathV) ensures r == with_ms(*self) { unimplemented!() }
    #[verifier::external_body] pub fn try_exists(&self) -> (r: Result<bool, VErr>) ensures r is Ok <==> fs_exists(*self) is Some, r is Ok ==> r->Ok_0 == fs_exists(*self)->Some_0 { unimplemented!() }
    #[verifier::external_body] pub fn is_dir(&self) -> (r: bool) ensures r == fs_is_dir(*self) { unimplemented!() }
    #[verifier::external_body] pub fn to_path_buf(&self) -> (r: PathV) ensures r == *self { unimplemented!() }
}
#[verifier::external_body] pub fn was_path_preloaded(n: &Node, p: &PathV) -> (r: bool) ensures r == preloaded(n, *p) { unimplemented!() }
"""


def build(repo):
    src = Source(repo)
    log = []
    f = src.fn(FILE, "import_path")
    b = translate(f["body"], [
        Rule("R6", "Import :: path_from_parts ( input . user_data ( ) , input . as_str ( ) ) ?", "path_from_parts ( & input ) ?", why="own obligation (C11.path.no-dot)"),
        Rule("R9", "path . with_extension ( \"ms\" )", "path . with_extension_ms ( )", why="std::path (abstract)"),
        Rule("R6", "input . user_data ( ) . was_path_preloaded ( & with_extension )", "was_path_preloaded ( & input , & with_extension )", why="in-memory files (abstract)"),
        Rule("R3", "return Err ( new_err ( $$a ) ) ;", "return Err ( VErr ) ;", why="diagnostic construction dropped"),
        Rule("R3", "Err ( new_err ( $$a ) )", "Err ( VErr )", why="diagnostic construction dropped"),
    ], log, "Parser::import_path")
    check_closed(b, "Parser::import_path")
    gen = header(log, f"{FILE}: Parser::import_path") + SPEC + f"""
//@ OBL C11.import.resolves
pub fn import_path(input: Node) -> (r: Result<PathV, VErr>)
    ensures written_path(&input) is Some ==> ({{ let p = written_path(&input)->Some_0; let m = with_ms(p);
        // a pre-loaded / existing `m.ms` IS the module, whatever else is called `m`
        &&& preloaded(&input, m) ==> r == Ok::<PathV, VErr>(m)
        &&& (fs_exists(p) is Some && fs_exists(m) == Some(true)) ==> r == Ok::<PathV, VErr>(m)
        // and nothing else is
        &&& r is Ok ==> r->Ok_0 == m && (preloaded(&input, m) || fs_exists(m) == Some(true))
    }}),
{{
{render(b, 1)}
}}
}} // verus!
fn main() {{}}
"""
    return gen, [Obl("C11.import.resolves", ["C11"], fn="Parser::import_path", desc="import_path: resolves to `<path>.ms` exactly when that file is pre-loaded or exists, whatever else has the name")], log


UNITS = [VUnit("c11_import_path", ["C11"], "import path resolution", build)]
UNITS[0].assumes = ["std::fs / std::path abstract (try_exists may fail with an I/O error: then nothing is claimed)"]

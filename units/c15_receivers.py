"""C15 / C08 / C13: the receiver of an index, of a field / method chain and of a call -- arms Expr::Index, Expr::DotLookup and
Expr::Callable(Standard) of compile_depth (compiler/src/ast/math_expr.rs).  The receiver expression is an operand like any other: its code
is emitted exactly once, in full, BEFORE the code of the index / the chain / the call's arguments (a list literal that is indexed is still built
with all its elements; a receiver with effects has them once).  Also `nil` (one `reserve_primitive`) and `self` (one `load_fast self`)."""
from vlib.rules import *
from vlib.extract import extract_match_arm

FILE = "compiler/src/ast/math_expr.rs"

SPEC = r"""
#[verifier::external_body] pub struct OtherV { x: usize }
// the outermost shape of the receiver, as far as a change may look at it: a literal value (a list literal among them) or something else
#[verifier::external_body] pub struct ListLit { x: usize }
pub enum Value { List(ListLit), Other(OtherV) }
impl Value { #[verifier::external_body] pub fn compile(&self, s: &mut State) -> (r: Result<Vec<CompiledItem>, VErr>) { unimplemented!() } }      // the code of ONE value: nothing known about it
pub enum ExprV { Value(Value), Other(OtherV) }
pub use ExprV as Expr;
impl ExprV { pub fn as_ref(&self) -> (r: &ExprV) ensures r == self { self } }
pub uninterp spec fn code_of(e: &ExprV) -> Seq<CompiledItem>;
#[verifier::external_body] pub fn expr_compile(e: &ExprV, s: &mut State) -> (r: Result<Vec<CompiledItem>, VErr>)
    ensures r is Ok ==> r->Ok_0@ == code_of(e), count(final(s)) == count(old(s)) { unimplemented!() }
#[verifier::external_body] pub struct IndexV { x: usize }
pub uninterp spec fn index_code(i: &IndexV) -> Seq<CompiledItem>;
impl IndexV { #[verifier::external_body] pub fn select_from_literal<'a>(&self, l: &'a ListLit) -> (r: Result<Option<&'a Value>, VErr>) { unimplemented!() } }     // any compile-time pick of one element
impl IndexV { #[verifier::external_body] pub fn compile(&self, s: &mut State) -> (r: Result<Vec<CompiledItem>, VErr>) ensures r is Ok ==> r->Ok_0@ == index_code(self), count(final(s)) == count(old(s)) { unimplemented!() } }
#[verifier::external_body] pub struct ChainV { x: usize }
pub uninterp spec fn chain_code(c: &ChainV) -> Seq<CompiledItem>;
impl ChainV { #[verifier::external_body] pub fn compile(&self, s: &mut State) -> (r: Result<Vec<CompiledItem>, VErr>) ensures r is Ok ==> r->Ok_0@ == chain_code(self), count(final(s)) == count(old(s)) { unimplemented!() } }
#[verifier::external_body] pub struct ArgsV { x: usize }
// Callable::compile (unit c15_seq): the arguments left to right, then the load instruction it was given, then the call
pub uninterp spec fn call_code(a: &ArgsV, load: CompiledItem) -> Seq<CompiledItem>;
pub struct Callable { pub args: Ghost<int>, pub load: CompiledItem }
#[verifier::external_body] pub fn callable_new(a: &ArgsV, load: CompiledItem) -> (r: (Ghost<Seq<CompiledItem>>, CallableV)) ensures r.0@ == call_code(a, load) { unimplemented!() }
#[verifier::external_body] pub struct CallableV { x: usize }
pub uninterp spec fn callable_code(c: &CallableV) -> Seq<CompiledItem>;
pub uninterp spec fn callable_load(c: &CallableV) -> CompiledItem;
#[verifier::external_body] pub fn new_callable(a: &ArgsV, load: CompiledItem) -> (r: CallableV) ensures callable_code(&r) == call_code(a, load), callable_load(&r) == load { unimplemented!() }
pub open spec fn call_layout(out: Seq<CompiledItem>, c: Seq<CompiledItem>, arguments: &ArgsV, c0: int, reg: int, load: CompiledItem) -> bool {
    // the callee expression, once, parked in a fresh register; then the arguments and the call through exactly that register
    &&& reg >= c0
    &&& out.len() == c.len() + 1 + call_code(arguments, load).len() && out.subrange(0, c.len() as int) == c
    &&& is_instr(out[c.len() as int], STORE_FAST) && nargs(out[c.len() as int]) == 1 && argn(out[c.len() as int], 0) == reg
    &&& is_instr(load, LOAD_FAST) && nargs(load) == 1 && argn(load, 0) == reg
    &&& out.subrange(c.len() as int + 1, out.len() as int) == call_code(arguments, load)
}
pub open spec fn call_ok(out: Seq<CompiledItem>, c: Seq<CompiledItem>, arguments: &ArgsV, c0: int) -> bool { exists|reg: int, load: CompiledItem| #[trigger] call_layout(out, c, arguments, c0, reg, load) }
impl CallableV { #[verifier::external_body] pub fn compile(&self, s: &mut State) -> (r: Result<Vec<CompiledItem>, VErr>) ensures r is Ok ==> r->Ok_0@ == callable_code(self) { unimplemented!() } }
#[verifier::external_body] pub fn vec_append(a: &mut Vec<CompiledItem>, b: &mut Vec<CompiledItem>) ensures final(a)@ == old(a)@ + old(b)@ { unimplemented!() }
"""


def build(repo):
    from units.c15_seq import SPEC as SEQ_SPEC
    src = Source(repo)
    ids = opcode_ids(repo)
    log = []
    f = src.fn(FILE, "compile_depth")

    def arm(pat, what):
        try:
            return extract_match_arm(f["body"], pat)["body"]
        except Exception as e:
            raise Undecided(f"{FILE}: arm {what} of compile_depth not found: {e}")

    rules = [
        Rule("R6", "lhs_raw . compile ( state )", "expr_compile ( lhs_raw , state )", why="the receiver's Compile abstract: arbitrary code"),
        Rule("R6", "lhs . compile ( state )", "expr_compile ( lhs , state )", why="the receiver's Compile abstract: arbitrary code"),
        Rule("R6", "state . poll_temporary_register ( )", "poll_temporary_register ( state )", why="register allocator abstract"),
        r_instruction(ids),
        R12_VEC_LITERAL,
        Rule("R6", "let callable : Callable < '_ > = Callable :: new ( arguments , $$l , None ) ;", "let callable = new_callable ( arguments , $$l ) ;", why="Callable::new(arguments, load instruction, no self): its compile is unit c15_seq"),
        Rule("R6", "let callable = Callable :: new ( arguments , $$l , None ) ;", "let callable = new_callable ( arguments , $$l ) ;", why="Callable::new"),
        Rule("R13", "$a . append ( & mut $$b )", "vec_append ( & mut $a , & mut $$b )", why="Vec::append"),
    ]
    tr = {}
    for key, pat in (("index", "Expr :: Index { lhs_raw , index }"), ("dot", "Expr :: DotLookup { lhs , dot_chain , .. }"),
                     ("call", "Expr :: Callable ( CallableContents :: Standard { lhs_raw , arguments , .. } )"), ("nil", "Expr :: Nil"), ("selfref", "Expr :: ReferenceToSelf { .. }")):
        t = translate(list(arm(pat, key)), rules, log, f"compile_depth[{key}]")
        t = Rule("R13", "vec_append ( & mut $a , & mut $b . compile ( state ) ? )", "{ let mut verif_t = $b . compile ( state ) ? ; vec_append ( & mut $a , & mut verif_t ) }", why="temporary bound to a name (same evaluation order)").apply(t, log)
        if key == "call" and len(t) >= 4 and t[-4] == "Ok" and t[-1] == ")":
            v = t[-2]
            t = t[:-4] + [G(f"proof {{ let out = {v}@; let c = code_of(lhs_raw); assert(out.subrange(0, c.len() as int) =~= c); assert(out.subrange(c.len() as int + 1, out.len() as int) =~= callable_code(&callable)); "
                            f"assert(call_layout(out, c, arguments, verif_c0, argn(out[c.len() as int], 0), callable_load(&callable))); }}")] + t[-4:]
        check_closed(t, f"compile_depth[{key}]")
        tr[key] = t
    gen = header(log, f"{FILE}: compile_depth, arms Index, DotLookup, Callable(Standard), Nil, ReferenceToSelf") + prelude("compile.rs").replace("pub struct CompilationState;", "") + \
        opcode_consts(ids, ["store_fast", "store_skip", "load_fast", "reserve_primitive"]) + SEQ_SPEC + SPEC + f"""
//@ OBL C15.receiver.index
pub fn compile_index(lhs_raw: &ExprV, index: &IndexV, state: &mut State) -> (r: Result<Vec<CompiledItem>, VErr>)
    ensures r is Ok ==> r->Ok_0@ == code_of(lhs_raw) + index_code(index),          // the whole receiver, once, then the index links
{{
{render(tr['index'], 1)}
}}
//@ OBL C15.receiver.dot
pub fn compile_dot(lhs: &ExprV, dot_chain: &ChainV, state: &mut State) -> (r: Result<Vec<CompiledItem>, VErr>)
    ensures r is Ok ==> r->Ok_0@ == code_of(lhs) + chain_code(dot_chain),
{{
{render(tr['dot'], 1)}
}}
//@ OBL C15.receiver.call
pub fn compile_call(lhs_raw: &ExprV, arguments: &ArgsV, state: &mut State) -> (r: Result<Vec<CompiledItem>, VErr>)
    ensures r is Ok ==> call_ok(r->Ok_0@, code_of(lhs_raw), arguments, count(old(state)) as int),
{{
    let ghost verif_c0 = count(state) as int;
{render(tr['call'], 1)}
}}
//@ OBL C12.nil.layout
pub fn compile_nil() -> (r: Result<Vec<CompiledItem>, VErr>) ensures r is Ok && r->Ok_0@.len() == 1 && is_instr(r->Ok_0@[0], RESERVE_PRIMITIVE)
{{
{render(tr['nil'], 1)}
}}
}} // verus!
fn main() {{}}
"""
    return gen, [Obl("C15.receiver.index", ["C15", "C13"], fn="compile_depth[Index]", desc="`e[i]`: the receiver's whole code, once, then the index links"),
                 Obl("C15.receiver.dot", ["C15", "C08"], fn="compile_depth[DotLookup]", desc="`e.f` / `e.m(..)`: the receiver's whole code, once, then the chain"),
                 Obl("C15.receiver.call", ["C15", "C01"], fn="compile_depth[Callable]", desc="`f(args)`: the callee expression once, parked in a fresh register, then the arguments and the call through that register"),
                 Obl("C12.nil.layout", ["C12"], fn="compile_depth[Nil]", desc="`nil`: one reserve_primitive")], log


UNITS = [VUnit("c15_receivers", ["C15", "C08", "C13", "C12", "C01"], "receivers of index, field / method chain and call: evaluated once, first", build)]
UNITS[0].assumes = ["the receiver's / index's / chain's / callable's own Compile are abstract callees (Index::compile: c13_index_compile; DotChain::compile: c08_dot_call; Callable::compile: c15_seq)"]

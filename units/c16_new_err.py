"""C16: the function every span-carrying diagnostic goes through -- new_err (compiler/src/ast.rs).  If IT panics, a program that should be
rejected with a diagnostic crashes the compiler instead.  Contract: total -- for every span, file name and message it returns an error value;
every operation on the span's text that can panic (byte slicing off a character boundary, indexing, unwrap) is an obligation (R8)."""
from vlib.rules import *

FILE = "compiler/src/ast.rs"

SPEC = r"""
use vstd::prelude::*;
verus! {
pub struct VErr;
#[verifier::external_body] pub struct SpanV { x: usize }
#[verifier::external_body] pub struct PosV { x: usize }
#[verifier::external_body] pub struct VString { x: usize }
#[verifier::external_body] pub struct PestErr { x: usize }
pub uninterp spec fn text_of(s: &VString) -> Seq<char>;
pub uninterp spec fn byte_len(s: &VString) -> int;
pub uninterp spec fn is_char_boundary(s: &VString, i: int) -> bool;        // nothing is known about where the characters of a program's text begin
impl SpanV {
    #[verifier::external_body] pub fn start_pos(&self) -> (r: PosV) { unimplemented!() }
    #[verifier::external_body] pub fn as_str(&self) -> (r: &VString) { unimplemented!() }
}
impl PosV { #[verifier::external_body] pub fn line_col(&self) -> (r: (usize, usize)) { unimplemented!() } }
impl VString {
    #[verifier::external_body] pub fn len(&self) -> (r: usize) ensures r as int == byte_len(self) { unimplemented!() }
    #[verifier::external_body] pub fn is_char_boundary(&self, i: usize) -> (r: bool) ensures r == is_char_boundary(self, i as int) { unimplemented!() }
    #[verifier::external_body] pub fn chars_take(&self, n: usize) -> (r: VString) { unimplemented!() }
}
// `&s[..n]` / `&s[a..]` / `&s[a..b]` on a str: PANICS unless in range and on character boundaries (R8)
#[verifier::external_body] pub fn str_slice_to(s: &VString, n: usize) -> (r: &VString) requires n as int <= byte_len(s), is_char_boundary(s, n as int) { unimplemented!() }
#[verifier::external_body] pub fn str_slice_from(s: &VString, a: usize) -> (r: &VString) requires a as int <= byte_len(s), is_char_boundary(s, a as int) { unimplemented!() }
#[verifier::external_body] pub fn custom_error(message: VString, span: SpanV, file_name: &VString) -> (r: PestErr) { unimplemented!() }
#[verifier::external_body] pub fn anyhow_from(e: PestErr) -> (r: VErr) { unimplemented!() }
"""


def build(repo):
    src = Source(repo)
    log = []
    f = src.fn(FILE, "new_err")
    b = translate(list(f["body"]), [
        Rule("R1", "use $$p ;", "", why="imports"),
        Rule("R3", "log :: error ! $a ;", "", why="logging dropped (its arguments are evaluated: kept below when they are bound to names first)"),
        Rule("R8", "& $s [ .. $n ]", "str_slice_to ( $s , $n )", why="str slicing with its panic precondition (R8)"),
        Rule("R8", "& $s [ $a .. ]", "str_slice_from ( $s , $a )", why="str slicing with its panic precondition (R8)"),
        Rule("R6", "PE :: < ( ) > :: new_from_span ( CustomError { message } , span ) . with_path ( file_name )", "custom_error ( message , span , file_name )", why="pest error constructor: abstract"),
        Rule("R6", "anyhow ! ( custom_error )", "anyhow_from ( custom_error )", why="anyhow! of an error value"),
    ], log, "new_err")
    check_closed(b, "new_err")
    gen = header(log, f"{FILE}: new_err") + SPEC + f"""
//@ OBL C16.new_err.total
// for EVERY span / file name / message: returns; no panic on the way
pub fn new_err(span: SpanV, file_name: &VString, message: VString) -> (r: VErr)
{{
{render(b, 1)}
}}
}} // verus!
fn main() {{}}
"""
    return gen, [Obl("C16.new_err.total", ["C16", "C03"], fn="new_err", desc="new_err: builds the diagnostic for every span and message without an operation that can panic (no byte slicing of program text off a character boundary)")], log


UNITS = [VUnit("c16_new_err", ["C16", "C03"], "the diagnostic builder never panics", build)]
UNITS[0].assumes = ["pest's error constructor and anyhow! are abstract and assumed total; logging is dropped"]

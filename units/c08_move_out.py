"""C08 / C13 / C12 / C05: reading THROUGH a pointer -- `HeapPrimitive::to_owned_primitive`, `Primitive::move_out_of_heap_primitive` and
`move_out_of_heap_primitive_borrow` (bytecode/src/variables/primitive.rs).  Sixteen handler units ASSUME of them "the identity on a plain value, the
pointee's current value on a pointer"; here that is their contract: a field pointer yields what the field's cell holds NOW, an element pointer the
element at its position in the list as it is NOW (the position must still exist: `Vec::get(..).unwrap()` panics otherwise -- a precondition, R8), an
entry pointer what the map binds the key to (nil for a missing key: GcMap::get), a plain value itself -- by value and by reference alike."""
from vlib.rules import *

FILE = "bytecode/src/variables/primitive.rs"

SPEC = r"""
use vstd::prelude::*;
verus! {
pub struct VErr;
#[verifier::external_body] pub struct OtherV { x: usize }
#[verifier::external_body] pub struct VecH { x: usize }
#[verifier::external_body] pub struct MapH { x: usize }
#[verifier::external_body] pub struct CellH { x: usize }
pub uninterp spec fn vid(h: &VecH) -> int;
pub uninterp spec fn mid(h: &MapH) -> int;
pub uninterp spec fn cid(h: &CellH) -> int;
pub enum HeapPrimitive { ArrayPtr(VecH, usize), MapPtr(MapH, Box<Primitive>), Lookup(CellH) }
pub enum Primitive { Int(i32), Optional(Option<Box<Primitive>>), HeapPrimitive(HeapPrimitive), Other(OtherV) }
impl Primitive { #[verifier::external_body] pub fn vclone(&self) -> (r: Primitive) ensures r == *self { unimplemented!() } }
// the heap as every alias observes it now
#[verifier::external_body] pub struct Heap { x: usize }
pub uninterp spec fn vecs(h: &Heap) -> Map<int, Seq<Primitive>>;
pub uninterp spec fn cells(h: &Heap) -> Map<int, Primitive>;
pub uninterp spec fn map_lookup(h: &Heap, m: int, k: Primitive) -> Result<Primitive, VErr>;       // GcMap::get (unit c13_maps): the bound value, nil for a missing key, an error for an unusable key
// `array.0.borrow().get(i).unwrap()`: panics when i is not a position of the list as it is now (R8)
#[verifier::external_body] pub fn cell_get_unwrap(h: &Heap, v: &VecH, i: usize) -> (r: Primitive) requires vecs(h).contains_key(vid(v)), i < vecs(h)[vid(v)].len() ensures r == vecs(h)[vid(v)][i as int] { unimplemented!() }
#[verifier::external_body] pub fn cell_primitive(h: &Heap, c: &CellH) -> (r: Primitive) requires cells(h).contains_key(cid(c)) ensures r == cells(h)[cid(c)] { unimplemented!() }
#[verifier::external_body] pub fn gcmap_get(h: &Heap, m: &MapH, k: Primitive) -> (r: Result<Primitive, VErr>) ensures r == map_lookup(h, mid(m), k) { unimplemented!() }
pub trait VerifCtx<T> { fn verif_ctx(self) -> Result<T, VErr>; }
impl VerifCtx<Primitive> for Result<Primitive, VErr> { #[verifier::external_body] fn verif_ctx(self) -> (r: Result<Primitive, VErr>) ensures r == self { unimplemented!() } }
// what a pointer denotes now
pub open spec fn pointee(h: &Heap, p: HeapPrimitive) -> Result<Primitive, VErr> {
    match p {
        HeapPrimitive::ArrayPtr(a, i) => Ok(vecs(h)[vid(&a)][i as int]),
        HeapPrimitive::Lookup(c) => Ok(cells(h)[cid(&c)]),
        HeapPrimitive::MapPtr(m, k) => map_lookup(h, mid(&m), *k),
    }
}
pub open spec fn pointer_ok(h: &Heap, p: HeapPrimitive) -> bool {
    match p {
        HeapPrimitive::ArrayPtr(a, i) => vecs(h).contains_key(vid(&a)) && i < vecs(h)[vid(&a)].len(),
        HeapPrimitive::Lookup(c) => cells(h).contains_key(cid(&c)),
        HeapPrimitive::MapPtr(_, _) => true,
    }
}
pub open spec fn moved_out(h: &Heap, p: Primitive) -> Result<Primitive, VErr> { match p { Primitive::HeapPrimitive(hp) => pointee(h, hp), other => Ok(other) } }
"""


def build(repo):
    src = Source(repo)
    log = []
    R = [
        Rule("R10", "array . 0 . borrow ( ) . get ( $$i ) . unwrap ( ) . to_owned ( )", "cell_get_unwrap ( heap , array , $$i ) . vclone ( )", why="GcCell borrow of the list (R10); Vec::get + unwrap with its panic precondition (R8); clone of the element"),
        Rule("R10", "cell . primitive ( ) . clone ( )", "cell_primitive ( heap , cell ) . vclone ( )", why="the variable cell's current value (R10)"),
        Rule("R10", "map . get ( ( * * index ) . clone ( ) ) . context ( $m )", "gcmap_get ( heap , map , ( * * index ) . vclone ( ) ) . verif_ctx ( )", why="GcMap::get (unit c13_maps); context text dropped"),
        Rule("R10", "primitive . to_owned_primitive ( ) ?", "primitive . to_owned_primitive ( heap ) ?", why="the heap as explicit state (R10)"),
        Rule("R1", "Cow :: Owned ( $$e )", "$$e", why="Cow::Owned -> the value"),
        Rule("R1", "Cow :: Borrowed ( self )", "self . vclone ( )", why="Cow::Borrowed(&T) -> the same value"),
        Rule("R1", "Self :: HeapPrimitive ( ref primitive ) = self", "Primitive :: HeapPrimitive ( primitive ) = & self", why="ref binding on an owned scrutinee"),
        Rule("R1", "Self :: HeapPrimitive ( primitive ) = self", "Primitive :: HeapPrimitive ( primitive ) = self", why="Self -> type name"),
        Rule("R1", "Self :: ArrayPtr", "HeapPrimitive :: ArrayPtr"), Rule("R1", "Self :: Lookup", "HeapPrimitive :: Lookup"), Rule("R1", "Self :: MapPtr", "HeapPrimitive :: MapPtr"),
    ]
    ft = src.fn(FILE, "to_owned_primitive", "impl HeapPrimitive")
    fm = src.fn(FILE, "move_out_of_heap_primitive")
    fb = src.fn(FILE, "move_out_of_heap_primitive_borrow")
    bt = translate(ft["body"], R, log, "HeapPrimitive::to_owned_primitive")
    bm = translate(fm["body"], R, log, "Primitive::move_out_of_heap_primitive")
    bb = translate(fb["body"], R, log, "Primitive::move_out_of_heap_primitive_borrow")
    for b, w in ((bt, "to_owned_primitive"), (bm, "move_out"), (bb, "move_out_borrow")):
        check_closed(b, w)
    gen = header(log, f"{FILE}: HeapPrimitive::to_owned_primitive, Primitive::move_out_of_heap_primitive, move_out_of_heap_primitive_borrow") + SPEC + f"""
impl HeapPrimitive {{
    //@ OBL C08.pointer.read
    pub fn to_owned_primitive(&self, heap: &Heap) -> (r: Result<Primitive, VErr>)
        requires pointer_ok(heap, *self)
        ensures r == pointee(heap, *self)
    {{
{render(bt, 2)}
    }}
}}
impl Primitive {{
    //@ OBL C08.pointer.move_out
    pub fn move_out_of_heap_primitive(self, heap: &Heap) -> (r: Result<Primitive, VErr>)
        requires self is HeapPrimitive ==> pointer_ok(heap, self->HeapPrimitive_0)
        ensures r == moved_out(heap, self)
    {{
{render(bm, 2)}
    }}
    //@ OBL C08.pointer.move_out_borrow
    pub fn move_out_of_heap_primitive_borrow(&self, heap: &Heap) -> (r: Result<Primitive, VErr>)
        requires *self is HeapPrimitive ==> pointer_ok(heap, self->HeapPrimitive_0)
        ensures r == moved_out(heap, *self)
    {{
{render(bb, 2)}
    }}
}}
}} // verus!
fn main() {{}}
"""
    d = "the identity on a plain value; through a pointer the value the field's cell / the list position / the map key holds NOW"
    return gen, [Obl("C08.pointer.read", ["C08", "C13", "C12"], fn="HeapPrimitive::to_owned_primitive", desc="a field pointer reads the cell, an element pointer the position (which must still exist), an entry pointer the key's binding (GcMap::get)"),
                 Obl("C08.pointer.move_out", ["C08", "C13", "C12", "C05"], fn="Primitive::move_out_of_heap_primitive", desc="move_out_of_heap_primitive: " + d),
                 Obl("C08.pointer.move_out_borrow", ["C08", "C13", "C12", "C05"], fn="Primitive::move_out_of_heap_primitive_borrow", desc="move_out_of_heap_primitive_borrow: " + d)], log


UNITS = [VUnit("c08_move_out", ["C08", "C13", "C12", "C05"], "reading through a pointer: what the handler units assume of move_out", build)]
UNITS[0].assumes = ["gc / RefCell semantics: a handle denotes a heap cell whose content is read at the moment of the call; GcMap::get abstract (unit c13_maps)",
                    "precondition (R8): an element pointer's position still exists -- pointers live on the operand stack only until the next instruction consumes them (store_fast / vec_op / ret copy the value out: C15.vec_op.push-value, C01.handler.ret, C08 handlers)"]

"""C14 (+ C17 re-reading): string method arms of BuiltInFunction::run with positions -- len, substring, insert, delete, split (V-t).
Positions are byte positions, as the code uses them; a string is a byte sequence with an uninterpreted char-boundary predicate.
Every std call that can panic carries its panic precondition (R8), so "fails with an error, never panics" is proved."""
from vlib.rules import *
from vlib.extract import extract_match_arm

FUNC = "bytecode/src/function.rs"

SPEC = r"""
use vstd::prelude::*;
verus! {
pub struct VErr;
#[verifier::external_body] pub struct OtherV { x: usize }
// a `String` / `&str`: its bytes; where characters start is an uninterpreted predicate (UTF-8 is std's business)
#[verifier::external_body] pub struct Str { s: String }
pub uninterp spec fn bytes(s: &Str) -> Seq<u8>;
pub uninterp spec fn boundary(b: Seq<u8>, i: int) -> bool;       // str::is_char_boundary for 0 <= i <= len
pub broadcast axiom fn boundary_ends(b: Seq<u8>) ensures #[trigger] boundary(b, 0), boundary(b, b.len() as int);
// a Rust string is at most isize::MAX bytes long
pub broadcast axiom fn len_bound(s: &Str) ensures #[trigger] bytes(s).len() <= usize::MAX;
pub open spec fn pos_ok(b: Seq<u8>, i: int) -> bool { 0 <= i <= b.len() && boundary(b, i) }
pub enum Primitive { Str(Str), Int(i32), Bool(bool), Byte(u8), Vector(Vec<Primitive>), Optional(Option<Box<Primitive>>), Other(OtherV) }
// character-wise views a change may bring in: uninterpreted (NOT known to agree with byte positions)
pub uninterp spec fn char_count(b: Seq<u8>) -> int;
#[verifier::external_body] pub struct CharsV { x: usize }
pub uninterp spec fn chars_of(c: CharsV) -> Seq<u8>;
impl Str { #[verifier::external_body] pub fn chars(&self) -> (r: CharsV) ensures chars_of(r) == bytes(self) { unimplemented!() } }
impl CharsV { #[verifier::external_body] pub fn count(self) -> (r: usize) ensures r == char_count(chars_of(self)) { unimplemented!() } }
// str::find(&str): the byte position of the first occurrence
pub open spec fn occurs_at(s: Seq<u8>, o: Seq<u8>, i: int) -> bool { 0 <= i && i + o.len() <= s.len() && s.subrange(i, i + o.len()) == o }
#[verifier::external_body] pub fn str_find(s: &Str, o: &Str) -> (r: Option<usize>)
    ensures r is Some ==> pos_ok(bytes(s), r->Some_0 as int) && occurs_at(bytes(s), bytes(o), r->Some_0 as int) && forall|j: int| 0 <= j < r->Some_0 ==> !occurs_at(bytes(s), bytes(o), j),
            r is None ==> forall|j: int| !occurs_at(bytes(s), bytes(o), j) { unimplemented!() }
pub struct Bridge;

// ---- assumed std contracts (R8/R9)
#[verifier::external_body] pub fn str_len(s: &Str) -> (r: usize) ensures r == bytes(s).len() { unimplemented!() }
#[verifier::external_body] pub fn str_to_owned(s: &Str) -> (r: Str) ensures bytes(&r) == bytes(s) { unimplemented!() }
#[verifier::external_body] pub fn str_lit_empty() -> (r: Str) ensures bytes(&r) == Seq::<u8>::empty() { unimplemented!() }
#[verifier::external_body] pub fn string_with_capacity(n: usize) -> (r: Str) ensures bytes(&r).len() == 0 { unimplemented!() }
#[verifier::external_body] pub fn push_str(d: &mut Str, s: &Str) ensures bytes(final(d)) == bytes(old(d)) + bytes(s) { unimplemented!() }
// str::get(a..b) / get(..b) / get(a..): None instead of a panic when out of range or off a char boundary
#[verifier::external_body] pub fn str_get(s: &Str, a: usize, b: usize) -> (r: Option<Str>)
    ensures r is Some <==> (a <= b && pos_ok(bytes(s), a as int) && pos_ok(bytes(s), b as int)), r is Some ==> bytes(&r->Some_0) == bytes(s).subrange(a as int, b as int) { unimplemented!() }
#[verifier::external_body] pub fn str_get_to(s: &Str, b: usize) -> (r: Option<Str>)
    ensures r is Some <==> pos_ok(bytes(s), b as int), r is Some ==> bytes(&r->Some_0) == bytes(s).subrange(0, b as int) { unimplemented!() }
#[verifier::external_body] pub fn str_get_from(s: &Str, a: usize) -> (r: Option<Str>)
    ensures r is Some <==> pos_ok(bytes(s), a as int), r is Some ==> bytes(&r->Some_0) == bytes(s).subrange(a as int, bytes(s).len() as int) { unimplemented!() }
// indexing `s[a..b]` etc. PANICS when get() would return None (R8)
#[verifier::external_body] pub fn str_index(s: &Str, a: usize, b: usize) -> (r: Str) requires a <= b, pos_ok(bytes(s), a as int), pos_ok(bytes(s), b as int) ensures bytes(&r) == bytes(s).subrange(a as int, b as int) { unimplemented!() }
#[verifier::external_body] pub fn str_index_to(s: &Str, b: usize) -> (r: Str) requires pos_ok(bytes(s), b as int) ensures bytes(&r) == bytes(s).subrange(0, b as int) { unimplemented!() }
#[verifier::external_body] pub fn str_index_from(s: &Str, a: usize) -> (r: Str) requires pos_ok(bytes(s), a as int) ensures bytes(&r) == bytes(s).subrange(a as int, bytes(s).len() as int) { unimplemented!() }
#[verifier::external_body] pub fn is_char_boundary(s: &Str, i: usize) -> (r: bool) ensures r == pos_ok(bytes(s), i as int) { unimplemented!() }
// String::insert_str / str::split_at PANIC off a char boundary (R8)
#[verifier::external_body] pub fn insert_str(d: &mut Str, i: usize, s: &Str) requires pos_ok(bytes(old(d)), i as int)
    ensures bytes(final(d)) == bytes(old(d)).subrange(0, i as int) + bytes(s) + bytes(old(d)).subrange(i as int, bytes(old(d)).len() as int) { unimplemented!() }
#[verifier::external_body] pub fn split_at(s: &Str, mid: usize) -> (r: (Str, Str)) requires pos_ok(bytes(s), mid as int)
    ensures bytes(&r.0) == bytes(s).subrange(0, mid as int), bytes(&r.1) == bytes(s).subrange(mid as int, bytes(s).len() as int) { unimplemented!() }
#[verifier::external_body] pub fn i32_to_usize(x: i32) -> (r: Result<usize, VErr>) ensures r is Ok <==> x >= 0, r is Ok ==> r->Ok_0 == x { unimplemented!() }
#[verifier::external_body] pub fn usize_to_i32(x: usize) -> (r: Result<i32, VErr>) ensures r is Ok <==> x <= i32::MAX, r is Ok ==> r->Ok_0 == x { unimplemented!() }
#[verifier::external_body] pub fn opt_ctx(o: Option<Str>) -> (r: Result<Str, VErr>) ensures r is Ok <==> o is Some, r is Ok ==> Some(r->Ok_0) == o { unimplemented!() }
#[verifier::external_body] pub fn vpanic() requires false { unimplemented!() }
#[verifier::external_body] pub fn args_first(a: &Vec<Primitive>) -> (r: Option<&Primitive>) ensures a@.len() == 0 ==> r is None, a@.len() > 0 ==> r == Some(&a@[0]) { unimplemented!() }
#[verifier::external_body] pub fn args_get(a: &Vec<Primitive>, i: usize) -> (r: Option<&Primitive>) ensures a@.len() <= i ==> r is None, a@.len() > i ==> r == Some(&a@[i as int]) { unimplemented!() }
pub fn list2(a: Primitive, b: Primitive) -> (r: Primitive) ensures r is Vector, r->Vector_0@ == seq![a, b] { let mut v = Vec::new(); v.push(a); v.push(b); Primitive::Vector(v) }
// the result of a method that returns a string / a pair of strings
pub open spec fn is_str(r: Result<(Option<Primitive>, Option<Bridge>), VErr>, b: Seq<u8>) -> bool { r is Ok && r->Ok_0.0 is Some && r->Ok_0.0->Some_0 is Str && bytes(&r->Ok_0.0->Some_0->Str_0) == b }
pub open spec fn is_pair(r: Result<(Option<Primitive>, Option<Bridge>), VErr>, a: Seq<u8>, b: Seq<u8>) -> bool {
    r is Ok && r->Ok_0.0 is Some && r->Ok_0.0->Some_0 is Vector && r->Ok_0.0->Some_0->Vector_0@.len() == 2
    && r->Ok_0.0->Some_0->Vector_0@[0] is Str && bytes(&r->Ok_0.0->Some_0->Vector_0@[0]->Str_0) == a
    && r->Ok_0.0->Some_0->Vector_0@[1] is Str && bytes(&r->Ok_0.0->Some_0->Vector_0@[1]->Str_0) == b
}
pub open spec fn recv(a: Seq<Primitive>) -> bool { a.len() >= 1 && a[0] is Str }
pub open spec fn int_arg(a: Seq<Primitive>, k: int) -> bool { a.len() > k && a[k] is Int }
"""

SPEC += r"""
#[verifier::external_body] pub fn str_rfind(s: &Str, o: &Str) -> (r: Option<usize>)
    ensures r is Some ==> pos_ok(bytes(s), r->Some_0 as int) && occurs_at(bytes(s), bytes(o), r->Some_0 as int) && forall|j: int| j > r->Some_0 ==> !occurs_at(bytes(s), bytes(o), j),
            r is None ==> forall|j: int| !occurs_at(bytes(s), bytes(o), j) { unimplemented!() }
"""

SPEC += r"""
// str::replace(&str, &str): std's definition of "every occurrence of the pattern replaced" (non-overlapping, left to right) -- uninterpreted
pub uninterp spec fn replaced(s: Seq<u8>, pattern: Seq<u8>, with: Seq<u8>) -> Seq<u8>;
#[verifier::external_body] pub fn str_replace(s: &Str, p: &Str, w: &Str) -> (r: Str) ensures bytes(&r) == replaced(bytes(s), bytes(p), bytes(w)) { unimplemented!() }
#[verifier::external_body] pub fn str_contains(s: &Str, o: &Str) -> (r: bool) ensures r == (exists|j: int| occurs_at(bytes(s), bytes(o), j)) { unimplemented!() }
// the characters of a string (uninterpreted relative to its bytes)
pub uninterp spec fn chars_seq(s: &Str) -> Seq<char>;
#[verifier::external_body] pub fn chars_rev_collect(s: &Str) -> (r: Str) ensures chars_seq(&r) == chars_seq(s).reverse() { unimplemented!() }
// String::from_utf8_lossy(&[b]).into_owned(): the one-character string for an ASCII byte, U+FFFD for any other byte
pub uninterp spec fn ascii_str(b: u8) -> Seq<u8>;
pub uninterp spec fn replacement_char_str() -> Seq<u8>;
#[verifier::external_body] pub fn from_utf8_lossy_1(b: u8) -> (r: Str) ensures bytes(&r) == (if b < 128 { ascii_str(b) } else { replacement_char_str() }) { unimplemented!() }
#[verifier::external_body] pub fn byte_is_ascii(b: &u8) -> (r: bool) ensures r == (*b < 128) { unimplemented!() }
"""

ARMS = {
 "StrIndexOf": """requires recv(arguments@), arguments@.len() >= 2, arguments@[1] is Str
    ensures ({ let s = bytes(&arguments@[0]->Str_0); let o = bytes(&arguments@[1]->Str_0);
        // present: the position of the FIRST occurrence, in the unit every other position-taking method (substring, insert, delete, split) uses,
        // so that s.substring(i, i + o.len()) == o ; absent: nil
        // (the present position is the plain int, not a wrapper around it: D91)
        &&& r is Ok ==> r->Ok_0.0 is Some && (r->Ok_0.0->Some_0 is Int || r->Ok_0.0->Some_0 == Primitive::Optional(None))
        &&& (r is Ok && r->Ok_0.0->Some_0 is Int) ==> ({ let v = r->Ok_0.0->Some_0;
                occurs_at(s, o, v->Int_0 as int) && forall|j: int| 0 <= j < v->Int_0 ==> !occurs_at(s, o, j) })
        &&& (r is Ok && r->Ok_0.0->Some_0 is Optional) ==> forall|j: int| !occurs_at(s, o, j) })""",
 "StrReplace": """requires recv(arguments@), arguments@.len() >= 3, arguments@[1] is Str, arguments@[2] is Str
    ensures is_str(r, replaced(bytes(&arguments@[0]->Str_0), bytes(&arguments@[1]->Str_0), bytes(&arguments@[2]->Str_0)))""",
 "StrContains": """requires recv(arguments@), arguments@.len() >= 2, arguments@[1] is Str
    ensures r is Ok && r->Ok_0.0 == Some(Primitive::Bool(exists|j: int| occurs_at(bytes(&arguments@[0]->Str_0), bytes(&arguments@[1]->Str_0), j)))""",
 "StrReverse": """requires recv(arguments@)
    ensures r is Ok && r->Ok_0.0 is Some && r->Ok_0.0->Some_0 is Str && chars_seq(&r->Ok_0.0->Some_0->Str_0) == chars_seq(&arguments@[0]->Str_0).reverse()""",
 "ByteToAscii": """requires arguments@.len() >= 1, arguments@[0] is Byte
    ensures ({ let b = arguments@[0]->Byte_0;
        // a byte is an ASCII character only below 128: anything else is outside the domain -- a failure, not U+FFFD
        &&& b < 128 ==> is_str(r, ascii_str(b))
        &&& b >= 128 ==> r is Err })""",
 "StrLen": """requires recv(arguments@)
    ensures ({ let s = bytes(&arguments@[0]->Str_0); (s.len() <= i32::MAX ==> r is Ok && r->Ok_0.0 == Some(Primitive::Int(s.len() as i32))) && (s.len() > i32::MAX ==> r is Err) })""",
 "StrSubstring": """requires recv(arguments@), int_arg(arguments@, 1), int_arg(arguments@, 2)
    ensures ({ let s = bytes(&arguments@[0]->Str_0); let b = arguments@[1]->Int_0 as int; let t = arguments@[2]->Int_0 as int;
        // in the domain: the bytes b..t ; outside (negative, reversed, beyond the end, inside a character): a failure, never a panic
        &&& (0 <= b <= t && pos_ok(s, b) && pos_ok(s, t)) ==> is_str(r, s.subrange(b, t))
        &&& !(0 <= b <= t && pos_ok(s, b) && pos_ok(s, t)) ==> r is Err })""",
 "StrInsert": """requires recv(arguments@), arguments@.len() >= 3, arguments@[1] is Str, arguments@[2] is Int
    ensures ({ let s = bytes(&arguments@[0]->Str_0); let n = bytes(&arguments@[1]->Str_0); let i = arguments@[2]->Int_0 as int;
        &&& pos_ok(s, i) ==> is_str(r, s.subrange(0, i) + n + s.subrange(i, s.len() as int))
        &&& !pos_ok(s, i) ==> r is Err })""",
 "StrDelete": """requires recv(arguments@), int_arg(arguments@, 1), int_arg(arguments@, 2)
    ensures ({ let s = bytes(&arguments@[0]->Str_0); let b = arguments@[1]->Int_0 as int; let t = arguments@[2]->Int_0 as int;
        &&& (0 <= b <= t && pos_ok(s, b) && pos_ok(s, t)) ==> is_str(r, s.subrange(0, b) + s.subrange(t, s.len() as int))
        &&& !(0 <= b <= t && pos_ok(s, b) && pos_ok(s, t)) ==> r is Err })""",
 "StrSplit": """requires recv(arguments@), int_arg(arguments@, 1)
    ensures ({ let s = bytes(&arguments@[0]->Str_0); let m = arguments@[1]->Int_0 as int;
        // a position outside the string: [s, ""]; inside: the two halves at exactly that position (0 gives ["", s])
        // (a string longer than i32::MAX bytes cannot be compared with an int position: failure)
        &&& (m < 0 || (s.len() <= i32::MAX && m >= s.len())) ==> is_pair(r, s, Seq::<u8>::empty())
        &&& (0 <= m < s.len() && s.len() <= i32::MAX && boundary(s, m)) ==> is_pair(r, s.subrange(0, m), s.subrange(m, s.len() as int))
        &&& (0 <= m < s.len() && s.len() <= i32::MAX && !boundary(s, m)) ==> r is Err })""",
}


def rules():
    return [
        Rule("R8", "unreachable ! ( )", "{ vpanic ( ) ; return Err ( VErr ) }", why="unreachable!: excluded by the precondition on the argument vector"),
        Rule("R3", "bail ! $a", "return Err ( VErr )", why="bail! -> return Err"),
        Rule("R9", "arguments . first ( )", "args_first ( & arguments )", why="slice::first"),
        Rule("R9", "arguments . get ( $i )", "args_get ( & arguments , $i )", why="slice::get"),
        Rule("R7", "( * $v ) . try_into ( ) . with_context ( $$c ) ?", "i32_to_usize ( * $v ) ?", why="i32 -> usize conversion"),
        Rule("R7", "len . try_into ( ) . with_context ( $$c ) ?", "usize_to_i32 ( len ) ?", why="usize -> i32 conversion"),
        Rule("R7", "s . len ( ) . try_into ( ) . context ( $m ) ?", "usize_to_i32 ( str_len ( s ) ) ?", why="usize -> i32 conversion"),
        Rule("R9", "original . replace ( pattern , replacement )", "str_replace ( original , pattern , replacement )", why="str::replace(&str, &str) (assumed std contract)"),
        Rule("R9", "s . contains ( o )", "str_contains ( s , o )", why="str::contains(&str)"),
        Rule("R9", "v . chars ( ) . rev ( ) . collect ( )", "chars_rev_collect ( v )", why="chars().rev().collect(): the characters in reverse order"),
        Rule("R9", "String :: from_utf8_lossy ( & [ * byte ] ) . into_owned ( )", "from_utf8_lossy_1 ( * byte )", why="String::from_utf8_lossy of one byte"),
        Rule("R9", "byte . is_ascii ( )", "byte_is_ascii ( byte )", why="u8::is_ascii"),
        Rule("R9", "s . rfind ( o )", "str_rfind ( s , o )", why="str::rfind: byte position of the last occurrence (assumed std contract)"),
        Rule("R9", "s . find ( o )", "str_find ( s , o )", why="str::find: byte position of the first occurrence (assumed std contract)"),
        Rule("R7", "start . try_into ( ) . with_context ( $$c ) ?", "usize_to_i32 ( start ) ?", why="usize -> i32 conversion"),
        Rule("R9", "let len = v . len ( ) ;", "let len = str_len ( v ) ;", why="str::len"),
        Rule("R9", "$s . get ( $a .. $b ) . with_context ( $$c ) ?", "opt_ctx ( str_get ( $s , $a , $b ) ) ?", why="str::get(range): None instead of a panic"),
        Rule("R9", "( s . get ( .. $$b ) , s . get ( $$a .. ) )", "( str_get_to ( s , $$b ) , str_get_from ( s , $$a ) )", why="str::get(range)"),
        Rule("R8", "s [ $a .. $b ]", "str_index ( s , $a , $b )", why="slice indexing with its panic precondition"),
        Rule("R8", "& s [ .. $b ]", "& str_index_to ( s , $b )", why="slice indexing with its panic precondition"),
        Rule("R8", "& s [ $a .. ]", "& str_index_from ( s , $a )", why="slice indexing with its panic precondition"),
        Rule("R8", "s [ .. $b ]", "str_index_to ( s , $b )", why="slice indexing with its panic precondition"),
        Rule("R8", "s [ $a .. ]", "str_index_from ( s , $a )", why="slice indexing with its panic precondition"),
        Rule("R1", "substring . to_owned ( )", "substring", why="&str::to_owned"),
        Rule("R1", "str_index ( $$a ) . to_owned ( )", "str_index ( $$a )", why="&str::to_owned"),
        Rule("R1", "original . clone ( )", "str_to_owned ( original )", why="String::clone"),
        Rule("R9", "! result . is_char_boundary ( $i )", "! is_char_boundary ( & result , $i )", why="str::is_char_boundary"),
        Rule("R9", "! s . is_char_boundary ( $i )", "! is_char_boundary ( s , $i )", why="str::is_char_boundary"),
        Rule("R8", "result . insert_str ( $$a ) ;", lambda b: "insert_str ( & mut result , " + text(b["a"]) + " ) ;", why="String::insert_str with its panic precondition"),
        Rule("R9", "result . len ( )", "str_len ( & result )", why="str::len"), Rule("R9", "s . len ( )", "str_len ( s )", why="str::len"),
        Rule("R9", "head . len ( )", "str_len ( & head )", why="str::len"), Rule("R9", "tail . len ( )", "str_len ( & tail )", why="str::len"),
        Rule("R9", "String :: with_capacity ( $$n )", "string_with_capacity ( $$n )", why="capacity hint"),
        Rule("R9", "result . push_str ( $$e ) ;", lambda b: "push_str ( & mut result , " + (text(b["e"]) if text(b["e"]).startswith("&") else "& " + text(b["e"])) + " ) ;", why="String::push_str"),
        Rule("R8", "s . split_at ( $$m )", "split_at ( s , $$m )", why="str::split_at with its panic precondition"),
        Rule("R1", "s . to_owned ( )", "str_to_owned ( s )", why="&str::to_owned"),
        Rule("R1", "lhs . to_owned ( )", "lhs", why="&str::to_owned"), Rule("R1", "rhs . to_owned ( )", "rhs", why="&str::to_owned"),
        Rule("R1", "\"\" . to_owned ( )", "str_lit_empty ( )", why="empty string literal"),
        Rule("R1", "vector ! [ $$a , $$b , ]", "list2 ( $$a , $$b )", why="vector![a, b]: a new two-element list"),
        Rule("R1", "vector ! [ $$a , $$b ]", "list2 ( $$a , $$b )", why="vector![a, b]: a new two-element list"),
    ]


def build(repo):
    src = Source(repo)
    log = []
    frun = src.fn(FUNC, "run", "impl BuiltInFunction")
    fns, obls = [], []
    for name, contract in ARMS.items():
        try:
            arm = extract_match_arm(frun["body"], f"Self :: {name}")
        except Exception as e:
            raise Undecided(f"{FUNC}: arm Self::{name} not found: {e}")
        b = translate(arm["body"], rules(), log, f"BuiltInFunction::run[{name}]")
        # `Primitive::Str(a), Primitive::Str(b)` inside vector![..] are two token trees each: handled by the list2 rule through grouping
        check_closed(b, name)
        fns.append(f"""
//@ OBL C14.{name}
pub fn arm_{name}(arguments: Vec<Primitive>) -> (r: Result<(Option<Primitive>, Option<Bridge>), VErr>)
    {contract}
{{
    broadcast use boundary_ends, len_bound;
{render(b, 1)}
}}
""")
        obls.append(Obl(f"C14.{name}", ["C14", "C17"], fn=f"arm_{name}", desc=f"BuiltInFunction::run arm {name}: the documented result inside the domain, a failure (never a panic) outside"))
    # ---- string indexing `s[i]`: the Str arm of vec_op's `[idx]` branch (instruction.rs)
    fv = src.fn("bytecode/src/instruction.rs", "vec_op", "pub mod implementations")
    try:
        arm = extract_match_arm(fv["body"], "Primitive :: Str ( ref string )")
    except Exception as e:
        raise Undecided(f"instruction.rs: arm Primitive::Str(ref string) of vec_op not found: {e}")
    bi = translate(arm["body"], [
        Rule("R3", ". with_context ( $$c ) ?", ". verif_ctx ( ) ?", why="context text dropped; None -> Err"),
        Rule("R9", "let mut str_chars = string . chars ( ) ;", "", why="Chars iterator: its only use is nth()"),
        Rule("R9", "str_chars . nth ( $i )", "str_chars_nth ( string , $i )", why="Chars::nth: the i-th character"),
        Rule("R9", "string . chars ( ) . nth ( $i )", "str_chars_nth ( string , $i )", why="Chars::nth: the i-th character"),
        Rule("R9", "string . get ( $a .. )", "str_get_from ( string , $a )", why="str::get(range)"),
        Rule("R9", ". and_then ( | $r | $r . chars ( ) . next ( ) )", ". verif_first_char ( )", why="first character of a string slice"),
        Rule("R1", ". to_string ( ) ,", ". verif_char_to_str ( ) ,", why="char::to_string"),
        Rule("R1", ". to_string ( )", ". verif_char_to_str ( )", why="char::to_string"),
        Rule("R13", "ctx . push ( $$e )", "stack . push ( $$e )", why="operand stack as an explicit vector"),
    ], log, "vec_op[str index]")
    check_closed(bi, "vec_op[str index]")
    fns.append(f"""
// characters of a string (uninterpreted relative to its bytes: a multi-byte character occupies several byte positions)
pub uninterp spec fn chars(s: &Str) -> Seq<char>;
pub uninterp spec fn char_str(c: char) -> Seq<u8>;
#[verifier::external_body] pub fn str_chars_nth(s: &Str, i: usize) -> (r: Option<char>) ensures r == (if i < chars(s).len() {{ Some(chars(s)[i as int]) }} else {{ None::<char> }}) {{ unimplemented!() }}
pub trait VerifOptChar {{ fn verif_ctx(self) -> Result<char, VErr>; }}
impl VerifOptChar for Option<char> {{
    #[verifier::external_body] fn verif_ctx(self) -> (r: Result<char, VErr>) ensures r is Ok <==> self is Some, r is Ok ==> Some(r->Ok_0) == self {{ unimplemented!() }}
}}
pub trait VerifOptStr {{ fn verif_first_char(self) -> Option<char>; }}
impl VerifOptStr for Option<Str> {{
    // first character of the slice, if the slice exists and is not empty
    #[verifier::external_body] fn verif_first_char(self) -> (r: Option<char>)
        ensures self is None ==> r is None, self is Some ==> r == (if chars(&self->Some_0).len() > 0 {{ Some(chars(&self->Some_0)[0]) }} else {{ None::<char> }}) {{ unimplemented!() }}
}}
pub trait VerifChar {{ fn verif_char_to_str(self) -> Str; }}
impl VerifChar for char {{ #[verifier::external_body] fn verif_char_to_str(self) -> (r: Str) ensures bytes(&r) == char_str(self) {{ unimplemented!() }} }}

//@ OBL C14.index.str
// `s[i]`: the i-th CHARACTER of the string (not the i-th byte) as a one-character string; i beyond the last character is a failure
pub fn index_str(string: &Str, idx: usize, stack: &mut Vec<Primitive>) -> (r: Result<(), VErr>)
    ensures
        idx < chars(string).len() ==> r is Ok && final(stack)@.len() == old(stack)@.len() + 1 && final(stack)@.drop_last() == old(stack)@
            && final(stack)@.last() is Str && bytes(&final(stack)@.last()->Str_0) == char_str(chars(string)[idx as int]),
        idx >= chars(string).len() ==> r is Err && final(stack)@ == old(stack)@,
{{
{render(bi, 1)};
    Ok(())
}}
""")
    obls.append(Obl("C14.index.str", ["C14", "C17"], fn="index_str", desc="vec_op `[idx]` on a string: the idx-th character (by characters, not bytes) as a one-character string; beyond the end a failure"))
    gen = header(log, f"{FUNC}: BuiltInFunction::run arms " + ", ".join(ARMS) + "; instruction.rs: vec_op (string index arm)") + SPEC + "\n".join(fns) + "\n} // verus!\nfn main() {}\n"
    return gen, obls, log



CHARS_SPEC = r"""
""" + VITER_SPEC + r"""
// `s.chars()`: the characters in order
#[verifier::external_body] pub fn str_chars_iter(s: &Str) -> (r: VIter<char>) ensures r.v@ == chars_seq(s) { unimplemented!() }
pub trait VerifChar2 { fn verif_char_to_string(self) -> Str; }
impl VerifChar2 for char { #[verifier::external_body] fn verif_char_to_string(self) -> (r: Str) ensures chars_seq(&r) == seq![self] { unimplemented!() } }
// Display for Primitive (uninterpreted: what `print` shows)
pub uninterp spec fn display(p: Primitive) -> Seq<u8>;
impl Primitive { #[verifier::external_body] pub fn verif_to_string(&self) -> (r: Str) ensures bytes(&r) == display(*self) { unimplemented!() } }
"""

CHARS_INV = """invariant
            verif_i <= verif_src@.len(), verif_out@.len() == verif_i,
            forall|j: int| 0 <= j < verif_i ==> (#[trigger] verif_out@[j]) is Str && chars_seq(&verif_out@[j]->Str_0) == seq![verif_src@[j]],
        decreases verif_src@.len() - verif_i,"""


def build_chars(repo):
    src = Source(repo)
    log = []
    frun = src.fn(FUNC, "run", "impl BuiltInFunction")

    def chain(b):
        return ["let", *b["n"], "= {", "let verif_src =", *b["it"], ". collect_vec ( ) ; let mut verif_out : Vec < Primitive > = Vec :: new ( ) ; let mut verif_i : usize = 0 ;",
                "while verif_i < verif_src . len ( )", G(CHARS_INV), "{", "let", *b["c"], "= verif_src [ verif_i ] ;", "let verif_item =", *b["body"], ";",
                "verif_out . push ( verif_item ) ; verif_i += 1 ;", "}", "verif_out", "} ;"]
    R = [
        Rule("R8", "unreachable ! ( )", "{ vpanic ( ) ; return Err ( VErr ) }", why="unreachable!: excluded by the precondition on the argument vector"),
        Rule("R9", "arguments . first ( )", "args_first ( & arguments )", why="slice::first"),
        Rule("R9", "$x . chars ( )", "str_chars_iter ( $x )", why="str::chars: the characters in order"),
        Rule("R1", "v . to_string ( )", "str_to_owned ( v )", why="str::to_string"),
        Rule("R2", "let $n = $$it . map ( | $c | $$body ) . collect ( ) ;", chain, why="chars().map(closure).collect(): the loop that evaluates the closure body for each character in order"),
        Rule("R1", "vector ! ( raw $$e )", "Primitive :: Vector ( $$e )", why="vector!(raw v): a new list with these elements"),
        Rule("R1", "c . to_string ( )", "c . verif_char_to_string ( )", why="char::to_string: the one-character string"),
        Rule("R6", "primitive . to_string ( )", "primitive . verif_to_string ( )", why="Display for Primitive: abstract"),
    ]
    CONTRACTS = {
        "StrChars": """requires recv(arguments@)
    ensures ({ let s = chars_seq(&arguments@[0]->Str_0);
        // a list with one one-character string per character, in order
        &&& r is Ok && r->Ok_0.0 is Some && r->Ok_0.0->Some_0 is Vector && r->Ok_0.0->Some_0->Vector_0@.len() == s.len()
        &&& forall|i: int| 0 <= i < s.len() ==> (#[trigger] r->Ok_0.0->Some_0->Vector_0@[i]) is Str && chars_seq(&r->Ok_0.0->Some_0->Vector_0@[i]->Str_0) == seq![s[i]] })""",
        "GenericToStr": """requires arguments@.len() >= 1
    ensures is_str(r, display(arguments@[0]))      // the text `print` shows for the value""",
    }
    fns, obls = [], []
    for name, contract in CONTRACTS.items():
        try:
            arm = extract_match_arm(frun["body"], f"Self :: {name}")
        except Exception as e:
            raise Undecided(f"{FUNC}: arm Self::{name} not found: {e}")
        b = translate(arm["body"], R, log, f"BuiltInFunction::run[{name}]")
        check_closed(b, name)
        fns.append(f"""
//@ OBL C14.{name}
pub fn arm_{name}(arguments: Vec<Primitive>) -> (r: Result<(Option<Primitive>, Option<Bridge>), VErr>)
    {contract}
{{
{render(b, 1)}
}}
""")
        obls.append(Obl(f"C14.{name}", ["C14"], fn=f"arm_{name}", desc=f"BuiltInFunction::run arm {name}: " + ("one one-character string per character, in order" if name == "StrChars" else "the display text of the receiver, as a string")))
    gen = header(log, f"{FUNC}: BuiltInFunction::run arms StrChars, GenericToStr") + SPEC + CHARS_SPEC + "\n".join(fns) + "\n} // verus!\nfn main() {}\n"
    return gen, obls, log


UNITS = [VUnit("c14_str", ["C14", "C17"], "string methods with positions: result inside the domain, failure outside (V-t)", build)]
UNITS[0].assumes = ["strings are byte sequences with an uninterpreted char-boundary predicate; positions are byte positions as the code uses them (the statement's `indexing` by characters is vec_op's nth())",
                    "std contracts assumed: str::get returns None exactly where indexing / split_at / insert_str would panic",
                    "argument vector shape (receiver is a string, argument kinds) is a precondition (compiler's typing)",
                    "parse_* and string * / + are covered by other units (c14_parse, c05_*)"]
UNITS.append(VUnit("c14_chars", ["C14"], "`chars` and `to_str`: one string per character in order; the display text", build_chars))
UNITS[1].assumes = ["str::chars yields the characters in order; char::to_string is the one-character string; Display for Primitive is abstract (`display`)", "argument vector shape is a precondition (compiler's typing)"]

"""C20: `mscript clean DIR` -- the selection predicate of clean_command, extracted on every run, against its spec (K-t, bounded),
plus a syntactic scan of the loop frame (reported as an unchecked assumption, never as proof)."""
import os, re
from pathlib import Path
from vlib.rules import *
from vlib.pattern import Pat
from vlib import kani as K
from vlib.core import UnitResult

MAIN = "src/main.rs"

HARNESS = r"""
#![allow(warnings)]
use std::ffi::OsStr;
use std::path::Path;
// ======== real text: condition of the `if` that guards remove_file in clean_command (`path.file_name()` -> parameter) ========
pub fn pred(verif_entry_name: &OsStr, verif_is_dir: bool) -> bool {
    PRED
}

#[cfg(kani)]
mod verif {
    use super::*;
    use std::os::unix::ffi::OsStrExt;
    fn ok_byte(c: u8) -> bool { ALPHABET }
    #[kani::proof]
    #[kani::unwind(UNWIND)]
    fn c20_filter() {
        const N: usize = NBYTES;
        let len: usize = kani::any();
        kani::assume(len >= 1 && len <= N);
        let mut buf = [0u8; N];
        let mut i = 0;
        while i < N { let c: u8 = kani::any(); kani::assume(ok_byte(c)); buf[i] = c; i += 1; }
        let bytes = &buf[..len];
        let name = OsStr::from_bytes(bytes);
        // spec (statement: "files whose extension is `mmm`"): a last '.' that is not the first byte, and exactly "mmm" after it
        let mut last_dot: Option<usize> = None;
        let mut j = 0;
        while j < len { if bytes[j] == b'.' { last_dot = Some(j); } j += 1; }
        let expect = match last_dot {
            Some(d) if d > 0 => len - d - 1 == 3 && bytes[d + 1] == b'm' && bytes[d + 2] == b'm' && bytes[d + 3] == b'm',
            _ => false,
        };
        // "never deletes ... any directory": a directory is never selected, whatever it is called (remove_file on it fails and aborts the clean)
        let is_dir: bool = kani::any();
        assert!(pred(name, is_dir) == (expect && !is_dir), "C20.filter: an entry is selected for deletion iff it is not a directory and its extension is exactly `mmm`");
    }
    // cross-check of the std contract the Verus unit c20_clean_v ASSUMES for Path::extension (`ext_spec`), against the real std:
    // independent of mscript's code
    #[kani::proof]
    #[kani::unwind(UNWIND)]
    fn c20_std_extension() {
        const N: usize = NBYTES;
        let len: usize = kani::any();
        kani::assume(len >= 1 && len <= N);
        let mut buf = [0u8; N];
        let mut i = 0;
        while i < N { let c: u8 = kani::any(); kani::assume(ok_byte(c)); buf[i] = c; i += 1; }
        let bytes = &buf[..len];
        let name = OsStr::from_bytes(bytes);
        let mut last_dot: Option<usize> = None;
        let mut j = 0;
        while j < len { if bytes[j] == b'.' { last_dot = Some(j); } j += 1; }
        let dotdot = len == 2 && bytes[0] == b'.' && bytes[1] == b'.';
        let real = Path::new(name).extension();
        match last_dot {
            Some(d) if d > 0 && !dotdot => {
                assert!(real.is_some(), "C20.std.extension: a dot that is not the first byte gives an extension");
                let e = real.unwrap().as_bytes();
                assert!(e.len() == len - d - 1, "C20.std.extension: the extension is what follows the last dot (length)");
                let mut q = 0;
                while q < e.len() { assert!(e[q] == bytes[d + 1 + q], "C20.std.extension: the extension is what follows the last dot (bytes)"); q += 1; }
            }
            _ => assert!(real.is_none(), "C20.std.extension: no extension without a dot, with only a leading dot, or for `..`"),
        }
    }
}
"""


class CleanUnit:
    engine = "kani"
    uid = "c20_clean"
    props = ["C20"]
    title = "clean: selection predicate (bounded K-t) + loop-frame scan"
    timeout = 1500
    assumes = [
        "BOUNDED: file names of 1..N bytes over a fixed alphabet (N and alphabet in the obligation id); not a proof for all names",
        "scan (unchecked, syntactic): remove_file is called exactly once, on the current directory entry, inside the `then` branch of the extracted condition; the loop iterates std::fs::read_dir(DIR) (not recursive); no remove_dir*/rename/write in clean_command",
        "file-system effects (symlinks, a directory named *.mmm aborting the loop, permissions) are outside the contract",
    ]

    def run(self, repo, workdir, tier):
        res = UnitResult(self.uid)
        res.engine = "kani 0.68 / cbmc 6.11 (K-t, bounded)"
        src = Source(repo)
        f = src.fn(MAIN, "clean_command")
        body = f["body"]
        # locate `for path in paths { ... }` and the first `if COND { THEN }` inside it
        p_for = Pat("for $v in $$it { $$body }")
        loop = None
        for i in range(len(body)):
            r = p_for.match_at(body, i)
            if r:
                loop = r[1]; break
        if not loop:
            raise Undecided("clean_command: `for .. in ..` loop not found")
        lb = loop["body"]
        var = text(loop["v"])
        p_if = Pat("if $$cond { $$then }")
        cond = then = None
        prefix = []
        for i in range(len(lb)):
            r = p_if.match_at(lb, i)
            if r and (i == 0 or lb[i - 1] in (";", "}")):
                cond, then = r[1]["cond"], r[1]["then"]; prefix = lb[:i]; break
        if cond is None:
            raise Undecided("clean_command: guarding `if` not found in the loop")
        # ---- scan of the frame (assumption, reported as such)
        all_t = " ".join(body)
        scan_ok = (all_t.count("remove_file") == 1 and " ".join(then).count("remove_file") == 1
                   and "remove_dir" not in all_t and "rename" not in all_t and "read_dir" in all_t
                   and re.search(r"remove_file \( %s \. path \( \) \)" % re.escape(var), " ".join(then)) is not None)
        # (the Clean arm of main and the clap attribute of `path` are obligations C20.main.dir / C20.cli.as-typed of unit c20_clean_v)
        # ---- predicate: statements of the loop body in front of the `if` + its condition; `VAR.file_name()` -> the parameter
        log = []
        prefix = Rule("Kt", f"let {var} = {var} ? ;", "", why="unwrapping of the directory entry dropped (the predicate takes its name)").apply(list(prefix), log)
        pre2 = Rule("Kt", f"{var} . file_name ( )", "verif_entry_name", why="directory entry's file name -> parameter").apply(prefix, log)
        cond2 = Rule("Kt", f"{var} . file_name ( )", "verif_entry_name", why="directory entry's file name -> parameter").apply(list(cond), log)
        for form in (f"{var} . file_type ( ) ? . is_dir ( )", f"{var} . path ( ) . is_dir ( )", f"{var} . metadata ( ) ? . is_dir ( )"):
            pre2 = Rule("Kt", form, "verif_is_dir", why="whether the directory entry is a directory -> parameter").apply(pre2, log)
            cond2 = Rule("Kt", form, "verif_is_dir", why="whether the directory entry is a directory -> parameter").apply(cond2, log)
        pred_note = None
        if var in cond2 or var in pre2 or "remove_file" in " ".join(pre2):
            pred_note = "clean_command: the selection uses the directory entry beyond file_name() / is_dir(): the bounded cross-check of the predicate is skipped (unit c20_clean_v decides)"
        elif "verif_entry_name" not in pre2 + cond2:
            pred_note = "clean_command: the selection does not look at the entry's file name: the bounded cross-check of the predicate is skipped (unit c20_clean_v decides)"
        cond2 = pre2 + cond2
        if pred_note:
            cond2 = ["false"]
        thorough = tier == "thorough"
        nbytes = int(os.environ.get("VERIF_C20_NBYTES", "0")) or (6 if thorough else 5)
        alphabet = "c == b'a' || c == b'm' || c == b'M' || c == b'.' || c == b'~'" + (" || c == b' ' || c == 0xC3 || c == 0xA9" if thorough else "")
        lib = HARNESS.replace("PRED", render(cond2, 1)).replace("NBYTES", str(nbytes)).replace("UNWIND", str(nbytes + 3)).replace("ALPHABET", alphabet)
        crate = K.write_crate(Path(workdir) / "kt_clean", "kt_clean", "// GENERATED (K-t) from src/main.rs clean_command\n" + lib)
        res.gen_path = str(crate / "src/lib.rs")
        per, raw, wall, cmd, timed_out = K.run_kani(crate, jobs=2, timeout=self.timeout)
        res.raw = raw[-8000:]; res.checker_cmd = cmd
        res.functions = ["src/main.rs: clean_command (selection condition extracted as `pred`)"]
        res.samples = [f"pred(name) = {text(cond2)}"]
        bound = f"names of 1..{nbytes} bytes over {{a,m,M,.,~{', space, U+00E9 bytes' if thorough else ''}}}"
        o = Obl(f"C20.filter[{bound}]", ["C20"], fn="c20_filter", engine="kani/cbmc", bounded=bound,
                desc="the extracted selection condition holds exactly for entries that are not directories and whose name has the extension `mmm` (last dot not first byte, exactly mmm after it)")
        r = per.get("c20_filter")
        if pred_note:
            res.samples.append("NOT RUN: " + pred_note)
        elif r is None or r["status"] is None or r["oom"] or timed_out:
            o.status = "undecided"; o.detail = "no verdict from kani: " + raw[-1500:]
        else:
            named, panics, ign, other = K.classify(r["failed"])
            o.time_s = r["time"]
            if r["unwind"] or r["unsupported"] or other:
                o.status = "undecided"; o.detail = "unwinding/unsupported/unclassified: " + repr(r["failed"][:3])
            elif named or panics:
                o.status = "failed"; o.detail = "\n".join(f"{d} @ {l}" for d, l in named + panics)
            else:
                o.status = "discharged"
        o2 = Obl(f"C20.std.extension[{bound}]", ["C20"], fn="c20_std_extension", engine="kani/cbmc", bounded=bound,
                 desc="cross-check of the std contract unit c20_clean_v assumes: the real std::path::Path::extension of a one-component name is what follows the last dot; none without a dot, with only a leading dot, or for `..`")
        r2 = per.get("c20_std_extension")
        if r2 is None or r2["status"] is None or r2["oom"] or timed_out:
            o2.status = "undecided"; o2.detail = "no verdict from kani: " + raw[-1500:]
        else:
            named2, panics2, ign2, other2 = K.classify(r2["failed"])
            o2.time_s = r2["time"]
            if r2["unwind"] or r2["unsupported"] or other2:
                o2.status = "undecided"; o2.detail = "unwinding/unsupported/unclassified: " + repr(r2["failed"][:3])
            elif named2 or panics2:
                # the assumed std contract is wrong: that is a defect of the machinery's trusted base, not of mscript -> undecided, never an alarm
                o2.status = "undecided"; o2.detail = "the ASSUMED contract of Path::extension disagrees with the real std: " + "; ".join(d for d, l in named2 + panics2)
            else:
                o2.status = "discharged"
        s = Obl("C20.frame.scan", ["C20"], fn=None, engine="scan", bounded="syntactic scan (assumption, not proof)",
                desc="remove_file is called once, on the current entry, only under the extracted condition; loop over read_dir(DIR); no directory removal")
        s.status = "discharged" if scan_ok else "failed"
        if not scan_ok:
            s.detail = "loop frame of clean_command changed: remove_file/remove_dir/rename usage no longer matches the scanned shape"
        res.obls = ([] if pred_note else [o]) + [o2, s]
        return res

    def witness(self, repo, o, res):
        if o.fn != "c20_filter":
            return None
        import subprocess
        try:
            crate = Path(res.gen_path).parent.parent
            env = dict(os.environ, CARGO_NET_OFFLINE="true"); env.pop("RUSTUP_TOOLCHAIN", None)
            p = subprocess.run(["cargo", "kani", "--harness", "c20_filter", "-Z", "concrete-playback", "--concrete-playback=print"], cwd=crate, capture_output=True, text=True, timeout=900, env=env)
            m = re.search(r"```\n(.*?)```", p.stdout, re.S)
            if m:
                return {"found": True, "kani_concrete_playback_test": m.group(1), "note": "first vector = len, following = name bytes; create that file in a directory and run `mscript clean DIR`"}
        except Exception as e:
            return {"found": False, "error": str(e)}
        return None


UNITS = [CleanUnit()]


# =====================================================================================================================
# V-t: the WHOLE of clean_command under contract, for every directory listing and every file name (unbounded), over the documented
# contracts of std::fs / std::path.  The bounded Kani harness above stays as a cross-check of the one std contract that carries the
# meaning of "extension" (Path::extension), against the real std.

SPEC_V = r"""
use vstd::prelude::*;
verus! {
pub struct VErr { pub id: int }
#[verifier::external_body] pub struct VString { x: usize }
pub uninterp spec fn text_of(s: &VString) -> Seq<char>;
pub uninterp spec fn replaced(s: Seq<char>) -> Seq<char>;
impl VString {
    // text transformations a change may run the user's path through: results uninterpreted (NOT known to be the text itself)
    #[verifier::external_body] pub fn replace(&self, a: char, b: &str) -> (r: VString) ensures text_of(&r) == replaced(text_of(self)) { unimplemented!() }
    #[verifier::external_body] pub fn trim(&self) -> (r: &VString) ensures text_of(r) == replaced(text_of(self)) { unimplemented!() }
    #[verifier::external_body] pub fn to_lowercase(&self) -> (r: VString) ensures text_of(&r) == replaced(text_of(self)) { unimplemented!() }
    #[verifier::external_body] pub fn to_string(&self) -> (r: VString) ensures text_of(&r) == text_of(self) { unimplemented!() }
    #[verifier::external_body] pub fn to_owned(&self) -> (r: VString) ensures text_of(&r) == text_of(self) { unimplemented!() }
    #[verifier::external_body] pub fn clone(&self) -> (r: VString) ensures text_of(&r) == text_of(self) { unimplemented!() }
    #[verifier::external_body] pub fn as_str(&self) -> (r: &VString) ensures text_of(r) == text_of(self) { unimplemented!() }
}
// ---- std::fs / std::path as far as clean_command uses them (assumed std contracts, from the documentation of std) ----
#[verifier::external_body] pub struct PathV { x: usize }
pub uninterp spec fn path_text(p: &PathV) -> Seq<char>;      // the path as given
#[verifier::external_body] pub struct OsName { x: usize }
pub uninterp spec fn name_bytes(n: &OsName) -> Seq<u8>;
#[verifier::external_body] pub struct DirEntry { x: usize }
pub uninterp spec fn e_name(e: &DirEntry) -> Seq<u8>;         // file name of the entry (one path component)
pub uninterp spec fn e_is_dir(e: &DirEntry) -> bool;          // the entry itself is a directory (DirEntry::file_type does not follow symlinks)
pub uninterp spec fn e_dir(e: &DirEntry) -> Seq<char>;        // the directory the entry was listed in
pub struct EntryPath { pub dir: Seq<char>, pub name: Seq<u8> }   // DIR/NAME: a path directly inside DIR
#[verifier::external_body] pub struct EPath { x: usize }
pub uninterp spec fn ep_view(p: &EPath) -> EntryPath;
#[verifier::external_body] pub struct FileType { x: usize }
pub uninterp spec fn ft_is_dir(t: &FileType) -> bool;
// what read_dir(dir) yields, in order: the entries DIRECTLY inside dir (std: "not recursive"), each possibly an I/O error
pub uninterp spec fn listing(dir: Seq<char>) -> Seq<Result<DirEntry, VErr>>;
// the file system as far as the property talks about it: the log of removed paths, the reported count, everything else
pub struct Fs { pub removed: Ghost<Seq<EntryPath>>, pub reported: Ghost<Option<int>>, pub other_effects: Ghost<int>, pub cleaned: Ghost<Seq<Seq<char>>>, pub outside_clean: Ghost<int> }
#[verifier::external_body] pub fn path_new(s: &VString) -> (r: &PathV) ensures path_text(r) == text_of(s) { unimplemented!() }
#[verifier::external_body] pub fn read_dir(p: &PathV) -> (r: Result<Vec<Result<DirEntry, VErr>>, VErr>)
    ensures r is Ok ==> r->Ok_0@ == listing(path_text(p)) { unimplemented!() }
#[verifier::external_body] pub fn take_item(v: &Vec<Result<DirEntry, VErr>>, k: usize) -> (r: Result<DirEntry, VErr>) requires k < v.len() ensures r == v@[k as int] { unimplemented!() }
pub uninterp spec fn unknown_bool(e: &DirEntry, which: int) -> bool;
pub uninterp spec fn unknown_path(p: EntryPath, which: int) -> EntryPath;
impl DirEntry {
    #[verifier::external_body] pub fn file_name(&self) -> (r: OsName) ensures name_bytes(&r) == e_name(self) { unimplemented!() }
    #[verifier::external_body] pub fn file_type(&self) -> (r: Result<FileType, VErr>) ensures r is Ok ==> ft_is_dir(&r->Ok_0) == e_is_dir(self) { unimplemented!() }
    // metadata() FOLLOWS symlinks: whether it says "directory" is not whether the entry is one
    #[verifier::external_body] pub fn metadata(&self) -> (r: Result<FileType, VErr>) ensures r is Ok ==> ft_is_dir(&r->Ok_0) == unknown_bool(self, 1) { unimplemented!() }
    #[verifier::external_body] pub fn path(&self) -> (r: EPath) ensures ep_view(&r) == (EntryPath { dir: e_dir(self), name: e_name(self) }) { unimplemented!() }
}
impl FileType {
    #[verifier::external_body] pub fn is_dir(&self) -> (r: bool) ensures r == ft_is_dir(self) { unimplemented!() }
    #[verifier::external_body] pub fn is_file(&self) -> (r: bool) ensures r ==> !ft_is_dir(self) { unimplemented!() }      // a symlink is neither
    #[verifier::external_body] pub fn is_symlink(&self) -> (r: bool) ensures r ==> !ft_is_dir(self) { unimplemented!() }
}
impl EPath {
    // operations a change may run the entry's path through before removing it: where they lead is NOT known to be the entry
    #[verifier::external_body] pub fn canonicalize(&self) -> (r: Result<EPath, VErr>) ensures r is Ok ==> ep_view(&r->Ok_0) == unknown_path(ep_view(self), 1) { unimplemented!() }
    #[verifier::external_body] pub fn with_extension(&self, e: &str) -> (r: EPath) ensures ep_view(&r) == unknown_path(ep_view(self), 2) { unimplemented!() }
    #[verifier::external_body] pub fn is_dir(&self) -> (r: bool) { unimplemented!() }       // follows symlinks: uninterpreted
    #[verifier::external_body] pub fn is_file(&self) -> (r: bool) { unimplemented!() }
    #[verifier::external_body] pub fn exists(&self) -> (r: bool) { unimplemented!() }
    #[verifier::external_body] pub fn clone(&self) -> (r: EPath) ensures ep_view(&r) == ep_view(self) { unimplemented!() }
}
// std::path::Path::extension for a single path component (std documentation): none for `..`, none without a dot, none when the only
// dot is the first byte; otherwise what follows the LAST dot
pub open spec fn last_dot(n: Seq<u8>) -> int decreases n.len() { if n.len() == 0 { -1 } else if n.last() == 46u8 { n.len() - 1 } else { last_dot(n.drop_last()) } }
pub open spec fn ext_spec(n: Seq<u8>) -> Option<Seq<u8>> {
    if n == seq![46u8, 46u8] { None } else if last_dot(n) <= 0 { None } else { Some(n.subrange(last_dot(n) + 1, n.len() as int)) }
}
#[verifier::external_body] pub struct OsStrV { x: usize }
pub uninterp spec fn os_bytes(s: &OsStrV) -> Seq<u8>;
#[verifier::external_body] pub fn os_path_new(n: &OsName) -> (r: OsName) ensures name_bytes(&r) == name_bytes(n) { unimplemented!() }       // owned: a `let` of the path (an inlined helper's parameter) outlives its argument
impl OsName {
    #[verifier::external_body] pub fn extension(&self) -> (r: Option<&OsStrV>)
        ensures (r is Some) == (ext_spec(name_bytes(self)) is Some), r is Some ==> os_bytes(r->Some_0) == ext_spec(name_bytes(self))->Some_0 { unimplemented!() }
    // other ways of cutting a name up: results uninterpreted
    #[verifier::external_body] pub fn file_stem(&self) -> (r: Option<&OsStrV>) { unimplemented!() }
}
pub open spec fn lower(b: u8) -> u8 { if 65 <= b <= 90 { (b + 32) as u8 } else { b } }
#[verifier::external_body] pub fn os_eq(s: &OsStrV, lit: &Vec<u8>) -> (r: bool) ensures r == (os_bytes(s) == lit@) { unimplemented!() }
#[verifier::external_body] pub fn os_eq_ignore_ascii_case(s: &OsStrV, lit: &Vec<u8>) -> (r: bool)
    ensures r == (os_bytes(s).len() == lit@.len() && forall|i: int| 0 <= i < lit@.len() ==> lower(#[trigger] os_bytes(s)[i]) == lower(lit@[i])) { unimplemented!() }
#[verifier::external_body] pub fn remove_file(fs: &mut Fs, p: EPath) -> (r: Result<(), VErr>)
    ensures r is Ok ==> final(fs).removed@ == old(fs).removed@.push(ep_view(&p)), r is Err ==> final(fs).removed@ == old(fs).removed@,
            final(fs).reported@ == old(fs).reported@, final(fs).other_effects@ == old(fs).other_effects@, final(fs).cleaned@ == old(fs).cleaned@, final(fs).outside_clean@ == old(fs).outside_clean@ { unimplemented!() }
// anything else that changes the file system (remove_dir, remove_dir_all, rename, write, set_permissions, ..): an effect the property forbids
#[verifier::external_body] pub fn fs_other_effect(fs: &mut Fs) -> (r: Result<(), VErr>) ensures final(fs).removed@ == old(fs).removed@, final(fs).reported@ == old(fs).reported@, final(fs).cleaned@ == old(fs).cleaned@, final(fs).outside_clean@ == old(fs).outside_clean@ { unimplemented!() }
pub fn report_removed(fs: &mut Fs, n: i32) ensures final(fs).removed@ == old(fs).removed@, final(fs).reported@ == Some(n as int), final(fs).other_effects@ == old(fs).other_effects@, final(fs).cleaned@ == old(fs).cleaned@, final(fs).outside_clean@ == old(fs).outside_clean@ { fs.reported = Ghost(Some(n as int)); }

// ---- the property, from its statement ----
pub open spec fn mmm() -> Seq<u8> { seq![109u8, 109u8, 109u8] }
// "the files directly inside DIR whose extension is `mmm`" -- and "never ... any directory"
pub open spec fn selected(e: Result<DirEntry, VErr>) -> bool { e is Ok && !e_is_dir(&e->Ok_0) && ext_spec(e_name(&e->Ok_0)) == Some(mmm()) }
pub open spec fn sel_paths(s: Seq<Result<DirEntry, VErr>>) -> Seq<EntryPath> decreases s.len() {
    if s.len() == 0 { Seq::empty() }
    else if selected(s.last()) { sel_paths(s.drop_last()).push(EntryPath { dir: e_dir(&s.last()->Ok_0), name: e_name(&s.last()->Ok_0) }) }
    else { sel_paths(s.drop_last()) }
}
// after the first n entries: exactly their selected ones are gone (each by its own path DIR/NAME), nothing else was touched
pub open spec fn clean_state(fs0: Fs, fs1: Fs, l: Seq<Result<DirEntry, VErr>>, n: int) -> bool {
    0 <= n <= l.len() && fs1.removed@ == fs0.removed@ + sel_paths(l.subrange(0, n)) && fs1.other_effects@ == fs0.other_effects@
}
pub open spec fn clean_post(fs0: Fs, fs1: Fs, l: Seq<Result<DirEntry, VErr>>, ok: bool) -> bool {
    (exists|n: int| #[trigger] clean_state(fs0, fs1, l, n))                                           // also when it stops with an error
    && (ok ==> clean_state(fs0, fs1, l, l.len() as int) && fs1.reported@ == Some(sel_paths(l).len() as int))   // success: all of them, and the count reported
}
pub proof fn lemma_sel_step(l: Seq<Result<DirEntry, VErr>>, k: int) requires 0 <= k < l.len()
    ensures l.subrange(0, k + 1).drop_last() == l.subrange(0, k), l.subrange(0, k + 1).last() == l[k]
{ assert(l.subrange(0, k + 1).drop_last() =~= l.subrange(0, k)); }
pub proof fn lemma_sel_len(s: Seq<Result<DirEntry, VErr>>) ensures sel_paths(s).len() <= s.len() decreases s.len()
{ if s.len() > 0 { lemma_sel_len(s.drop_last()); } }
"""

ARM_SPEC = r"""
// the callee of the Clean arm: its contract is obligation C20.clean (above); here only WHICH directory it is asked to clean is logged
#[verifier::external_body] pub fn clean_command_callee(path: &VString, fs: &mut Fs) -> (r: Result<(), VErr>)
    ensures final(fs).cleaned@ == old(fs).cleaned@.push(text_of(path)), final(fs).outside_clean@ == old(fs).outside_clean@ { unimplemented!() }
// a file-system effect performed by main itself, outside clean_command
#[verifier::external_body] pub fn fs_effect_in_main(fs: &mut Fs) -> (r: Result<(), VErr>) ensures final(fs).cleaned@ == old(fs).cleaned@ { unimplemented!() }
"""

FS_EFFECTS = ("remove_dir_all", "remove_dir", "rename", "write", "set_permissions", "copy", "create_dir", "create_dir_all", "hard_link")


def _byte_lit(lit):
    s = lit[1:-1]
    if "\\" in s:
        raise Undecided(f"string literal {lit} with an escape in clean_command: not translated")
    return list(s.encode())


def build_v(repo):
    import re as _re
    src = Source(repo)
    log = []
    f = src.fn(MAIN, "clean_command")
    params = text(f.get("params", [])) if isinstance(f, dict) and "params" in f else ""
    body = list(f["body"])
    lits = {}

    def lit_fn(lit):
        bs = _byte_lit(lit)
        name = f"verif_lit_{len(lits)}"
        lits.setdefault(lit, (name, bs))
        return lits[lit][0]

    # ---- output: progress lines are dropped, the count line is the report the statement talks about
    out, i, counter, nrep = [], 0, None, 0
    while i < len(body):
        if body[i] == "println" and i + 2 < len(body) and body[i + 1] == "!" and body[i + 2] == "(":
            c = match_close(body, i + 2)
            args = body[i + 3:c]
            end = c + 1 + (1 if c + 1 < len(body) and body[c + 1] == ";" else 0)
            fmt = args[0] if args else ""
            rest = " ".join(args[1:])
            if any(w in rest for w in ("remove", "fs ::", "write", "rename")):
                raise Undecided("clean_command: a println! argument has file-system calls: not dropped")
            m = _re.fullmatch(r'"Removed \{(\w*)\} files?"', fmt)
            if m:
                name = m.group(1) or (args[2] if len(args) == 3 and args[1] == "," else None)
                if not name or not _re.fullmatch(r"\w+", name):
                    raise Undecided("clean_command: the count line prints something that is not a variable")
                counter = name; nrep += 1
                new = ["report_removed", "(", "fs", ",", name, ")", ";"]
                log.append(("R3", text(body[i:end])[:160], text(new), "the count line is the report (\"reports how many it removed\"): kept as an effect"))
                out.extend(new)
            elif "Removed" in fmt or "removed" in fmt.lower():
                raise Undecided(f"clean_command: count line {fmt} not in a form the translation reads")
            else:
                log.append(("R3", text(body[i:end])[:160], "", "progress output dropped"))
            i = end
            continue
        out.append(body[i]); i += 1
    body = out
    if nrep != 1 or counter is None:
        raise Undecided("clean_command: exactly one `Removed {n} files` line expected")
    rules = [
        Rule("R9", "let path = Path :: new ( path ) ;", "let path = path_new ( path ) ;", why="Path::new on the &str argument: the path as given"),
        Rule("R9", "Path :: new ( & $$e )", "os_path_new ( & $$e )", why="Path::new on an entry's file name: one path component"),
        Rule("R9", "std :: fs :: read_dir ( $$a )", "read_dir ( $$a )", why="std::fs::read_dir: the entries directly inside the directory, in order (assumed std contract); ReadDir -> Vec"),
        Rule("R9", "std :: fs :: remove_file ( & $$a )", "remove_file ( fs , ( $$a ) . clone ( ) )", why="std::fs::remove_file: removes exactly that path (assumed std contract); explicit file-system state"),
        Rule("R9", "std :: fs :: remove_file ( $$a )", "remove_file ( fs , $$a )", why="std::fs::remove_file: removes exactly that path (assumed std contract); explicit file-system state"),
    ]
    for eff in FS_EFFECTS:
        rules.append(Rule("R9", f"std :: fs :: {eff} ( $$a )", "fs_other_effect ( fs )", why=f"std::fs::{eff}: a file-system effect other than removing a file"))
    rules += [
        Rule("R9", "$v . eq_ignore_ascii_case ( $l )", lambda b: f'os_eq_ignore_ascii_case ( {text(b["v"])} , & {lit_fn(text(b["l"]))} ( ) )' if text(b["l"]).startswith('"') else None, why="OsStr::eq_ignore_ascii_case (std contract)"),
    ]
    body = translate(body, rules, log, "clean_command")
    # `x == "lit"` / `x != "lit"` on an OsStr (after the Option idioms made `ext` a bound name)
    body = Rule("R9", "$v == $l", lambda b: f'os_eq ( {text(b["v"])} , & {lit_fn(text(b["l"]))} ( ) )' if text(b["l"]).startswith('"') and len(b["l"]) == 1 else None, why="OsStr == str: byte-wise (std contract)").apply(body, log)
    body = Rule("R9", "$v != $l", lambda b: f'! os_eq ( {text(b["v"])} , & {lit_fn(text(b["l"]))} ( ) )' if text(b["l"]).startswith('"') and len(b["l"]) == 1 else None, why="OsStr != str: byte-wise (std contract)").apply(body, log)
    # ---- the loop
    n = [0]

    def loop(b):
        n[0] += 1
        v, x = text(b["v"]), text(b["x"])
        k = "verif_k"
        inv = (f"invariant {k} <= {v}.len(), {v}@ == verif_l, verif_l.len() < 0x7fff_ffff, clean_state(verif_fs0, *fs, verif_l, {k} as int), "
               f"{counter} == sel_paths(verif_l.subrange(0, {k} as int)).len(), fs.reported@ == verif_fs0.reported@, fs.cleaned@ == verif_fs0.cleaned@ decreases {v}.len() - {k}")
        pre = f"proof {{ lemma_sel_step(verif_l, {k} as int - 1); lemma_sel_len(verif_l.subrange(0, {k} as int - 1)); assert(clean_state(verif_fs0, *fs, verif_l, {k} as int - 1)); }}"
        post = (f"proof {{ assert(fs.removed@ =~= verif_fs0.removed@ + sel_paths(verif_l.subrange(0, {k} as int))); assert(clean_state(verif_fs0, *fs, verif_l, {k} as int)); }}")
        if "continue" in b["body"]:
            raise Undecided("clean_command: `continue` in the loop body: the spliced end-of-iteration proof would be skipped")
        return [f"let mut {k} : usize = 0 ; while {k} < {v} . len ( )", G(inv), "{", f"let {x} = take_item ( & {v} , {k} ) ; {k} += 1 ;", G(pre), *b["body"], G(post), "}"]

    body = Rule("R2", "for $x in $v { $$body }", loop, why="for over ReadDir -> indexed while over the listing (iteration order of the iterator)").apply(body, log)
    if n[0] != 1:
        raise Undecided(f"clean_command: exactly one loop over the listing expected, found {n[0]}")
    if body[-5:] != ["Ok", "(", "(", ")", ")"]:
        raise Undecided("clean_command: final `Ok(())` not found")
    body = body[:-5] + [G("proof { assert(verif_l.subrange(0, verif_l.len() as int) =~= verif_l); }")] + body[-5:]
    check_closed(body, "clean_command")
    top = G("let ghost verif_fs0 = *fs; let ghost verif_l = listing(text_of(path));\n"
            "    proof { assert(verif_l.subrange(0, 0) =~= Seq::empty()); assert(fs.removed@ + sel_paths(verif_l.subrange(0, 0)) =~= fs.removed@); assert(clean_state(verif_fs0, *fs, verif_l, 0)); }")
    # ---- the Clean arm of main: the directory cleaned is the one the user named
    try:
        fm = src.fn(MAIN, "main")
        arm = extract_match_arm(fm["body"], "Commands :: Clean { path }")
    except Exception as e:
        raise Undecided(f"main: arm `Commands::Clean {{ path }}` not found: {e}")
    arm_rules = [Rule("R6", "clean_command ( $$a )", "clean_command_callee ( $$a , fs )", why="the callee under its own contract (C20.clean); which directory it is given is logged")]
    for eff in FS_EFFECTS + ("remove_file",):
        arm_rules.append(Rule("R9", f"std :: fs :: {eff} ( $$a )", "fs_effect_in_main ( fs )", why=f"std::fs::{eff} in main: a file-system effect outside clean_command"))
    ab = translate(list(arm["body"]), arm_rules, log, "main: Clean arm")
    check_closed(ab, "main: Clean arm")
    if ab and ab[0] == "{" and match_close(ab, 0) == len(ab) - 1:
        ab = ab[1:-1]
    # clap: the argument must reach the arm as typed
    cli_t = " ".join(src.toks("src/cli.rs"))
    m = _re.search(r"Clean \{ (.*?) path : (\w+) ,? \}", cli_t)
    if not m or m.group(2) != "String":
        raise Undecided("cli.rs: the `path` argument of `clean` is no longer a plain String")
    cli_ok = "value_parser" not in m.group(1) and "value_delimiter" not in m.group(1)
    litfns = "\n".join(f"pub fn {nm}() -> (r: Vec<u8>) ensures r@ == seq![{', '.join(str(x) + 'u8' for x in bs)}] {{ let mut v = Vec::new(); " + " ".join(f"v.push({x}u8);" for x in bs) + " v }" for nm, bs in lits.values())
    gen = header(log, f"{MAIN}: clean_command; the `Commands::Clean` arm of main") + SPEC_V + litfns + f"""
//@ OBL C20.clean
#[verifier::loop_isolation(false)]
pub fn clean_command(path: &VString, fs: &mut Fs) -> (r: Result<(), VErr>)
    requires listing(text_of(path)).len() < 0x7fff_ffff,
    ensures clean_post(*old(fs), *final(fs), listing(text_of(path)), r is Ok), final(fs).cleaned@ == old(fs).cleaned@,
{{
    {top[1:]}
{render(body, 1)}
}}
{ARM_SPEC}
//@ OBL C20.main.dir
pub fn main_clean_arm(path: VString, fs: &mut Fs) -> (r: Result<(), VErr>)
    ensures r is Ok ==> final(fs).cleaned@ == old(fs).cleaned@.push(text_of(&path)),      // exactly one directory: the one named
            final(fs).outside_clean@ == old(fs).outside_clean@,   // and no file-system effect outside clean_command
{{
{render(ab, 1)}
    Ok(())
}}
//@ OBL C20.cli.as-typed
proof fn cli_path_as_typed() {{ assert({'true' if cli_ok else 'false'}); }}   // clap hands `path` over as typed: no value_parser / value_delimiter on the argument (read from src/cli.rs)
}} // verus!
fn main() {{}}
"""
    obls = [Obl("C20.clean", ["C20"], fn="clean_command", desc="clean_command, every listing and every name: on success exactly the non-directory entries directly inside DIR whose extension is `mmm` were removed, each by its own path DIR/NAME, in listing order, and their number reported; when it stops with an error, a prefix of them; no other file-system effect"),
            Obl("C20.main.dir", ["C20"], fn="main_clean_arm", desc="the Clean arm of main cleans exactly one directory: the path the user named, unchanged"),
            Obl("C20.cli.as-typed", ["C20"], fn="cli_path_as_typed", desc="src/cli.rs: the path argument of `clean` is a plain String without a value parser")]
    return gen, obls, log


UNITS.append(VUnit("c20_clean_v", ["C20"], "clean_command under contract for every listing and name (std::fs / std::path contracts assumed)", build_v))
UNITS[-1].assumes = [
    "std::fs::read_dir yields the entries directly inside DIR (not recursive); DirEntry::file_type does not follow symlinks; DirEntry::path is DIR/NAME; std::fs::remove_file removes exactly the path given and nothing on failure (documentation of std)",
    "Path::extension on one path component = what follows the last dot, none when there is no dot, the only dot is the first byte, or the name is `..` (documentation of std; cross-checked against the real std for bounded names by the Kani harness of unit c20_clean)",
    "fewer than 2^31 entries in DIR (the counter is an i32)",
    "progress output (println!) dropped; the `Removed {n} files` line is modelled as the report",
    "concurrent modification of DIR during the run, permissions and I/O races are outside the contract",
]

"""C20: `mscript clean DIR` -- the selection predicate of clean_command, extracted on every run, against its spec (K-t, bounded),
plus a syntactic scan of the loop frame (reported as an unchecked assumption, never as proof)."""
import os, re
from pathlib import Path
from vlib.rules import *
from vlib.pattern import Pat
from vlib import kani as K
from vlib.core import UnitResult

MAIN = "src/main.rs"

HARNESS = r"""
#![allow(warnings)]
use std::ffi::OsStr;
use std::path::Path;
// ======== real text: condition of the `if` that guards remove_file in clean_command (`path.file_name()` -> parameter) ========
pub fn pred(verif_entry_name: &OsStr, verif_is_dir: bool) -> bool {
    PRED
}

#[cfg(kani)]
mod verif {
    use super::*;
    use std::os::unix::ffi::OsStrExt;
    fn ok_byte(c: u8) -> bool { ALPHABET }
    #[kani::proof]
    #[kani::unwind(UNWIND)]
    fn c20_filter() {
        const N: usize = NBYTES;
        let len: usize = kani::any();
        kani::assume(len >= 1 && len <= N);
        let mut buf = [0u8; N];
        let mut i = 0;
        while i < N { let c: u8 = kani::any(); kani::assume(ok_byte(c)); buf[i] = c; i += 1; }
        let bytes = &buf[..len];
        let name = OsStr::from_bytes(bytes);
        // spec (statement: "files whose extension is `mmm`"): a last '.' that is not the first byte, and exactly "mmm" after it
        let mut last_dot: Option<usize> = None;
        let mut j = 0;
        while j < len { if bytes[j] == b'.' { last_dot = Some(j); } j += 1; }
        let expect = match last_dot {
            Some(d) if d > 0 => len - d - 1 == 3 && bytes[d + 1] == b'm' && bytes[d + 2] == b'm' && bytes[d + 3] == b'm',
            _ => false,
        };
        // "never deletes ... any directory": a directory is never selected, whatever it is called (remove_file on it fails and aborts the clean)
        let is_dir: bool = kani::any();
        assert!(pred(name, is_dir) == (expect && !is_dir), "C20.filter: an entry is selected for deletion iff it is not a directory and its extension is exactly `mmm`");
    }
}
"""


class CleanUnit:
    engine = "kani"
    uid = "c20_clean"
    props = ["C20"]
    title = "clean: selection predicate (bounded K-t) + loop-frame scan"
    timeout = 1500
    assumes = [
        "BOUNDED: file names of 1..N bytes over a fixed alphabet (N and alphabet in the obligation id); not a proof for all names",
        "scan (unchecked, syntactic): remove_file is called exactly once, on the current directory entry, inside the `then` branch of the extracted condition; the loop iterates std::fs::read_dir(DIR) (not recursive); no remove_dir*/rename/write in clean_command",
        "file-system effects (symlinks, a directory named *.mmm aborting the loop, permissions) are outside the contract",
    ]

    def run(self, repo, workdir, tier):
        res = UnitResult(self.uid)
        res.engine = "kani 0.68 / cbmc 6.11 (K-t, bounded)"
        src = Source(repo)
        f = src.fn(MAIN, "clean_command")
        body = f["body"]
        # locate `for path in paths { ... }` and the first `if COND { THEN }` inside it
        p_for = Pat("for $v in $$it { $$body }")
        loop = None
        for i in range(len(body)):
            r = p_for.match_at(body, i)
            if r:
                loop = r[1]; break
        if not loop:
            raise Undecided("clean_command: `for .. in ..` loop not found")
        lb = loop["body"]
        var = text(loop["v"])
        p_if = Pat("if $$cond { $$then }")
        cond = then = None
        prefix = []
        for i in range(len(lb)):
            r = p_if.match_at(lb, i)
            if r and (i == 0 or lb[i - 1] in (";", "}")):
                cond, then = r[1]["cond"], r[1]["then"]; prefix = lb[:i]; break
        if cond is None:
            raise Undecided("clean_command: guarding `if` not found in the loop")
        # ---- scan of the frame (assumption, reported as such)
        all_t = " ".join(body)
        scan_ok = (all_t.count("remove_file") == 1 and " ".join(then).count("remove_file") == 1
                   and "remove_dir" not in all_t and "rename" not in all_t and "read_dir" in all_t
                   and re.search(r"remove_file \( %s \. path \( \) \)" % re.escape(var), " ".join(then)) is not None)
        # ---- the caller: `Commands::Clean { path } => clean_command(&path)` in main -- DIR is the directory the user named, nothing derived from it
        from vlib.extract import extract_match_arm
        try:
            fm = src.fn(MAIN, "main")
            arm = extract_match_arm(fm["body"], "Commands :: Clean { path }")
            arm_t = " ".join(arm["body"])
        except Exception as e:
            raise Undecided(f"main: arm `Commands::Clean {{ path }}` not found: {e}")
        calls = re.findall(r"(\w+) \(", arm_t)
        if "clean_command ( & path )" not in arm_t or any(c not in ("clean_command", "Ok", "Some") for c in calls):
            raise Undecided("main: the Clean arm no longer hands the user's path straight to clean_command (`clean_command(&path)`): what directory is cleaned is outside the extracted predicate")
        # ---- the argument itself: clap must hand `path` over as the text the user typed (a value_parser could rewrite it)
        cli_t = " ".join(src.toks("src/cli.rs"))
        m = re.search(r"Clean \{ (.*?) path : (\w+) ,? \}", cli_t)
        if not m or m.group(2) != "String" or "value_parser" in m.group(1) or "value_delimiter" in m.group(1):
            raise Undecided("cli.rs: the `path` argument of `clean` is no longer a plain String taken as typed (a value parser may rewrite it): what directory is cleaned is outside the extracted predicate")
        # ---- predicate: statements of the loop body in front of the `if` + its condition; `VAR.file_name()` -> the parameter
        log = []
        prefix = Rule("Kt", f"let {var} = {var} ? ;", "", why="unwrapping of the directory entry dropped (the predicate takes its name)").apply(list(prefix), log)
        pre2 = Rule("Kt", f"{var} . file_name ( )", "verif_entry_name", why="directory entry's file name -> parameter").apply(prefix, log)
        cond2 = Rule("Kt", f"{var} . file_name ( )", "verif_entry_name", why="directory entry's file name -> parameter").apply(list(cond), log)
        for form in (f"{var} . file_type ( ) ? . is_dir ( )", f"{var} . path ( ) . is_dir ( )", f"{var} . metadata ( ) ? . is_dir ( )"):
            pre2 = Rule("Kt", form, "verif_is_dir", why="whether the directory entry is a directory -> parameter").apply(pre2, log)
            cond2 = Rule("Kt", form, "verif_is_dir", why="whether the directory entry is a directory -> parameter").apply(cond2, log)
        if var in cond2 or var in pre2 or "remove_file" in " ".join(pre2):
            raise Undecided("clean_command: the selection uses the directory entry beyond file_name(); predicate not extractable")
        if "verif_entry_name" not in pre2 + cond2:
            raise Undecided("clean_command: the selection does not look at the entry's file name; predicate not extractable")
        cond2 = pre2 + cond2
        thorough = tier == "thorough"
        nbytes = int(os.environ.get("VERIF_C20_NBYTES", "0")) or (6 if thorough else 5)
        alphabet = "c == b'a' || c == b'm' || c == b'M' || c == b'.' || c == b'~'" + (" || c == b' ' || c == 0xC3 || c == 0xA9" if thorough else "")
        lib = HARNESS.replace("PRED", render(cond2, 1)).replace("NBYTES", str(nbytes)).replace("UNWIND", str(nbytes + 3)).replace("ALPHABET", alphabet)
        crate = K.write_crate(Path(workdir) / "kt_clean", "kt_clean", "// GENERATED (K-t) from src/main.rs clean_command\n" + lib)
        res.gen_path = str(crate / "src/lib.rs")
        per, raw, wall, cmd, timed_out = K.run_kani(crate, jobs=2, timeout=self.timeout)
        res.raw = raw[-8000:]; res.checker_cmd = cmd
        res.functions = ["src/main.rs: clean_command (selection condition extracted as `pred`)"]
        res.samples = [f"pred(name) = {text(cond2)}"]
        bound = f"names of 1..{nbytes} bytes over {{a,m,M,.,~{', space, U+00E9 bytes' if thorough else ''}}}"
        o = Obl(f"C20.filter[{bound}]", ["C20"], fn="c20_filter", engine="kani/cbmc", bounded=bound,
                desc="the extracted selection condition holds exactly for entries that are not directories and whose name has the extension `mmm` (last dot not first byte, exactly mmm after it)")
        r = per.get("c20_filter")
        if r is None or r["status"] is None or r["oom"] or timed_out:
            o.status = "undecided"; o.detail = "no verdict from kani: " + raw[-1500:]
        else:
            named, panics, ign, other = K.classify(r["failed"])
            o.time_s = r["time"]
            if r["unwind"] or r["unsupported"] or other:
                o.status = "undecided"; o.detail = "unwinding/unsupported/unclassified: " + repr(r["failed"][:3])
            elif named or panics:
                o.status = "failed"; o.detail = "\n".join(f"{d} @ {l}" for d, l in named + panics)
            else:
                o.status = "discharged"
        s = Obl("C20.frame.scan", ["C20"], fn=None, engine="scan", bounded="syntactic scan (assumption, not proof)",
                desc="remove_file is called once, on the current entry, only under the extracted condition; loop over read_dir(DIR); no directory removal")
        s.status = "discharged" if scan_ok else "failed"
        if not scan_ok:
            s.detail = "loop frame of clean_command changed: remove_file/remove_dir/rename usage no longer matches the scanned shape"
        res.obls = [o, s]
        return res

    def witness(self, repo, o, res):
        if o.fn != "c20_filter":
            return None
        import subprocess
        try:
            crate = Path(res.gen_path).parent.parent
            env = dict(os.environ, CARGO_NET_OFFLINE="true"); env.pop("RUSTUP_TOOLCHAIN", None)
            p = subprocess.run(["cargo", "kani", "--harness", "c20_filter", "-Z", "concrete-playback", "--concrete-playback=print"], cwd=crate, capture_output=True, text=True, timeout=900, env=env)
            m = re.search(r"```\n(.*?)```", p.stdout, re.S)
            if m:
                return {"found": True, "kani_concrete_playback_test": m.group(1), "note": "first vector = len, following = name bytes; create that file in a directory and run `mscript clean DIR`"}
        except Exception as e:
            return {"found": False, "error": str(e)}
        return None


UNITS = [CleanUnit()]

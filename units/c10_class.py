"""C10: a class name is a constant from the moment it is visible anywhere -- Parser::class (class.rs): every registration of the class's
identifier (inside the class's own scope, where its methods see it; in the enclosing scope) registers a read-only identifier, and the
declaration returns one.  The registrations are abstract callees that REQUIRE the const flag: a registration made before the flag is set
fails its precondition."""
from vlib.rules import *

FILE = "compiler/src/ast/class.rs"

SPEC = r"""
pub struct Ident { pub name: VStr, pub ty: Option<TypeLayout>, pub read_only: bool }
impl Ident {
    pub fn mark_const(&mut self) ensures final(self).read_only, final(self).name == old(self).name, final(self).ty == old(self).ty { self.read_only = true; }     // obligation C10.ident.mark_const
    #[verifier::external_body] pub fn name(&self) -> (r: &VStr) ensures *r == self.name { unimplemented!() }
}
#[verifier::external_body] pub fn parse_ident(n: Node) -> (r: Result<Ident, VErr>) ensures r is Ok ==> str_view(&r->Ok_0.name) == node_text(&n) && r->Ok_0.ty is None && !r->Ok_0.read_only { unimplemented!() }
#[verifier::external_body] pub struct ClassFlags { x: usize }
#[verifier::external_body] pub fn parse_class_flags(n: Node) -> (r: Result<ClassFlags, VErr>) { unimplemented!() }
#[verifier::external_body] pub fn class_flags_default() -> (r: ClassFlags) { unimplemented!() }
#[verifier::external_body] pub fn get_ident_from_name_local(n: &Node, name: &VStr) -> (r: Option<Ident>) { unimplemented!() }
#[verifier::external_body] pub struct Fields { x: usize }
#[verifier::external_body] pub struct ClassTypeV { x: usize }
#[verifier::external_body] pub struct ClassBodyV { x: usize }
#[verifier::external_body] pub fn get_members(body: &Node) -> (r: Result<Fields, VErr>) { unimplemented!() }
#[verifier::external_body] pub fn class_type_new(i: &Ident, f: Fields, n: &Node) -> (r: ClassTypeV) { unimplemented!() }
#[verifier::external_body] pub fn set_self_type(n: &Node, c: ClassTypeV) -> (r: ClassTypeV) { unimplemented!() }
#[verifier::external_body] pub fn parse_class_body(body: Node) -> (r: Result<ClassBodyV, VErr>) { unimplemented!() }
#[verifier::external_body] pub fn add_type(n: &Node, i: &Ident, c: &ClassTypeV) { unimplemented!() }
// the two registrations that make the name visible: inside the class's own scope (methods see it) and in the enclosing scope
#[verifier::external_body] pub fn link_class_ident(i: &mut Ident, n: &Node, c: &ClassTypeV) -> (r: Result<(), VErr>)
    requires old(i).read_only       // C10: what becomes visible is a constant
    ensures final(i).name == old(i).name, final(i).read_only == old(i).read_only, final(i).ty is Some { unimplemented!() }
#[verifier::external_body] pub fn add_dependency(n: &Node, i: &Ident)
    requires i.read_only            // C10: what becomes visible is a constant
{ unimplemented!() }
pub struct Class { pub ident: Ident, pub body: ClassBodyV, pub flags: ClassFlags, pub class_type: ClassTypeV }
"""


def build(repo):
    src = Source(repo)
    log = []
    f = src.fn(FILE, "class")
    b = translate(f["body"], parser_idioms() + [
        Rule("R6", "input . children ( )", "children ( & input )", why="pest API abstract"),
        Rule("R8", "children . next ( ) . unwrap ( )", "unwrap_node ( children . next ( ) )", why="unwrap on a child: grammar child count (R8)"),
        Rule("R6", "Self :: class_flags ( $n ) . to_err_vec ( ) ?", "parse_class_flags ( $n ) ?", why="sub-parser abstract"),
        Rule("R1", "ClassFlags :: default ( )", "class_flags_default ( )", why="default flags"),
        Rule("R1", "let ident_span = ident_node . as_span ( ) ;", "", why="span only feeds a diagnostic"),
        Rule("R6", "Self :: ident ( ident_node ) . to_err_vec ( ) ?", "parse_ident ( ident_node ) ?", why="sub-parser abstract"),
        Rule("R6", "input . user_data ( ) . get_ident_from_name_local ( ident . name ( ) )", "get_ident_from_name_local ( & input , ident . name ( ) )", why="scope lookup abstract"),
        Rule("R3", "return Err ( vec ! [ new_err ( $$a ) ] ) ;", "return Err ( VErr ) ;", why="diagnostic construction dropped (that a diagnostic IS returned is kept)"),
        Rule("R10", "let _class_scope = input . user_data ( ) . push_class_unknown_self ( ) ;", "", why="scope handle: the class scope is open until the end of the block (scope stack not modelled here)"),
        Rule("R6", "ClassBody :: get_members ( & body_node ) . to_err_vec ( ) ?", "get_members ( & body_node ) ?", why="sub-parser abstract"),
        Rule("R6", "ClassType :: new_callable ( $$a )", "class_type_new ( & ident , fields , & input )", why="class type constructor abstract"),
        Rule("R6", "input . user_data ( ) . set_self_type_of_class ( class_type )", "set_self_type ( & input , class_type )", why="abstract"),
        Rule("R6", "ident . link_force_no_inherit ( input . user_data ( ) , $$t ) . to_err_vec ( ) ?", "link_class_ident ( & mut ident , & input , & class_type ) ?", why="registration of the name inside the class's own scope: abstract callee that requires a constant"),
        Rule("R6", "Self :: class_body ( body_node ) ?", "parse_class_body ( body_node ) ?", why="sub-parser abstract"),
        Rule("R6", "input . user_data ( ) . add_type ( $$a ) ;", "add_type ( & input , & ident , & class_type ) ;", why="type registry abstract"),
        Rule("R6", "input . user_data ( ) . add_dependency ( & ident ) ;", "add_dependency ( & input , & ident ) ;", why="registration of the name in the enclosing scope: abstract callee that requires a constant"),
        Rule("R1", "path_str : input . user_data ( ) . bytecode_path ( ) ,", "", why="path field: not part of the model"),
    ], log, "Parser::class")
    check_closed(b, "Parser::class")
    gen = header(log, f"{FILE}: Parser::class") + prelude("parser.rs") + SPEC + f"""
//@ OBL C10.class.name-const
pub fn class(input: Node) -> (r: Result<Class, VErr>)
    requires node_children(&input).len() >= 3          // grammar: class = {{ class_flags? ~ ident ~ class_body }} -- the longer form has 3 children
    ensures r is Ok ==> r->Ok_0.ident.read_only,
{{
{render(b, 1)}
}}

// ---- the property's side of class identity (known finding D114): methods are registered under `FILE#Class::method`, one table per file.  Two classes of the same
// name in one file -- legal when they sit in different function bodies, where neither name is in the other's scope -- therefore share their methods, the later
// definition winning.  A declaration would have to be refused when the FILE (not only the scope) already declares a class of that name; nothing asks the file.
pub uninterp spec fn file_declares_other_class(n: &Node, name: &VStr) -> bool;
//@ OBL C08.class.name-unique-in-file
pub fn class_kf(input: Node) -> (r: Result<Class, VErr>)
    requires node_children(&input).len() >= 3
    ensures r is Ok ==> !file_declares_other_class(&input, &r->Ok_0.ident.name),
{{
{render(b, 1)}
}}
}} // verus!
fn main() {{}}
"""
    return gen, [Obl("C08.class.name-unique-in-file", ["C08", "C02"], fn="Parser::class", desc="KF twin (D114): a class is accepted only if its file declares no other class of that name (methods are registered per file under Class::method)"),
                 Obl("C10.class.name-const", ["C10"], fn="Parser::class", desc="Parser::class: the class's identifier is read-only at every registration (own scope, enclosing scope) and in the returned declaration")], log


UNITS = [VUnit("c10_class", ["C10", "C08", "C02"], "a class name is const wherever it is visible", build)]
UNITS[0].assumes = ["pest API, sub-parsers, type registry abstract; the two registrations are abstract callees whose PRECONDITION is the const flag", "child count from the grammar: with only two children (no flags) the third `next().unwrap()` would not be reached -- the precondition is the longer form's count"]

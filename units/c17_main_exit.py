"""C17 / C01: the exit status.  `main` runs the interpreter on a thread of its own; what it does with the thread's result decides the
process exit status: a program that failed at run time (Program::execute returned Err) must make `main` return that error (exit status
non-zero), a program that ran to its end must make it return Ok.  Fragments under contract: the tail of the `Run` arm (from
`if let Err(e) = finished`) and the tail of the `Execute` arm (everything after the thread is spawned)."""
from vlib.rules import *
from vlib.pattern import Pat

MAIN = "src/main.rs"

SPEC = r"""
use vstd::prelude::*;
verus! {
// errors have identity: the failure reported is the failure that happened
pub struct VErr { pub id: int }
#[verifier::external_body] pub fn verr_new() -> (r: VErr) { unimplemented!() }
#[verifier::external_body] pub struct VString { x: usize }
pub uninterp spec fn text_of(s: &VString) -> Seq<char>;
pub uninterp spec fn err_text(e: VErr) -> Seq<char>;
impl VErr {
    #[verifier::external_body] pub fn to_string(&self) -> (r: VString) ensures text_of(&r) == err_text(*self) { unimplemented!() }
    #[verifier::external_body] pub fn context(self, m: &str) -> (r: VErr) ensures r == self { unimplemented!() }      // added context keeps the error
}
#[verifier::external_body] pub fn text_is(s: &VString, lit: &str) -> (r: bool) ensures r == (text_of(s) == lit@) { unimplemented!() }
#[verifier::external_body] pub struct PanicPayload { x: usize }
#[verifier::external_body] pub struct Instant { x: usize }
// a panic of the runtime thread re-raised in main: main does not return (the process dies with a panic status, non-zero)
#[verifier::external_body] pub fn resume_unwind(p: PanicPayload) ensures false { unimplemented!() }
#[verifier::external_body] pub fn downcast_payload(p: PanicPayload) -> (r: Result<VErr, PanicPayload>) { unimplemented!() }
// ---- `run`: the thread yields Ok((result of Program::execute, start time)) or the compile error
pub type RunJob = Result<(Result<(), VErr>, Option<Instant>), VErr>;
#[verifier::external_body] pub fn unwrap_join(f: Result<RunJob, PanicPayload>) -> (r: RunJob) requires f is Ok ensures r == f->Ok_0 { unimplemented!() }
// ---- `execute`: the thread yields the result of Program::execute (or of loading the file)
#[verifier::external_body] pub struct JoinHandleV { x: usize }
pub uninterp spec fn thread_result(h: &JoinHandleV) -> Result<Result<(), VErr>, PanicPayload>;
impl JoinHandleV {
    #[verifier::external_body] pub fn join(self) -> (r: Result<Result<(), VErr>, PanicPayload>) ensures r == thread_result(&self) { unimplemented!() }
}
// `.join().unwrap()`: a panic of the thread panics main as well (never returns: non-zero status)
#[verifier::external_body] pub fn join_or_die(h: JoinHandleV) -> (r: Result<(), VErr>) ensures thread_result(&h) is Ok && r == thread_result(&h)->Ok_0 { unimplemented!() }
"""


def _after(body, pat, what):
    p = Pat(pat)
    for i in range(len(body)):
        r = p.match_at(body, i)
        if r:
            return i, r[0]
    raise Undecided(f"main: {what} not found (`{pat}`)")


def build(repo):
    src = Source(repo)
    log = []
    fm = src.fn(MAIN, "main")
    try:
        run = extract_match_arm(fm["body"], "Commands :: Run $f")["body"]
        exe = extract_match_arm(fm["body"], "Commands :: Execute $f")["body"]
    except Exception as e:
        raise Undecided(f"main: Run / Execute arm not found: {e}")
    # Run: tail from `if let Err(e) = finished`
    s, _ = _after(run, "if let Err ( $e ) = finished", "the test of the joined thread result in the Run arm")
    run_tail = run[s:]
    j0, j1 = _after(run, "let finished = main_thread . join ( ) ;", "`let finished = main_thread.join();` in the Run arm")
    mid = run[j1:s]
    # between the join and the tail only the profile report may stand (it only prints)
    if mid:
        pm = Pat("if profile { $$b }").match_at(mid, 0)
        if not pm or pm[0] != len(mid):
            raise Undecided("main, Run arm: statements other than the `if profile { .. }` report between the join and the result test")
        if any(t in mid for t in ("return", "bail", "?", "exit", "finished =")) or "finished . unwrap" in " ".join(mid):
            raise Undecided("main, Run arm: the profile report does more than print")
        log.append(("R3", "if profile { .. }", "", "the profile report between the join and the result test only prints (borrows `finished`): dropped"))
    # Execute: everything after the spawn statement
    _, e1 = _after(exe, "let main_thread = builder . spawn ( $$c ) ? ;", "`let main_thread = builder.spawn(..)?;` in the Execute arm")
    exe_tail = exe[e1:]
    rules = [
        Rule("R3", "trait $n : $$b { }", "", why="local marker trait (types only)"),
        Rule("R3", "log :: debug ! $a ;", "", why="logging dropped"),
        Rule("R9", "$e . downcast :: < $$t ( )", "downcast_payload ( $e )", why="Box<dyn Any>::downcast: abstract"),
        Rule("R3", "bail ! ( $x )", "return Err ( $x )", why="bail!(err) -> return Err(err)"),
        Rule("R3", "bail ! $a", "return Err ( verr_new ( ) )", why="bail!(text) -> a NEW error"),
        Rule("R9", "std :: panic :: resume_unwind ( $$e )", "resume_unwind ( $$e )", why="re-raises the thread's panic: does not return"),
        Rule("R8", "finished . unwrap ( )", "unwrap_join ( finished )", why="Result::unwrap with its panic precondition (is Ok)"),
        Rule("R8", "main_thread . join ( ) . unwrap ( )", "join_or_die ( main_thread )", why="join().unwrap(): a panic of the thread panics main (does not return)"),
        Rule("R9", "$x != $l", lambda b: f'! text_is ( & {text(b["x"])} , {text(b["l"])} )' if len(b["l"]) == 1 and text(b["l"]).startswith('"') else None, why="String != literal"),
        Rule("R9", "$x . to_string ( ) != $l", lambda b: f'! text_is ( & {text(b["x"])} . to_string ( ) , {text(b["l"])} )' if len(b["l"]) == 1 and text(b["l"]).startswith('"') else None, why="String != literal"),
        Rule("R9", "$x . to_string ( ) == $l", lambda b: f'text_is ( & {text(b["x"])} . to_string ( ) , {text(b["l"])} )' if len(b["l"]) == 1 and text(b["l"]).startswith('"') else None, why="String == literal"),
    ]
    # order: the longer `to_string()` forms first
    rules = rules[:8] + rules[9:] + rules[8:9]
    rt = translate(list(run_tail), rules, log, "main: Run arm, tail")
    et = translate(list(exe_tail), rules, log, "main: Execute arm, tail")
    check_closed(rt, "main: Run arm, tail"); check_closed(et, "main: Execute arm, tail")
    gen = header(log, f"{MAIN}: main, tail of the Run arm (from `if let Err(e) = finished`) and of the Execute arm (after the thread is spawned)") + SPEC + f"""
//@ OBL C17.exit.run
// `mscript run`: the program's failure IS main's result (exit status non-zero, the error itself); a compile error likewise; success is success
pub fn run_tail(finished: Result<RunJob, PanicPayload>) -> (r: Result<(), VErr>)
    ensures
        finished matches Ok(Ok((Err(e), _))) ==> r == Err::<(), VErr>(e),
        finished matches Ok(Err(e)) ==> r == Err::<(), VErr>(e),
        finished matches Ok(Ok((Ok(_), _))) ==> r is Ok,
{{
{render(rt, 1)}
    Ok(())
}}
//@ OBL C17.exit.execute
// `mscript execute`: likewise for the result of the runtime thread
pub fn execute_tail(main_thread: JoinHandleV) -> (r: Result<(), VErr>)
    ensures
        thread_result(&main_thread) matches Ok(Err(e)) ==> r == Err::<(), VErr>(e),
        thread_result(&main_thread) matches Ok(Ok(_)) ==> r is Ok,
{{
{render(et, 1)}
    Ok(())
}}
}} // verus!
fn main() {{}}
"""
    obls = [Obl("C17.exit.run", ["C17", "C01"], fn="run_tail", desc="main, Run arm: a program that failed at run time (or did not compile) makes main return that very error -- exit status non-zero; a program that ran to its end makes it return Ok"),
            Obl("C17.exit.execute", ["C17", "C01", "C04", "C18"], fn="execute_tail", desc="main, Execute arm: the runtime thread's error is main's result (exit status non-zero); success is success")]
    return gen, obls, log


UNITS = [VUnit("c17_main_exit", ["C17", "C01", "C04", "C18"], "the exit status: what main does with the runtime thread's result", build)]
UNITS[0].assumes = ["thread::Builder::spawn / JoinHandle::join: the closure's result is what join yields (std); the closure bodies (compile, Program::execute) are not part of these fragments",
                    "a main that returns Err exits with a non-zero status, Ok with 0 (Rust's Termination for Result)",
                    "the `if profile { .. }` report of the Run arm only prints (checked syntactically: no return / ? / bail / assignment to `finished`)"]

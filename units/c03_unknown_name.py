"""C03 / C07: a name in an expression -- arm `Rule::ident` of the primary closure of parse_expr (compiler/src/ast/math_expr.rs), the part behind
the keywords.  C03: a name that no enclosing scope declares is a diagnostic (`use of undeclared variable`), never something that reaches
code generation.  C07: the identifier the expression carries is the declaration the lexical lookup found (unit c07_lexical_lookup), marked as a
captured variable exactly when the lookup says a function boundary was crossed."""
from vlib.rules import *
from vlib.pattern import Pat

FILE = "compiler/src/ast/math_expr.rs"

SPEC = r"""
use vstd::prelude::*;
verus! {
pub struct VErr;
#[verifier::external_body] pub struct VStr { x: usize }
#[verifier::external_body] pub struct UserData { x: usize }
#[verifier::external_body] pub struct PairV { x: usize }
#[verifier::external_body] pub struct TyV { x: usize }
pub struct Ident { pub name: VStr, pub ty: TyV, pub captured: bool, pub read_only: bool }
// AssocFileData::get_dependency_flags_from_name: obligation C07.lookup.lexical
pub uninterp spec fn lexical_lookup(u: &UserData, name: &VStr) -> Option<(Ident, bool)>;
#[verifier::external_body] pub fn get_dependency_flags_from_name(u: &UserData, name: &VStr) -> (r: Option<(Ident, bool)>) ensures r == lexical_lookup(u, name) { unimplemented!() }
pub trait CtxErr<T> { fn verif_or_diagnostic(self) -> Result<T, VErr>; }
impl CtxErr<(Ident, bool)> for Option<(Ident, bool)> { #[verifier::external_body] fn verif_or_diagnostic(self) -> (r: Result<(Ident, bool), VErr>) ensures self is None ==> r is Err, self is Some ==> r == Ok::<(Ident, bool), VErr>(self->Some_0) { unimplemented!() } }
impl Ident {
    #[verifier::external_body] pub fn clone(&self) -> (r: Ident) ensures r == *self { unimplemented!() }
    // Ident::wrap_in_callback (obligation C10.ident.wrap_in_callback): the same identifier typed as a captured variable
    #[verifier::external_body] pub fn wrap_in_callback(self) -> (r: Result<Ident, VErr>) ensures r is Ok ==> r->Ok_0.name == self.name && r->Ok_0.captured && r->Ok_0.read_only == self.read_only { unimplemented!() }
}
pub enum Value { Ident(Ident), Other }
pub enum Expr { Value(Value), Other }
"""


def build(repo):
    src = Source(repo)
    log = []
    f = src.fn(FILE, "parse_expr")
    body = f["body"]
    a = e = None
    for i in range(len(body)):
        if a is None and Pat("let ( ident , is_callback ) = user_data . get_dependency_flags_from_name ( raw_string )").match_at(body, i):
            a = i
        if a is not None and Pat("Expr :: Value ( Value :: Ident ( cloned ) )").match_at(body, i):
            e = i + len(lex("Expr :: Value ( Value :: Ident ( cloned ) )")); break
    if a is None or e is None:
        raise Undecided(f"{FILE}: the name-resolution fragment of parse_expr's ident arm not found")
    frag = list(body[a:e])
    log.append(("R0", "parse_expr, primary closure, arm Rule::ident", "from the lookup of the name to the value built from it", "fragment: the keyword cases (self, Self, true, false) in front of it are not part of this unit"))
    b = translate(frag, [
        Rule("R6", "user_data . get_dependency_flags_from_name ( raw_string )", "get_dependency_flags_from_name ( user_data , raw_string )", why="the lexical lookup: abstract callee (C07.lookup.lexical)"),
        Rule("R3", ". with_context ( $$c ) . to_err_vec ( ) ?", ". verif_or_diagnostic ( ) ?", why="None -> the `use of undeclared variable` diagnostic (its text is dropped)"),
        Rule("R3", ". to_err_vec ( ) ?", "?", why="error -> vector of errors"),
    ], log, "parse_expr[ident]")
    check_closed(b, "parse_expr[ident]")
    gen = header(log, f"{FILE}: parse_expr, arm Rule::ident of the primary closure (name resolution)") + SPEC + f"""
//@ OBL C03.name.undeclared-is-diagnostic
pub fn resolve_name(user_data: &UserData, raw_string: &VStr) -> (r: Result<Expr, VErr>)
    ensures
        // no enclosing scope declares the name: a diagnostic
        lexical_lookup(user_data, raw_string) is None ==> r is Err,
        // otherwise the expression carries THAT declaration, as a captured variable exactly when a function boundary lies in between
        r is Ok ==> lexical_lookup(user_data, raw_string) is Some && r->Ok_0 is Value && r->Ok_0->Value_0 is Ident && ({{
            let found = lexical_lookup(user_data, raw_string)->Some_0; let id = r->Ok_0->Value_0->Ident_0;
            id.name == found.0.name && id.read_only == found.0.read_only && (found.1 ==> id.captured) && (!found.1 ==> id == found.0) }}),
{{
    let verif_result = {{
{render(b, 2)}
    }};
    Ok(verif_result)
}}
}} // verus!
fn main() {{}}
"""
    return gen, [Obl("C03.name.undeclared-is-diagnostic", ["C03", "C07", "C10"], fn="parse_expr[ident arm]", desc="a name no enclosing scope declares is a diagnostic; otherwise the expression carries the declaration the lexical lookup found, marked captured exactly when a function boundary was crossed")], log


UNITS = [VUnit("c03_unknown_name", ["C03", "C07", "C10"], "names in expressions: undeclared is a diagnostic; captured iff across a function boundary", build)]
UNITS[0].assumes = ["the lexical lookup and Ident::wrap_in_callback are abstract callees (C07.lookup.lexical, C10.ident.wrap_in_callback); the keyword cases of the arm are outside the fragment"]

"""C16: the compiler terminates on every input -- here: the explanation of a type mismatch, TypeLayout::get_error_hint_between_types_recursive
(compiler/src/ast/type.rs), which recurses over the two types it compares.  Termination measure: size(self) + size(incompatible).  Every
recursive call must be made on (a STRICT COMPONENT of one operand, the other operand or a component of it) -- then the measure decreases.
The function is one big `match (self, incompatible)` with or-patterns whose alternatives bind the same names to different operands
(`(Alias(str, ty), y) | (y, Alias(str, ty))`): the obligation is checked per alternative by a provenance analysis of the real token stream
(python, labelled as such: Verus does not read or-patterns that swap their bindings, R-table).  For every recursive call `R.f(A, ..)`:
R and A are variables whose provenance is known, they stem from DIFFERENT operands, and at least one of them is bound inside a constructor
pattern (or taken out of a component list by a `for`, or is the type a generic stands for).  Seed C16-8 handed the whole operand `incompatible`
down with a component of that same operand: unbounded recursion, stack overflow."""
import re
from vlib.rules import *
from vlib.lexer import match_close

FILE = "compiler/src/ast/type.rs"
FN = "get_error_hint_between_types_recursive"
IDENT = re.compile(r"[a-z_][a-z0-9_]*$")
KW = {"ref", "mut", "if", "_", "let", "else", "for", "in", "match", "return", "true", "false", "self", "as"}


def split_top(toks, sep):
    out, cur, d = [], [], 0
    for t in toks:
        if t in ("(", "[", "{"): d += 1
        elif t in (")", "]", "}"): d -= 1
        if t == sep and d == 0:
            out.append(cur); cur = []
        else:
            cur.append(t)
    out.append(cur)
    return out


def binders(pat, prov):
    """idents bound in a pattern -> provenance (operand, strict): strict when nested inside a constructor's parentheses (or the operand is)"""
    env, d = {}, 0
    for i, t in enumerate(pat):
        if t == "(": d += 1
        elif t == ")": d -= 1
        elif IDENT.match(t) and t not in KW and (i + 1 >= len(pat) or pat[i + 1] not in ("(", "::", "{")) and (i == 0 or pat[i - 1] != "::"):
            env[t] = (prov[0], prov[1] or d > 0)
    return env


def arms_of(toks, open_brace):
    """[(pattern_tokens, body_tokens)] of the match whose `{` is at open_brace"""
    c = match_close(toks, open_brace)
    i, arms = open_brace + 1, []
    while i < c:
        j, d = i, 0
        while j < c and not (toks[j] == "=>" and d == 0):
            if toks[j] in ("(", "[", "{"): d += 1
            elif toks[j] in (")", "]", "}"): d -= 1
            j += 1
        if j >= c:
            break
        pat = toks[i:j]
        k = j + 1
        if toks[k] == "{":
            e = match_close(toks, k); body = toks[k + 1:e]; k = e + 1
            if k < c and toks[k] == ",": k += 1
        else:
            e, d = k, 0
            while e < c and not (toks[e] == "," and d == 0):
                if toks[e] in ("(", "[", "{"): d += 1
                elif toks[e] in (")", "]", "}"): d -= 1
                e += 1
            body = toks[k:e]; k = e + 1
        arms.append((pat, body)); i = k
    return arms


class Bad(Exception):
    pass


def walk(body, env, calls):
    i, n = 0, len(body)
    while i < n:
        t = body[i]
        if t == "match" and i + 1 < n and body[i + 1] == "(":
            pc = match_close(body, i + 1)
            ops = [x for x in split_top(body[i + 2:pc], ",") if x]
            ob = pc + 1
            if body[ob] != "{" or any(len(o) != 1 or o[0] not in env for o in ops):
                raise Bad("a nested match on something other than a tuple of known variables")
            for pat, b in arms_of(body, ob):
                walk_arm(pat, b, [env[o[0]] for o in ops], env, calls)
            i = match_close(body, ob) + 1
            continue
        if t == "for":
            j = i + 1
            while body[j] != "in": j += 1
            pat = body[i + 1:j]
            k = j + 1
            while body[k] != "{": k += 1
            expr = body[j + 1:k]
            srcs = [x for x in expr if x in env]
            names = [x for x in pat if IDENT.match(x) and x not in KW]
            if "enumerate" in expr and names:
                names = names[1:]
            if len(names) != len(srcs):
                raise Bad(f"a `for` whose pattern and sources do not pair up: {' '.join(pat)} in {' '.join(expr)}")
            e2 = dict(env)
            for nm, s in zip(names, srcs):
                e2[nm] = (env[s][0], True)            # an element of a component list
            c = match_close(body, k)
            walk(body[k + 1:c], e2, calls)
            i = c + 1
            continue
        if t == "let" and body[i + 1:i + 3] == ["Some", "("] and body[i + 4:i + 6] == [")", "="] and body[i + 7:i + 11] == [".", "try_get_lock", "(", ")"] and body[i + 6] in env:
            env = dict(env); env[body[i + 3]] = (env[body[i + 6]][0], True)          # the type a generic stands for
            i += 11
            continue
        if t == FN and i + 1 < n and body[i + 1] == "(" and i >= 2 and body[i - 1] == ".":
            recv = body[i - 2]
            c = match_close(body, i + 1)
            arg = [x for x in split_top(body[i + 2:c], ",")[0] if x != "&"]
            if recv not in env or len(arg) != 1 or arg[0] not in env or (i >= 3 and body[i - 3] in (".", ")")):
                raise Bad(f"a recursive call whose receiver / first argument is not a variable of known provenance: {' '.join(body[max(i - 4, 0):c + 1])[:120]}")
            calls.append((recv, env[recv], arg[0], env[arg[0]]))
            i = c + 1
            continue
        i += 1


def walk_arm(pat, body, provs, outer, calls):
    if "if" in pat:
        pat = pat[:pat.index("if")]         # the guard binds nothing
    for alt in split_top(pat, "|"):
        env = dict(outer)
        if alt and alt[0] == "(" and match_close(alt, 0) == len(alt) - 1:
            parts = [p for p in split_top(alt[1:-1], ",")]
            if len(parts) != len(provs):
                raise Bad("a tuple pattern of another width than its scrutinee")
            for p, pv in zip(parts, provs):
                env.update(binders(p, pv))
        elif alt != ["_"] and alt:
            raise Bad(f"an arm pattern that is neither a tuple nor `_`: {' '.join(alt)[:80]}")
        walk(body, env, calls)


def build(repo):
    src = Source(repo)
    log = []
    f = src.fn(FILE, FN, "impl TypeLayout")
    body = list(f["body"])
    o = Obl("C16.hint.terminates", ["C16"], engine="finite scan (python): provenance of the operands of every recursive call", fn=f"TypeLayout::{FN}",
            desc="every recursive call is made on a strict component of one operand and (a component of) the OTHER operand, in every alternative of its or-pattern: size(self) + size(incompatible) decreases")
    o.pre_decided = True
    try:
        p = Pat("match ( self , incompatible ) {")
        at = next((i for i in range(len(body)) if p.match_at(body, i)), None)
        if at is None:
            raise Bad("`match (self, incompatible) {` not found")
        calls = []
        base = {"self": (0, False), "incompatible": (1, False)}
        for pat, b in arms_of(body, at + 6):
            walk_arm(pat, b, [(0, False), (1, False)], base, calls)
        # recursive calls outside the match
        outside = body[:at] + body[match_close(body, at + 6) + 1:]
        if FN in outside:
            raise Bad("a recursive call outside the match")
        if len(calls) < 5:
            raise Bad(f"only {len(calls)} recursive calls recognised")
    except Bad as e:
        raise Undecided(f"{FILE}: {FN}: {e}")
    bad = [c for c in calls if c[1][0] == c[3][0] or not (c[1][1] or c[3][1])]
    log.append(("R0", f"TypeLayout::{FN}", f"{len(calls)} recursive calls, per or-alternative", "provenance of receiver and first argument of every recursive call"))
    o.status = "failed" if bad else "discharged"
    side = lambda pv: f"{'a component of' if pv[1] else 'the whole of'} operand {'`self`' if pv[0] == 0 else '`incompatible`'}"
    o.detail = "\n".join(f"recursive call `{r}.{FN}({a}, ..)`: `{r}` is {side(pr)}, `{a}` is {side(pa)} -- the measure size(self) + size(incompatible) need not decrease" for r, pr, a, pa in bad[:4])
    gen = header(log, f"{FILE}: TypeLayout::{FN} (termination)") + "use vstd::prelude::*;\nverus! {\n} // verus!\nfn main() {}\n"
    return gen, [o], log


UNITS = [VUnit("c16_hint_termination", ["C16"], "the type-mismatch hint recursion terminates", build)]
UNITS[0].assumes = ["types are finite trees (an alias, an optional, a list hold strictly smaller types); the type a generic stands for counts as a component of it (generics are resolved to types without generics of the same id)"]

"""C07 / C10: `modify NAME = v` -- Assignment::can_modify_if_applicable (compiler/src/ast/assignment.rs), the target test of `modify`.
`modify` updates the CAPTURED variable (C07); the run-time instruction it compiles to (`store_object`, unit c07_modify) writes the captured
variable of that name whatever the compiler looked at.  So the compile-time const test must be made on that same variable: the name must
denote -- lexically, beyond the block that holds the statement -- a variable captured from an enclosing function, and it must not be const.
A variable of the function itself (declared in any of its blocks) is not a target of `modify`: accepting it would let the statement write a
captured const of the same name behind the checked variable's back."""
from vlib.rules import *

FILE = "compiler/src/ast/assignment.rs"

SPEC = r"""
pub struct Ident { pub name: VStr, pub ty: Option<TypeLayout>, pub read_only: bool }
impl Ident {
    pub fn is_const(&self) -> (r: bool) ensures r == self.read_only { self.read_only }
    #[verifier::external_body] pub fn name(&self) -> (r: &VStr) ensures *r == self.name { unimplemented!() }
    // the identifier's own type is the captured-variable wrapper: this is how an earlier `modify` of the same function registers the name
    #[verifier::external_body] pub fn is_instance_callback_variable(&self) -> (r: Result<bool, VErr>) ensures r is Ok <==> self.ty is Some, r is Ok ==> r->Ok_0 == is_callback_ty(self.ty->Some_0) { unimplemented!() }
}
pub open spec fn registered_as_captured(i: Ident) -> bool { i.ty is Some && is_callback_ty(i.ty->Some_0) }
pub fn res_unwrap_or(x: Result<bool, VErr>, d: bool) -> (r: bool) ensures r == (if x is Ok { x->Ok_0 } else { d }) { match x { Ok(b) => b, Err(_) => d } }
#[verifier::external_body] pub struct ValueV { x: usize }
#[verifier::external_body] pub struct UserData { x: usize }
pub struct AssignmentFlag(pub u8);
pub uninterp spec fn has_modify(f: &AssignmentFlag) -> bool;
impl AssignmentFlag {
    #[verifier::external_body] pub fn modify() -> (r: AssignmentFlag) { unimplemented!() }
    #[verifier::external_body] pub fn contains(&self, o: AssignmentFlag) -> (r: bool) ensures r == has_modify(self) { unimplemented!() }
}
// the nearest declaration of the name beyond the `skip` innermost scopes, and whether a function boundary lies in between (= it is captured)
pub uninterp spec fn lookup_skip(u: &UserData, name: Seq<char>, skip: int) -> Option<(Ident, bool)>;
pub uninterp spec fn lookup_local(u: &UserData, name: Seq<char>) -> Option<Ident>;
impl UserData {
    #[verifier::external_body] pub fn get_dependency_flags_from_name_skip_n(&self, name: &VStr, skip: usize) -> (r: Option<(Ident, bool)>) ensures r == lookup_skip(self, str_view(name), skip as int) { unimplemented!() }
    #[verifier::external_body] pub fn get_dependency_flags_from_name(&self, name: &VStr) -> (r: Option<(Ident, bool)>) ensures r == lookup_skip(self, str_view(name), 0) { unimplemented!() }
    #[verifier::external_body] pub fn get_ident_from_name_local(&self, name: &VStr) -> (r: Option<Ident>) ensures r == lookup_local(self, str_view(name)) { unimplemented!() }
}
pub fn opt_ctx(o: Option<(Ident, bool)>) -> (r: Result<(Ident, bool), VErr>) ensures o is Some <==> r is Ok, r is Ok ==> Some(r->Ok_0) == o { match o { Some(x) => Ok(x), None => Err(VErr) } }
pub struct Assignment { pub idents: Vec<Ident>, pub value: ValueV, pub flags: AssignmentFlag }
impl Assignment { pub fn flags(&self) -> (r: &AssignmentFlag) ensures *r == self.flags { &self.flags } }
"""


def build(repo):
    src = Source(repo)
    log = []
    f = src.fn(FILE, "can_modify_if_applicable", "impl Assignment")
    b = translate(f["body"], [
        Rule("R3", "bail ! $a", "return Err ( VErr )", why="bail! -> return Err"),
        Rule("R9", "user_data . get_dependency_flags_from_name_skip_n ( $$a ) . context ( $m , ) ?", "opt_ctx ( user_data . get_dependency_flags_from_name_skip_n ( $$a ) ) ?", why="Option::context"),
        Rule("R9", "user_data . get_dependency_flags_from_name_skip_n ( $$a ) . context ( $m ) ?", "opt_ctx ( user_data . get_dependency_flags_from_name_skip_n ( $$a ) ) ?", why="Option::context"),
        Rule("R9", "user_data . get_dependency_flags_from_name ( $$a ) . context ( $m , ) ?", "opt_ctx ( user_data . get_dependency_flags_from_name ( $$a ) ) ?", why="Option::context"),
        Rule("R9", "user_data . get_dependency_flags_from_name ( $$a ) . context ( $m ) ?", "opt_ctx ( user_data . get_dependency_flags_from_name ( $$a ) ) ?", why="Option::context"),
        Rule("R9", "$x . is_instance_callback_variable ( ) . unwrap_or ( $d )", "res_unwrap_or ( $x . is_instance_callback_variable ( ) , $d )", why="Result::unwrap_or"),
        Rule("R9", "has_been_declared . map_or_else ( || true , | ident | ! ident . is_const ( ) )", "( match has_been_declared { None => true , Some ( ident ) => ! ident . is_const ( ) } )", why="Option::map_or_else -> match"),
    ], log, "Assignment::can_modify_if_applicable")
    check_closed(b, "can_modify_if_applicable")
    ft = src.fn(FILE, "modify_target", "impl Assignment")
    bt = translate(ft["body"], [
        Rule("R3", "bail ! $a", "return Err ( VErr )", why="bail! -> return Err"),
        Rule("R9", "$x . is_instance_callback_variable ( ) . unwrap_or ( $d )", "res_unwrap_or ( $x . is_instance_callback_variable ( ) , $d )", why="Result::unwrap_or"),
        Rule("R1", "Ok ( Some ( found . to_owned ( ) ) )", "Ok ( Some ( found ) )", why="Ref<Ident>::to_owned: the identifier itself"),
    ], log, "Assignment::modify_target")
    check_closed(bt, "modify_target")
    gen = header(log, f"{FILE}: Assignment::can_modify_if_applicable, Assignment::modify_target") + prelude("parser.rs") + SPEC + f"""
impl Assignment {{
    //@ OBL C10.modify.target
    pub fn can_modify_if_applicable(&self, user_data: &UserData, is_modify: bool) -> (r: Result<bool, VErr>)
        requires is_modify == has_modify(&self.flags),          // Parser::assignment sets the flag from the same `modify` keyword
        ensures
            // `modify NAME = v`: accepted only for a variable CAPTURED from an enclosing function (the innermost scope holds this statement's own
            // identifier and is skipped) -- found beyond a function boundary, or registered in this function AS the captured variable by an earlier
            // `modify` (D116: a second `modify` in a nested block is as legal as the first) -- and the answer is that variable's const flag
            (is_modify && r is Ok) ==> self.idents@.len() == 1 && ({{ let t = lookup_skip(user_data, str_view(&self.idents@[0].name), 1);
                t is Some && (t->Some_0.1 || registered_as_captured(t->Some_0.0)) && r->Ok_0 == !t->Some_0.0.read_only }}),
            // .. and every such variable IS accepted (no legal target is refused)
            (is_modify && self.idents@.len() == 1) ==> ({{ let t = lookup_skip(user_data, str_view(&self.idents@[0].name), 1);
                (t is Some && (t->Some_0.1 || registered_as_captured(t->Some_0.0))) ==> r is Ok }}),
            // a plain assignment: the const flag of the declaration in the innermost scope, if there is one
            (!is_modify && r is Ok) ==> self.idents@.len() == 1 && ({{ let t = lookup_local(user_data, str_view(&self.idents@[0].name));
                r->Ok_0 == (t is None || !t->Some_0.read_only) }}),
    {{
{render(b, 2)}
    }}
    //@ OBL C07.modify.target-is-captured
    // what `modify NAME = v` writes, looked up BEFORE the statement registers anything (innermost scope first: a parameter or a variable declared
    // directly in the function body is seen): the variable NAME denotes there must be captured -- found beyond a function boundary, or left behind
    // as the captured variable by an earlier `modify` of this function.  Anything else is refused (D120); an unknown name has no target.
    pub fn modify_target(user_data: &UserData, name: &VStr) -> (r: Result<Option<Ident>, VErr>)
        ensures ({{ let t = lookup_skip(user_data, str_view(name), 0);
            &&& t is None ==> r == Ok::<Option<Ident>, VErr>(None)
            &&& t is Some ==> (r is Ok <==> (t->Some_0.1 || registered_as_captured(t->Some_0.0)))
            &&& (t is Some && r is Ok) ==> r->Ok_0 == Some(t->Some_0.0) }}),
    {{
{render(bt, 2)}
    }}
}}
}} // verus!
fn main() {{}}
"""
    return gen, [Obl("C07.modify.target-is-captured", ["C07", "C10"], fn="Assignment::modify_target", desc="modify_target: the variable `modify NAME` names, innermost scope first and before the statement registers anything, must be a captured one; a parameter or variable of this function is refused; the result is that variable"),
                 Obl("C10.modify.target", ["C10", "C07"], fn="Assignment::can_modify_if_applicable", desc="can_modify_if_applicable: `modify` is accepted only when the name denotes a variable captured from an enclosing function, and then reports that variable's const flag; a variable of the function itself is not a target")], log


UNITS = [VUnit("c10_can_modify", ["C10", "C07"], "`modify`: the variable tested is the captured variable that is written", build)]
UNITS[0].assumes = ["scope lookups abstract (get_dependency_flags_from_name_skip_n: nearest declaration beyond n scopes + whether a function boundary was crossed)",
                    "the caller (Parser::assignment, unit c10_assignment) rejects the statement when the answer is false"]

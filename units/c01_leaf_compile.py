"""C01 / C09: the smallest code generators -- `impl Compile for Ident` (a name is read with `load name`), `ReturnStatement` (the value's code, then
`ret`; a bare `return` is `ret` alone), `PrintStatement` (the value's code, then `printn "*"`, `void`: one line per print, the value evaluated once),
`Break` / `Continue` (the placeholder the enclosing loop resolves, carrying the number of frames to close).  Each emits exactly that: nothing in
front, nothing behind, the child's code once."""
from vlib.rules import *

SPEC = r"""
#[verifier::external_body] pub fn strlit_vs(s: &'static str) -> (r: VString) ensures text_of(&r) == s@ { unimplemented!() }
pub struct Ident { pub name: Vec<char> }
impl Ident { pub fn name(&self) -> (r: &Vec<char>) ensures r@ == self.name@ { &self.name } }
#[verifier::external_body] pub struct Value { x: usize }
pub uninterp spec fn code_of(v: &Value) -> Option<Seq<CompiledItem>>;
impl Value { #[verifier::external_body] pub fn compile(&self, state: &CompilationState) -> (r: Result<Vec<CompiledItem>, VErr>) ensures r is Ok <==> code_of(self) is Some, r is Ok ==> r->Ok_0@ == code_of(self)->Some_0 { unimplemented!() } }
pub struct ReturnStatement { pub value: Option<Value>, pub ends_module: bool }
pub struct PrintStatement(pub Value);
pub struct Break { pub frames_since_loop: usize }
pub struct Continue { pub frames_since_loop: usize }
pub fn vappend(a: &mut Vec<CompiledItem>, b: &mut Vec<CompiledItem>) ensures final(a)@ == old(a)@ + old(b)@ { a.append(b); }
"""


def build(repo):
    src = Source(repo)
    log = []
    ids = opcode_ids(repo)
    R = [r_instruction(ids), R12_VEC_LITERAL,
         Rule("R13", "matched . append ( & mut $$e ) ;", "{ let mut verif_tail = $$e ; vappend ( & mut matched , & mut verif_tail ) ; }", why="Vec::append"),
         Rule("R1", "let Some ( ref return_value ) = self . $f else", "let Some ( return_value ) = & self . $f else", why="ref binding -> reference to the field")]
    parts = {}
    for what, rel, within in (("ident", "compiler/src/ast/ident.rs", "impl Compile for Ident"), ("ret", "compiler/src/ast/return.rs", "impl Compile for ReturnStatement"),
                              ("print", "compiler/src/ast/print_statement.rs", "impl Compile for PrintStatement"),
                              ("cont", "compiler/src/ast/loop_control_flow.rs", "impl Compile for Continue"), ("brk", "compiler/src/ast/loop_control_flow.rs", "impl Compile for Break")):
        f = src.fn(rel, "compile", within)
        b = translate(f["body"], R, log, within)
        check_closed(b, within)
        parts[what] = render(b, 2)
    gen = header(log, "compiler/src/ast/{ident, return, print_statement, loop_control_flow}.rs: impl Compile for Ident / ReturnStatement / PrintStatement / Continue / Break") \
        + prelude("compile.rs") + opcode_consts(ids, ["load", "ret", "ret_mod", "printn", "void"]) + SPEC + f"""
impl Ident {{
    //@ OBL C01.compile.ident
    pub fn compile(&self, state: &CompilationState) -> (r: Result<Vec<CompiledItem>, VErr>)
        ensures r is Ok && r->Ok_0@.len() == 1 && is_instr(r->Ok_0@[0], LOAD) && nargs(r->Ok_0@[0]) == 1 && argt(r->Ok_0@[0], 0) == self.name@
    {{
{parts['ident']}
    }}
}}
impl ReturnStatement {{
    //@ OBL C01.compile.return
    pub fn compile(&self, state: &CompilationState) -> (r: Result<Vec<CompiledItem>, VErr>)
        ensures
            // a bare `return` leaves a function with `ret`; in the top-level code of a file it hands the module to the importer, as the end of the file does (`ret_mod`)
            self.value is None ==> r is Ok && r->Ok_0@.len() == 1 && is_instr(r->Ok_0@[0], if self.ends_module {{ RET_MOD }} else {{ RET }}) && nargs(r->Ok_0@[0]) == 0,
            self.value is Some ==> (r is Ok <==> code_of(&self.value->Some_0) is Some),
            (self.value is Some && r is Ok) ==> ({{ let c = code_of(&self.value->Some_0)->Some_0;
                r->Ok_0@.len() == c.len() + 1 && r->Ok_0@.subrange(0, c.len() as int) == c && is_instr(r->Ok_0@[c.len() as int], RET) && nargs(r->Ok_0@[c.len() as int]) == 0 }}),
    {{
{parts['ret']}
    }}
}}
impl PrintStatement {{
    //@ OBL C01.compile.print
    pub fn compile(&self, state: &CompilationState) -> (r: Result<Vec<CompiledItem>, VErr>)
        ensures
            r is Ok <==> code_of(&self.0) is Some,
            r is Ok ==> ({{ let c = code_of(&self.0)->Some_0; let n = c.len() as int;
                // the value's code once, then `printn "*"` (print everything on the operand stack on one line) and `void` (clear it)
                r->Ok_0@.len() == n + 2 && r->Ok_0@.subrange(0, n) == c
                && is_instr(r->Ok_0@[n], PRINTN) && nargs(r->Ok_0@[n]) == 1 && argt(r->Ok_0@[n], 0) == "*"@
                && is_instr(r->Ok_0@[n + 1], VOID) && nargs(r->Ok_0@[n + 1]) == 0 }}),
    {{
{parts['print']}
    }}
}}
impl Continue {{
    //@ OBL C01.compile.continue
    pub fn compile(&self, state: &CompilationState) -> (r: Result<Vec<CompiledItem>, VErr>)
        ensures r is Ok && r->Ok_0@ == seq![CompiledItem::Continue(self.frames_since_loop)]
    {{
{parts['cont']}
    }}
}}
impl Break {{
    //@ OBL C01.compile.break
    pub fn compile(&self, state: &CompilationState) -> (r: Result<Vec<CompiledItem>, VErr>)
        ensures r is Ok && r->Ok_0@ == seq![CompiledItem::Break(self.frames_since_loop)]
    {{
{parts['brk']}
    }}
}}
}} // verus!
fn main() {{}}
"""
    obls = [Obl("C01.compile.ident", ["C01", "C07"], fn="Ident::compile", desc="a name is read with exactly `load name`"),
            Obl("C01.compile.return", ["C01", "C09"], fn="ReturnStatement::compile", desc="`return e`: e's code once, then `ret`; `return`: `ret` alone -- `ret_mod` when it ends the top-level code of a file"),
            Obl("C01.compile.print", ["C01", "C09", "C15"], fn="PrintStatement::compile", desc="`print e`: e's code once, then `printn *`, `void`"),
            Obl("C01.compile.continue", ["C01", "C09"], fn="Continue::compile", desc="`continue`: the Continue placeholder with the number of frames to close"),
            Obl("C01.compile.break", ["C01", "C09"], fn="Break::compile", desc="`break`: the Break placeholder with the number of frames to close")]
    return gen, obls, log


UNITS = [VUnit("c01_leaf_compile", ["C01", "C09", "C07", "C15"], "the smallest code generators emit exactly their instruction(s)", build)]
UNITS[0].assumes = ["Value::compile abstract (`code_of`); the run-time meaning of load / ret / printn / void is the handlers' (c07_load, c01 handlers, c01_small_handlers)"]

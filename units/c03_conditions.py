"""C03 / C02: the checking parser functions of `if`, `while` and `assert` -- a non-boolean condition is rejected (for every parse tree and
context), and `if` marks the enclosing scope as "returns on every path" only when the if-branch AND an else-branch each do."""
from vlib.rules import *

IF = "compiler/src/ast/if_statement.rs"
WHILE = "compiler/src/ast/while_loop.rs"
ASSERT = "compiler/src/ast/assertion.rs"
SCOPE = "compiler/src/scope.rs"

SPEC = r"""
// methods of TypeLayout the checks may go through (abstract: only is_boolean on the type itself is the boolean test)
pub uninterp spec fn stripped(t: TypeLayout, include_optional: bool) -> TypeLayout;
impl TypeLayout {
    #[verifier::external_body] pub fn is_boolean(&self) -> (r: bool) ensures r == spec_is_boolean(self) { unimplemented!() }
    #[verifier::external_body] pub fn disregard_distractors(&self, include_optional: bool) -> (r: &TypeLayout) ensures *r == stripped(*self, include_optional) { unimplemented!() }
    #[verifier::external_body] pub fn get_type_recursively(&self) -> (r: &TypeLayout) ensures *r == stripped(*self, false) { unimplemented!() }
}
// ---- the scope stack (input.user_data()): only the return-status of each open scope matters here, innermost last
pub enum ScopeReturnStatus { No, Void, Should(TypeLayout), ParentShould(TypeLayout), Did(TypeLayout) }
#[verifier::external_body] pub struct UD { x: usize }
pub uninterp spec fn statuses(u: &UD) -> Seq<ScopeReturnStatus>;
// ScopeReturnStatus::mark_should_return_as_completed: Should / ParentShould / Did(t) -> Did(t); No / Void unchanged
pub open spec fn did(s: ScopeReturnStatus) -> ScopeReturnStatus {
    match s { ScopeReturnStatus::Should(t) | ScopeReturnStatus::ParentShould(t) | ScopeReturnStatus::Did(t) => ScopeReturnStatus::Did(t), o => o }
}
// return_statement_expected_yield_type(): some enclosing scope expects a value -> ParentShould(that type), else No
pub uninterp spec fn expects_value(u: &UD) -> bool;
#[verifier::external_body] pub fn expected_child_status(u: &UD) -> (r: ScopeReturnStatus) ensures expects_value(u) ==> r is ParentShould, !expects_value(u) ==> r is No { unimplemented!() }
#[verifier::external_body] pub fn push_scope(u: &mut UD, s: ScopeReturnStatus) ensures statuses(final(u)) == statuses(old(u)).push(s) { unimplemented!() }
#[verifier::external_body] pub fn consume_scope(u: &mut UD) -> (r: ScopeReturnStatus)
    requires statuses(old(u)).len() > 0 ensures r == statuses(old(u)).last(), statuses(final(u)) == statuses(old(u)).drop_last() { unimplemented!() }
#[verifier::external_body] pub fn mark_should_return_as_completed(u: &mut UD)
    requires statuses(old(u)).len() > 0 ensures statuses(final(u)) == statuses(old(u)).update(statuses(old(u)).len() - 1, did(statuses(old(u)).last())) { unimplemented!() }
// C09 (one parser scope per run-time frame): the body of an `if` / `else` / `while` is parsed with exactly ONE more scope open than the
// statement itself -- `break` / `continue` in it count the open scopes (scopes_since_loop) to know how many frames to unwind
pub uninterp spec fn base_depth() -> int;
// AssocFileData::get_return_type: the innermost open scope's status
#[verifier::external_body] pub fn peek_scope(u: &UD) -> (r: ScopeReturnStatus) requires statuses(u).len() > 0 ensures r == statuses(u).last() { unimplemented!() }
// sub-parsers of blocks: every path through the block reaches a `return` (uninterpreted) <=> the innermost open scope is marked
pub uninterp spec fn block_returns(n: Node) -> bool;
#[verifier::external_body] pub struct BlockV { x: usize }
#[verifier::external_body] pub struct ElseV { x: usize }
#[verifier::external_body] pub fn parse_block(n: Node, u: &mut UD) -> (r: Result<BlockV, VErr>)
    requires statuses(old(u)).len() > 0, statuses(old(u)).len() == base_depth() + 1
    ensures statuses(final(u)) == (if block_returns(n) { statuses(old(u)).update(statuses(old(u)).len() - 1, did(statuses(old(u)).last())) } else { statuses(old(u)) })
{ unimplemented!() }
#[verifier::external_body] pub fn parse_else(n: Node, u: &mut UD) -> (r: Result<ElseV, VErr>)
    requires statuses(old(u)).len() > 0, statuses(old(u)).len() == base_depth() + 1
    ensures statuses(final(u)) == (if block_returns(n) { statuses(old(u)).update(statuses(old(u)).len() - 1, did(statuses(old(u)).last())) } else { statuses(old(u)) })
{ unimplemented!() }
#[verifier::external_body] pub fn executing_class(u: &UD) -> (r: Option<&ClassType>) { unimplemented!() }
pub uninterp spec fn the_class(n: &Node) -> Option<&ClassType>;      // input.user_data().get_type_of_executing_class()
pub struct IfStatement { pub else_statement: Option<ElseV>, pub value: Value, pub body: BlockV }
pub struct WhileLoop { pub condition: Value, pub body: BlockV }
pub struct Assertion { pub value: Value }
#[verifier::external_body] pub fn single_child(n: &Node) -> (r: Node) requires node_children(n).len() == 1 ensures r == node_children(n)[0] { unimplemented!() }
"""

COMMON = parser_idioms() + [
    Rule("R6", "input . children ( ) . single ( ) . unwrap ( )", "single_child ( & input )", why="pest API: the single child (R8: exactly one child, from the grammar)"),
    Rule("R6", "input . children ( )", "children ( & input )", why="pest API abstract"),
    Rule("R6", "$n . children ( )", "node_kids ( & $n )", why="pest API abstract"),
    Rule("R8", "children . next ( ) . unwrap ( )", "unwrap_node ( children . next ( ) )", why="unwrap on a child: panic precondition (grammar child count)"),
    Rule("R8", "children . next ( ) . expect ( $m )", "unwrap_node ( children . next ( ) )", why="expect on a child: panic precondition (grammar child count)"),
    Rule("R6", "input . user_data ( ) . return_statement_expected_yield_type ( ) . map_or_else ( || ScopeReturnStatus :: No , | ty | ScopeReturnStatus :: ParentShould ( ty . clone ( ) ) , )",
         "expected_child_status ( ud )", why="status a child scope starts with: No or ParentShould(expected type), never Did"),
    Rule("R6", "input . user_data ( ) . push_while_loop ( $s )", "push_scope ( ud , $s )", why="scope stack of the parser as explicit state (R10)"),
    Rule("R6", "input . user_data ( ) . push_if_typed ( $s )", "push_scope ( ud , $s )", why="scope stack of the parser as explicit state (R10)"),
    Rule("R6", "input . user_data ( ) . push_else_typed ( $$s )", "push_scope ( ud , $$s )", why="scope stack of the parser as explicit state (R10)"),
    Rule("R6", "input . user_data ( ) . get_return_type ( ) . clone ( )", "peek_scope ( ud )", why="scope stack of the parser as explicit state (R10)"),
    Rule("R6", "input . user_data ( ) . mark_should_return_as_completed ( )", "mark_should_return_as_completed ( ud )", why="scope stack of the parser as explicit state (R10)"),
    Rule("R6", "Self :: value ( $n ) ?", "parse_value ( $n ) ?", why="sub-parser abstract"),
    Rule("R6", ". for_type ( & TypecheckFlags :: use_class ( input . user_data ( ) . get_type_of_executing_class ( ) , ) ) . to_err_vec ( ) ?", ". verif_for_type ( the_class_of ( & input ) ) ?", why="type query abstract; error vector wrapper dropped"),
    Rule("R3", "return Err ( vec ! [ new_err ( $$a ) ] ) ;", "return Err ( VErr ) ;", why="diagnostic construction dropped (that a diagnostic IS returned is kept)"),
    Rule("R6", "Self :: block ( $n )", "parse_block ( $n , ud )", why="sub-parser abstract: marks the innermost scope iff every path of the block returns"),
    Rule("R6", "Self :: else_statement ( $n )", "parse_else ( $n , ud )", why="sub-parser abstract: marks the innermost scope iff every path of the else part returns"),
    Rule("R10", "$h . consume ( )", "consume_scope ( ud )", why="ScopeHandle::consume pops the scope it was created for (LIFO discipline assumed)"),
    Rule("R1", "let $n : ScopeHandle = push_scope ( $$a ) ;", "push_scope ( $$a ) ;", why="handle value unused in the model"),
    Rule("R1", "let $n = push_scope ( $$a ) ;", "push_scope ( $$a ) ;", why="handle value unused in the model"),
    Rule("R1", "$n . as_span ( )", "as_span ( & $n )", why="pest API abstract"),
]


def build(repo):
    src = Source(repo)
    log = []
    fw = src.fn(WHILE, "while_loop", "impl Parser")
    fi = src.fn(IF, "if_statement", "impl Parser")
    fa = src.fn(ASSERT, "assertion", "impl Parser")
    fabr = src.fn(SCOPE, "all_branches_return", "impl ScopeReturnStatus")
    bw = translate(fw["body"], COMMON, log, "Parser::while_loop"); check_closed(bw, "Parser::while_loop")
    bi = translate(fi["body"], COMMON, log, "Parser::if_statement"); check_closed(bi, "Parser::if_statement")
    ba = translate(fa["body"], COMMON + [
        Rule("R1", "let input_span = as_span ( & input ) ;", "", why="position text of the assertion (C17 trace text): dropped"),
        Rule("R1", "let ( line , col ) = input_span . start_pos ( ) . line_col ( ) ;", "", why="position text dropped"),
        Rule("R1", "span : format ! $a ,", "", why="position text dropped"),
    ], log, "Parser::assertion"); check_closed(ba, "Parser::assertion")
    babr = translate(fabr["body"], [Rule("R9", "matches ! ( self , $$p )", "( match self { $$p => true , _ => false } )", count=1, why="matches! -> match"),
                                    Rule("R1", "Self :: Did", "ScopeReturnStatus :: Did")], log, "ScopeReturnStatus::all_branches_return")
    check_closed(babr, "all_branches_return")
    gen = header(log, f"{WHILE}: Parser::while_loop; {IF}: Parser::if_statement; {ASSERT}: Parser::assertion; {SCOPE}: ScopeReturnStatus::all_branches_return") + \
        prelude("parser.rs") + SPEC + f"""
impl Value {{
    #[verifier::external_body] pub fn verif_for_type(&self, cls: Option<&ClassType>) -> (r: Result<TypeLayout, VErr>)
        ensures r is Ok <==> type_of(self, cls) is Some, r is Ok ==> r->Ok_0 == type_of(self, cls)->Some_0 {{ unimplemented!() }}
}}
#[verifier::external_body] pub fn the_class_of(n: &Node) -> (r: Option<&ClassType>) ensures r == the_class(n) {{ unimplemented!() }}
impl ScopeReturnStatus {{
    //@ OBL C02.returns.all_branches_return
    pub fn all_branches_return(&self) -> (r: bool) ensures r == (self is Did)
    {{
{render(babr, 2)}
    }}
}}

//@ OBL C03.while.condition
pub fn while_loop(input: Node, ud: &mut UD) -> (r: Result<WhileLoop, VErr>)
    requires node_children(&input).len() >= 2, statuses(old(ud)).len() > 0, statuses(old(ud)).len() == base_depth()
    ensures
        // accepted only with a condition that has a type and that type is boolean
        r is Ok ==> type_of(&r->Ok_0.condition, the_class(&input)) is Some && spec_is_boolean(&type_of(&r->Ok_0.condition, the_class(&input))->Some_0),
        // a loop body may run zero times: a `return` inside it never marks the enclosing scope
        r is Ok ==> statuses(final(ud)) == statuses(old(ud)),
{{
{render(bw, 1)}
}}

//@ OBL C03.if.condition
pub fn if_statement(input: Node, ud: &mut UD) -> (r: Result<IfStatement, VErr>)
    requires node_children(&input).len() >= 2, statuses(old(ud)).len() > 0, statuses(old(ud)).len() == base_depth()
    ensures
        r is Ok ==> type_of(&r->Ok_0.value, the_class(&input)) is Some && spec_is_boolean(&type_of(&r->Ok_0.value, the_class(&input))->Some_0),
        // C02 (no missing return value): the enclosing scope is marked "returns on every path" only if the if-branch returns on every
        // path AND there is an else part that returns on every path; otherwise the enclosing scope's status is untouched
        r is Ok ==> ({{
            let n = node_children(&input);
            let both = expects_value(old(ud)) && block_returns(n[1]) && n.len() >= 3 && block_returns(n[2]);
            statuses(final(ud)) == (if both {{ statuses(old(ud)).update(statuses(old(ud)).len() - 1, did(statuses(old(ud)).last())) }} else {{ statuses(old(ud)) }})
        }}),
{{
{render(bi, 1)}
}}

//@ OBL C03.assert.condition
pub fn assertion(input: Node, ud: &mut UD) -> (r: Result<Assertion, VErr>)
    requires node_children(&input).len() == 1
    ensures r is Ok ==> type_of(&r->Ok_0.value, the_class(&input)) is Some && spec_is_boolean(&type_of(&r->Ok_0.value, the_class(&input))->Some_0),
            statuses(final(ud)) == statuses(old(ud)),
{{
{render(ba, 1)}
}}
}} // verus!
fn main() {{}}
"""
    obls = [
        Obl("C02.returns.all_branches_return", ["C02"], fn="ScopeReturnStatus::all_branches_return", desc="all_branches_return: true exactly for Did"),
        Obl("C03.while.condition", ["C03", "C09", "C01", "C02"], fn="Parser::while_loop", desc="Parser::while_loop: accepted only if the condition's type is boolean; never marks the enclosing scope as returning"),
        Obl("C03.if.condition", ["C03", "C02", "C09", "C01"], fn="Parser::if_statement", desc="Parser::if_statement: accepted only if the condition's type is boolean; the enclosing scope is marked as returning on every path only if the if-branch and an else-branch both do"),
        Obl("C03.assert.condition", ["C03"], fn="Parser::assertion", desc="Parser::assertion: accepted only if the asserted value's type is boolean"),
    ]
    return gen, obls, log


UNITS = [VUnit("c03_conditions", ["C03", "C02", "C09", "C01"], "if / while / assert: boolean condition enforced; return-path marking of if/else", build)]
UNITS[0].assumes = ["pest API and sub-parsers abstract (any parse tree); child counts are the grammar's productions (preconditions)",
                    "the parser's scope stack (input.user_data()) is an explicit `&mut` state of return statuses; ScopeHandle::consume pops the innermost scope (LIFO discipline assumed)",
                    "a block / else part marks the innermost open scope exactly when every path through it returns (contract of the abstract sub-parsers, from reading Parser::return_statement)",
                    "diagnostic texts and positions are dropped: that a diagnostic names file and position is not decided"]

"""C08 / C13 / C01: the code of `place = value` for an element, an entry or a field -- `impl Compile for Reassignment` and
`impl Compile for ReassignmentPath` (compiler/src/ast/reassignment.rs).  The value is evaluated ONCE and parked in a register; the place's code
leaves the POINTER to the element / field on the stack (a name, then one link per `[i]` / `.f`, in order, each link's own code: units
c13_index_compile, c08_dot_call); then `load_fast reg; ptr_mut` -- exactly one write of exactly the parked value through exactly that pointer
(the handler: unit c08_ptr_mut).  Nothing else is emitted."""
from vlib.rules import *

FILE = "compiler/src/ast/reassignment.rs"

SPEC = r"""
#[verifier::external_body] pub fn strlit_vs(s: &'static str) -> (r: VString) ensures text_of(&r) == s@ { unimplemented!() }
#[verifier::external_body] pub struct CompilationState { x: usize }
#[verifier::external_body] pub struct Reg { x: usize }
pub uninterp spec fn reg_text(r: &Reg) -> Seq<char>;
impl ToVs for Reg {
    open spec fn as_num(&self) -> int { 0 }
    open spec fn as_text(&self) -> Seq<char> { reg_text(self) }
    #[verifier::external_body] fn to_vs(&self) -> (r: VString) { unimplemented!() }
}
#[verifier::external_body] pub fn poll_temporary_register(s: &mut CompilationState) -> (r: Reg) { unimplemented!() }
// children: arbitrary code, but THE code of that child
#[verifier::external_body] pub struct Value { x: usize }
#[verifier::external_body] pub struct IdentV { x: usize }
#[verifier::external_body] pub struct IndexV { x: usize }
#[verifier::external_body] pub struct ChainV { x: usize }
#[verifier::external_body] pub struct SelfTy { x: usize }
pub uninterp spec fn value_code(v: &Value) -> Option<Seq<CompiledItem>>;
pub uninterp spec fn ident_code(v: &IdentV) -> Option<Seq<CompiledItem>>;
pub uninterp spec fn index_code(v: &IndexV) -> Option<Seq<CompiledItem>>;
pub uninterp spec fn chain_code(v: &ChainV) -> Option<Seq<CompiledItem>>;
impl Value { #[verifier::external_body] pub fn compile(&self, s: &mut CompilationState) -> (r: Result<Vec<CompiledItem>, VErr>) ensures r is Ok <==> value_code(self) is Some, r is Ok ==> r->Ok_0@ == value_code(self)->Some_0 { unimplemented!() } }
impl IdentV { #[verifier::external_body] pub fn compile(&self, s: &mut CompilationState) -> (r: Result<Vec<CompiledItem>, VErr>) ensures r is Ok <==> ident_code(self) is Some, r is Ok ==> r->Ok_0@ == ident_code(self)->Some_0 { unimplemented!() } }
impl IndexV { #[verifier::external_body] pub fn compile(&self, s: &mut CompilationState) -> (r: Result<Vec<CompiledItem>, VErr>) ensures r is Ok <==> index_code(self) is Some, r is Ok ==> r->Ok_0@ == index_code(self)->Some_0 { unimplemented!() } }
impl ChainV { #[verifier::external_body] pub fn compile(&self, s: &mut CompilationState) -> (r: Result<Vec<CompiledItem>, VErr>) ensures r is Ok <==> chain_code(self) is Some, r is Ok ==> r->Ok_0@ == chain_code(self)->Some_0 { unimplemented!() } }
pub enum ReassignmentPath { Ident(IdentV), ReferenceToSelf(Option<SelfTy>), Index { lhs: Box<ReassignmentPath>, index: IndexV }, DotLookup { lhs: Box<ReassignmentPath>, dot_chain: ChainV, expected_type: SelfTy } }
// the code of a place: the root, then every link in order
pub open spec fn is_self_load(out: Seq<CompiledItem>) -> bool { out.len() == 1 && is_instr(out[0], LOAD_FAST) && nargs(out[0]) == 1 && argt(out[0], 0) == "self"@ }
pub open spec fn path_code(p: ReassignmentPath, out: Seq<CompiledItem>) -> bool decreases p {
    match p {
        ReassignmentPath::Ident(i) => ident_code(&i) == Some(out),
        ReassignmentPath::ReferenceToSelf(_) => is_self_load(out),
        ReassignmentPath::Index { lhs, index } => index_code(&index) is Some && out.len() >= index_code(&index)->Some_0.len()
            && path_code(*lhs, out.subrange(0, out.len() - index_code(&index)->Some_0.len())) && out.subrange(out.len() - index_code(&index)->Some_0.len(), out.len() as int) == index_code(&index)->Some_0,
        ReassignmentPath::DotLookup { lhs, dot_chain, .. } => chain_code(&dot_chain) is Some && out.len() >= chain_code(&dot_chain)->Some_0.len()
            && path_code(*lhs, out.subrange(0, out.len() - chain_code(&dot_chain)->Some_0.len())) && out.subrange(out.len() - chain_code(&dot_chain)->Some_0.len(), out.len() as int) == chain_code(&dot_chain)->Some_0,
    }
}
pub fn vec1(a: CompiledItem) -> (r: Vec<CompiledItem>) ensures r@ == seq![a] { let mut v = Vec::new(); v.push(a); v }
pub struct Reassignment { pub path: ReassignmentPath, pub value: Value }
"""


def push_literal(b):
    items, cur, d = [], [], 0
    for t in b["items"]:
        if t in ("(", "[", "{"): d += 1
        elif t in (")", "]", "}"): d -= 1
        if t == "," and d == 0:
            if cur: items.append(cur)
            cur = []
        else:
            cur.append(t)
    if cur: items.append(cur)
    if not items:
        return None
    return "{ " + " ".join("result . push ( " + text(i) + " ) ;" for i in items) + " }"


def build(repo):
    src = Source(repo)
    ids = opcode_ids(repo)
    log = []
    fp = src.fn(FILE, "compile", "impl Compile for ReassignmentPath")
    bp = translate(fp["body"], [
        r_instruction(ids),
        Rule("R12", "Ok ( vec ! [ $$a ] )", "Ok ( vec1 ( $$a ) )", why="vec![a]"),
        Rule("R13", "result . append ( & mut $$x . compile ( state ) ? ) ;", "let mut verif_piece = $$x . compile ( state ) ? ; let ghost verif_before = result@ ; result . append ( & mut verif_piece ) ;", why="temporary named"),
        Rule("R11", "Ok ( result )", [G("proof { assert(result@.subrange(0, result@.len() - verif_piece@.len() as int) =~= verif_before0); assert(result@.subrange(result@.len() - verif_piece0.len(), result@.len() as int) =~= verif_piece0); }"), "Ok ( result )"], why=""),
    ], log, "ReassignmentPath::compile")
    # the ghost names used in the final assertion: what `result` was before the append, and the appended piece
    bp = Rule("R11", "let ghost verif_before = result@ ;", G("let ghost verif_before0 = result@; let ghost verif_piece0 = verif_piece@;"), why="").apply(bp, log)
    bp = [t.replace("verif_piece@.len() as int", "verif_piece0.len()") if isinstance(t, str) else t for t in bp]
    check_closed(bp, "ReassignmentPath::compile")
    fr = src.fn(FILE, "compile", "impl Compile for Reassignment")
    br = translate(fr["body"], [
        Rule("R6", "state . poll_temporary_register ( )", "poll_temporary_register ( state )", why="register allocator abstract: a register"),
        Rule("R13", "result . append ( & mut self . path . compile ( state ) ? ) ;", ["let mut verif_path = self . path . compile ( state ) ? ;", G("let ghost verif_r1 = result@; let ghost verif_pc = verif_path@;"), "result . append ( & mut verif_path ) ;"], count=1, why="temporary named"),
        Rule("R11", "Ok ( result )", [G("proof { let v = value_code(&self.value)->Some_0; assert(result@.subrange(0, v.len() as int) =~= v); assert(result@.subrange(v.len() as int + 1, result@.len() - 2) =~= verif_pc); }"), "Ok ( result )"], count=1, why=""),
        Rule("R12", "result . append ( & mut vec ! [ $$items ] ) ;", push_literal, why="Vec::append of a vector literal: its items pushed in order"),
        r_instruction(ids),
    ], log, "Reassignment::compile")
    check_closed(br, "Reassignment::compile")
    gen = header(log, f"{FILE}: impl Compile for ReassignmentPath, impl Compile for Reassignment") + prelude("compile.rs").replace("pub struct CompilationState;", "") + \
        opcode_consts(ids, ["store", "load_fast", "ptr_mut"]) + SPEC + f"""
impl ReassignmentPath {{
    //@ OBL C08.reassign.path-code
    pub fn compile(&self, state: &mut CompilationState) -> (r: Result<Vec<CompiledItem>, VErr>)
        ensures r is Ok ==> path_code(*self, r->Ok_0@)
        decreases self
    {{
        proof {{ reveal_strlit("self"); }}
{render(bp, 2)}
    }}
}}
impl Reassignment {{
    //@ OBL C08.reassign.layout
    pub fn compile(&self, state: &mut CompilationState) -> (r: Result<Vec<CompiledItem>, VErr>)
        ensures r is Ok ==> value_code(&self.value) is Some && ({{ let v = value_code(&self.value)->Some_0; let out = r->Ok_0@; let n = out.len() as int;
            // value ; park ; place ; fetch ; write -- the value evaluated once, exactly one `ptr_mut`, the last instruction
            &&& n >= v.len() + 3 && out.subrange(0, v.len() as int) == v
            &&& is_instr(out[v.len() as int], STORE) && nargs(out[v.len() as int]) == 1
            &&& path_code(self.path, out.subrange(v.len() as int + 1, n - 2))
            &&& is_instr(out[n - 2], LOAD_FAST) && nargs(out[n - 2]) == 1 && argt(out[n - 2], 0) == argt(out[v.len() as int], 0)
            &&& is_instr(out[n - 1], PTR_MUT) && nargs(out[n - 1]) == 0 }}),
    {{
{render(br, 2)}
    }}
}}
}} // verus!
fn main() {{}}
"""
    return gen, [Obl("C08.reassign.path-code", ["C08", "C13"], fn="ReassignmentPath::compile", desc="the code of a place: the root (a name's own code, or `load_fast self`), then every `[i]` / `.f` link's own code, in order, each once"),
                 Obl("C08.reassign.layout", ["C08", "C13", "C01"], fn="Reassignment::compile", desc="`place = value`: value code; `store reg`; place code; `load_fast reg`; `ptr_mut` -- the value once, parked and fetched from the same register, exactly one write, nothing behind it")], log


UNITS = [VUnit("c08_reassign_compile", ["C08", "C13", "C01"], "the code of element / field assignment", build)]
UNITS[0].assumes = ["children's compile abstract (Value, Ident, Index, DotChain): arbitrary code, but THE code of that child; their own layouts: c01_leaf_compile, c13_index_compile, c08_dot_call",
                    "the register allocator hands out a register (freshness: units c15_*)"]

"""C10: where a declaration is recorded -- Scope::add_dependency and Scope::contains (compiler/src/scope.rs).  Every const test reads the
identifier a scope holds for a name.  A declaration -- the first of a name or a re-declaration (`x = 5; const x = 6`) -- must leave exactly
the identifier that was declared in the scope: its type AND its const flag.  An entry that keeps the old flag makes every later guard see a
mutable variable where a `const` was declared."""
from vlib.rules import *

FILE = "compiler/src/scope.rs"

SPEC = r"""
use vstd::prelude::*;
verus! {
#[verifier::external_body] pub struct TypeV { x: usize }
#[verifier::external_body] pub struct NameV { x: usize }
pub uninterp spec fn name_text(n: NameV) -> Seq<char>;
pub struct Ident { pub name: NameV, pub ty: Option<TypeV>, pub read_only: bool }
impl Ident {
    #[verifier::external_body] pub fn clone(&self) -> (r: Ident) ensures r == *self { unimplemented!() }
    #[verifier::external_body] pub fn name(&self) -> (r: &NameV) ensures *r == self.name { unimplemented!() }
    // Ident::clone_with_type (obligation C10.ident.clone_with_type): same name and flag, another type
    #[verifier::external_body] pub fn clone_with_type(&self, t: TypeV) -> (r: Ident) ensures r.name == self.name, r.read_only == self.read_only, r.ty == Some(t) { unimplemented!() }
    #[verifier::external_body] pub fn ty(&self) -> (r: Result<&TypeV, ()>) ensures r is Ok <==> self.ty is Some, r is Ok ==> *r->Ok_0 == self.ty->Some_0 { unimplemented!() }
}
#[verifier::external_body] pub fn clone_ty(t: &TypeV) -> (r: TypeV) ensures r == *t { unimplemented!() }
// HashSet<Ident> where Ident hashes and compares by NAME only: a finite map from the name's text to the stored identifier
#[verifier::external_body] pub struct VarSet { x: usize }
pub uninterp spec fn vars(s: &VarSet) -> Map<Seq<char>, Ident>;
impl VarSet {
    // HashSet::replace: stores the value, returns the equal (= same-named) one it displaced
    #[verifier::external_body] pub fn replace(&mut self, v: Ident) -> (r: Option<Ident>)
        ensures vars(final(self)) == vars(old(self)).insert(name_text(v.name), v),
                r == (if vars(old(self)).contains_key(name_text(v.name)) { Some(vars(old(self))[name_text(v.name)]) } else { None::<Ident> }) { unimplemented!() }
    // HashSet::insert: does NOT touch an equal (= same-named) element that is already there
    #[verifier::external_body] pub fn insert(&mut self, v: Ident) -> (r: bool)
        ensures vars(final(self)) == (if vars(old(self)).contains_key(name_text(v.name)) { vars(old(self)) } else { vars(old(self)).insert(name_text(v.name), v) }) { unimplemented!() }
    // HashSet::take: removes and returns the equal element
    #[verifier::external_body] pub fn take(&mut self, v: &Ident) -> (r: Option<Ident>)
        ensures vars(final(self)) == vars(old(self)).remove(name_text(v.name)),
                r == (if vars(old(self)).contains_key(name_text(v.name)) { Some(vars(old(self))[name_text(v.name)]) } else { None::<Ident> }) { unimplemented!() }
    #[verifier::external_body] pub fn remove(&mut self, v: &Ident) -> (r: bool) ensures vars(final(self)) == vars(old(self)).remove(name_text(v.name)) { unimplemented!() }
}
pub struct Scope { pub variables: VarSet }
"""


def build(repo):
    src = Source(repo)
    log = []
    f = src.fn(FILE, "add_dependency", "impl Scope")
    b = translate(f["body"], [
        Rule("R3", "log :: debug ! ( $$a ) ;", "", why="logging dropped"),
        Rule("R3", "log :: debug ! ( $$a )", "", why="logging dropped"),
        Rule("R1", "dependency . ty ( ) . unwrap ( ) . clone ( )", "clone_ty ( dependency . ty ( ) . unwrap ( ) )", why="Cow<TypeLayout>::clone"),
    ], log, "Scope::add_dependency")
    check_closed(b, "Scope::add_dependency")
    gen = header(log, f"{FILE}: Scope::add_dependency") + SPEC + f"""
impl Scope {{
    //@ OBL C10.scope.add
    pub fn add_dependency(&mut self, dependency: &Ident)
        requires dependency.ty is Some          // only typed identifiers are registered (their callers link a type first)
        ensures
            // the scope now holds, for that name, exactly the identifier that was declared -- type and const flag -- and nothing else changed
            vars(&final(self).variables) == vars(&old(self).variables).insert(name_text(dependency.name), *dependency),
    {{
{render(b, 2)}
    }}
}}
}} // verus!
fn main() {{}}
"""
    return gen, [Obl("C10.scope.add", ["C10", "C02"], fn="Scope::add_dependency", desc="Scope::add_dependency: the scope holds exactly the declared identifier (type and const flag) for that name, also when the name was already there")], log


UNITS = [VUnit("c10_scope_add", ["C10", "C02"], "a (re-)declaration leaves exactly the declared identifier in the scope", build)]
UNITS[0].assumes = ["HashSet<Ident> with Ident hashed / compared by name: modelled as a finite map from the name (assumed std contracts of replace / insert / take)"]

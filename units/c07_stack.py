"""C07 / C01 / C17: bytecode/src/stack.rs -- where a `store` writes (the shared cell of the visible variable, in place), what a name
lookup finds (innermost frame first), and what the trace of a failure lists (the active frames, innermost first, each once)."""
from vlib.rules import *

FILE = "bytecode/src/stack.rs"

SPEC = r"""
use vstd::prelude::*;
verus! {
pub struct VErr;
#[verifier::external_body] pub struct VString { x: usize }
pub uninterp spec fn text_of(s: &VString) -> Seq<char>;
#[verifier::external_body] pub struct Primitive { x: usize }
// ---- variables: a frame maps names to HANDLES of shared cells (PrimitiveFlagsPair = Gc<GcCell<(value, flags)>>) ----
#[derive(Clone, Copy)]
pub struct VariableFlags(pub u8);
pub uninterp spec fn ro_bit() -> u8;        // flag_constants::READ_ONLY
pub uninterp spec fn local_bit() -> u8;     // flag_constants::LOCAL_FRAME_ONLY
impl VariableFlags {
    #[verifier::external_body] pub fn is_read_only(&self) -> (r: bool) ensures r == (self.0 & ro_bit() == ro_bit()) { unimplemented!() }
    #[verifier::external_body] pub fn is_exclusive_to_frame(&self) -> (r: bool) ensures r == (self.0 & local_bit() == local_bit()) { unimplemented!() }
    pub fn bits(&self) -> (r: u8) ensures r == self.0 { self.0 }
    #[verifier::external_body] pub fn can_update(&self) -> (r: bool) ensures r == !(self.0 & ro_bit() == ro_bit()) { unimplemented!() }
}
#[verifier::external_body] pub struct Handle { x: usize }
pub uninterp spec fn cell_id(h: &Handle) -> int;
pub uninterp spec fn flags_of(h: &Handle) -> VariableFlags;        // flags are fixed when the cell is created
// the heap of cells: what every handle of a cell sees
#[verifier::external_body] pub struct Cells { x: usize }
pub uninterp spec fn cells(c: &Cells) -> Map<int, Primitive>;
impl Handle {
    #[verifier::external_body] pub fn flags(&self) -> (r: VariableFlags) ensures r == flags_of(self) { unimplemented!() }
}
// mapping.set_primitive(var): the cell's content is replaced, for every handle of that cell
#[verifier::external_body] pub fn set_primitive(h: &Handle, var: Primitive, c: &mut Cells)
    ensures cells(final(c)) == cells(old(c)).insert(cell_id(h), var) { unimplemented!() }
// PrimitiveFlagsPair::new: a fresh cell (an id no existing handle has)
#[verifier::external_body] pub fn new_pair(var: Primitive, flags: VariableFlags, c: &mut Cells) -> (h: Handle)
    ensures !cells(old(c)).contains_key(cell_id(&h)), cells(final(c)) == cells(old(c)).insert(cell_id(&h), var), flags_of(&h) == flags { unimplemented!() }
#[verifier::external_body] pub struct Vars { x: usize }                // VariableMapping(HashMap<String, PrimitiveFlagsPair>)
pub uninterp spec fn vars(v: &Vars) -> Map<Seq<char>, Handle>;
impl Vars {
    // HashMap::get + clone of the Gc handle: a handle of the SAME cell
    #[verifier::external_body] pub fn get(&self, name: &VString) -> (r: Option<Handle>)
        ensures r is Some <==> vars(self).contains_key(text_of(name)), r is Some ==> r->Some_0 == vars(self)[text_of(name)] { unimplemented!() }
    #[verifier::external_body] pub fn insert(&mut self, name: VString, h: Handle)
        ensures vars(final(self)) == vars(old(self)).insert(text_of(&name), h) { unimplemented!() }
}
#[verifier::external_body] pub fn vs_eq(a: &VString, b: &VString) -> (r: bool) ensures r == (text_of(a) == text_of(b)) { unimplemented!() }
pub struct StackFrame { pub label: VString, pub variables: Vars }
pub struct Stack(pub Vec<StackFrame>);
pub uninterp spec fn special(label: Seq<char>) -> bool;          // SpecialScope::is_label_special_scope: <if>, <else>, <while> block frames
#[verifier::external_body] pub fn is_label_special_scope(l: &VString) -> (r: bool) ensures r == special(text_of(l)) { unimplemented!() }

// the frame in which a plain `name = value` finds an existing variable: searching from the innermost frame outwards through the block
// frames of the current function up to and including the function's own frame, not beyond. (-1: none)
pub open spec fn store_frame(fr: Seq<StackFrame>, name: Seq<char>, i: int) -> int decreases i {
    if i <= 0 || i > fr.len() { -1 }
    else if vars(&fr[i - 1].variables).contains_key(name) { i - 1 }
    else if !special(text_of(&fr[i - 1].label)) { -1 }
    else { store_frame(fr, name, i - 1) }
}
// what a name lookup (load) finds: the innermost frame that has the name with a handle not marked frame-exclusive, over the WHOLE call stack
pub open spec fn find_frame(fr: Seq<StackFrame>, name: Seq<char>, i: int) -> int decreases i {
    if i <= 0 || i > fr.len() { -1 }
    else if vars(&fr[i - 1].variables).contains_key(name) && !(flags_of(&vars(&fr[i - 1].variables)[name]).0 & local_bit() == local_bit()) { i - 1 }
    else { find_frame(fr, name, i - 1) }
}
// the frame of the executing function: the innermost frame that is not an if / else / loop block frame (-1: none)
pub open spec fn fn_frame(fr: Seq<StackFrame>, i: int) -> int decreases i {
    if i <= 0 || i > fr.len() { -1 } else if !special(text_of(&fr[i - 1].label)) { i - 1 } else { fn_frame(fr, i - 1) }
}
pub open spec fn labels(fr: Seq<StackFrame>) -> Seq<VString> { Seq::new(fr.len(), |i: int| fr[i].label) }
// ---- the trace text (Display): a writer that records what is written
pub enum Piece { Empty, Cause(VString), Caller(VString), Other }
#[verifier::external_body] pub struct Fmt { x: usize }
pub uninterp spec fn written(f: &Fmt) -> Seq<Piece>;
#[verifier::external_body] pub fn write_empty(f: &mut Fmt) -> (r: Result<(), VErr>) ensures r is Ok ==> written(final(f)) == written(old(f)).push(Piece::Empty) { unimplemented!() }
#[verifier::external_body] pub fn write_cause(f: &mut Fmt, l: &VString) -> (r: Result<(), VErr>) ensures r is Ok ==> written(final(f)) == written(old(f)).push(Piece::Cause(*l)) { unimplemented!() }
// any other text a change may add to the trace: it is not a frame
#[verifier::external_body] pub fn write_other(f: &mut Fmt) -> (r: Result<(), VErr>) ensures r is Ok ==> written(final(f)) == written(old(f)).push(Piece::Other) { unimplemented!() }
#[verifier::external_body] pub fn write_caller(f: &mut Fmt, l: &VString) -> (r: Result<(), VErr>) ensures r is Ok ==> written(final(f)) == written(old(f)).push(Piece::Caller(*l)) { unimplemented!() }
"""


def rev_loop(label, invariant, vec="self . 0", hi=None):
    """R2: `for x in v.iter().rev() { B }` -> index counting down"""
    def repl(b):
        x = text(b["x"])
        k = f"verif_k_{label}"
        top = hi or f"{vec} . len ( )"
        return [f"let mut {k} : usize = {top} ; while {k} > 0", G(invariant.replace("$K", k)), "{", f"{k} -= 1 ; let {x} = & {vec} [ {k} ] ;", *b["body"], "}"]
    return repl


def build(repo):
    src = Source(repo)
    log = []
    common = [
        Rule("R3", "bail ! $a", "return Err ( VErr )", why="bail! -> return Err"),
        Rule("R3", "log :: trace ! $a ;", "", why="logging dropped"),
        Rule("R1", "SpecialScope :: is_label_special_scope ( & $f . label )", "is_label_special_scope ( & $f . label )", why="label test abstract"),
    ]
    # ---- register_variable_flags
    frv = src.fn(FILE, "register_variable_flags", "impl Stack")
    inv = ("invariant_except_break $K <= self.0@.len(), store_frame(self.0@, text_of(&name), self.0@.len() as int) == store_frame(self.0@, text_of(&name), $K as int), "
           "self.0 == old(self).0, cells(heap) == cells(old(heap)) "
           "invariant true ensures store_frame(self.0@, text_of(&name), self.0@.len() as int) == -1, self.0 == old(self).0, cells(heap) == cells(old(heap)) decreases $K")
    brv = translate(frv["body"], common + [
        Rule("R2", "for $x in self . 0 . iter ( ) . rev ( ) { $$body }", rev_loop("rv", inv), count=1, why="for over iter().rev() -> index counting down (innermost frame first)"),
        Rule("R1", "if let Some ( ref mapping ) = frame . variables . get ( & name )", "if let Some ( mapping ) = frame . variables . get ( & name )", why="ref binding on an owned handle"),
        Rule("R10", "mapping . set_primitive ( var ) ;", "set_primitive ( & mapping , var , heap ) ;", why="write through the Gc cell: explicit heap (R10)"),
        Rule("R1", "self . register_variable_local ( name . into_owned ( ) , var , flags ) ?", "self . register_variable_local ( name , var , flags , heap ) ?", why="Cow<str> -> String; heap threaded"),
    ], log, "Stack::register_variable_flags")
    check_closed(brv, "register_variable_flags")
    # ---- register_variable_local
    frl = src.fn(FILE, "register_variable_local", "impl Stack")
    brl = translate(frl["body"], common + [
        Rule("R13", "let stack_frame = self . 0 . last_mut ( ) . context ( $m ) ? ; let variables = & mut stack_frame . variables . 0 ; variables . insert ( name , PrimitiveFlagsPair :: new ( var , flags ) ) ;",
             "if self . 0 . len ( ) == 0 { return Err ( VErr ) ; } let verif_h = new_pair ( var , flags , heap ) ; let mut verif_top = self . 0 . pop ( ) . unwrap ( ) ; verif_top . variables . insert ( name , verif_h ) ; self . 0 . push ( verif_top ) ;",
             count=1, why="&mut into the last frame -> take / mutate / put back; PrimitiveFlagsPair::new allocates a fresh cell"),
    ], log, "Stack::register_variable_local")
    check_closed(brl, "register_variable_local")
    # ---- find_name / find_name_in_function
    ffn = src.fn(FILE, "find_name", "impl Stack")
    invf = ("invariant_except_break $K <= self.0@.len(), find_frame(self.0@, text_of(name), self.0@.len() as int) == find_frame(self.0@, text_of(name), $K as int) "
            "invariant true ensures find_frame(self.0@, text_of(name), self.0@.len() as int) == -1 decreases $K")
    bfn = translate(ffn["body"], common + [
        Rule("R2", "for $x in self . 0 . iter ( ) . rev ( ) { $$body }", rev_loop("fn", invf), count=1, why="for over iter().rev() -> index counting down (innermost frame first)"),
    ], log, "Stack::find_name")
    check_closed(bfn, "find_name")

    # ---- get_executing_function_label / pop_until_function / VariableMapping::update
    fel = src.fn(FILE, "get_executing_function_label", "impl Stack")
    inve = ("invariant_except_break $K <= self.0@.len(), fn_frame(self.0@, self.0@.len() as int) == fn_frame(self.0@, $K as int) "
            "invariant true ensures fn_frame(self.0@, self.0@.len() as int) == -1 decreases $K")
    bel = translate(fel["body"], common + [Rule("R2", "for $x in self . 0 . iter ( ) . rev ( ) { $$body }", rev_loop("el", inve), count=1, why="for over iter().rev() -> index counting down")], log, "Stack::get_executing_function_label")
    check_closed(bel, "get_executing_function_label")
    fpf = src.fn(FILE, "pop_until_function", "impl Stack")
    invp = ("invariant_except_break $K <= self.0@.len(), c == 1 + (self.0@.len() - $K), fn_frame(self.0@, self.0@.len() as int) == fn_frame(self.0@, $K as int), self.0 == old(self).0 "
            "invariant c <= self.0@.len() + 1, self.0@.len() < usize::MAX ensures self.0 == old(self).0, (fn_frame(self.0@, self.0@.len() as int) >= 0 ==> c == self.0@.len() - fn_frame(self.0@, self.0@.len() as int)), "
            "(fn_frame(self.0@, self.0@.len() as int) < 0 ==> c == self.0@.len() + 1) decreases $K")
    bpf = translate(fpf["body"], common + [
        Rule("R2", "for $x in self . 0 . iter ( ) . rev ( ) { $$body }", rev_loop("pf", invp), count=1, why="for over iter().rev() -> index counting down"),
        Rule("R13", "let popped = self . 0 . drain ( $$r .. ) ;", "self . 0 . truncate ( $$r ) ;", count=1, why="Vec::drain(k..) dropped immediately = truncate(k)"),
        Rule("R3", "log :: trace ! ( $$a ) ;", "", why="logging dropped"),
        Rule("R1", "let mut c = 1 ;", "let mut c : usize = 1 ;", why="integer literal type (usize: it is subtracted from size())"),
    ], log, "Stack::pop_until_function")
    check_closed(bpf, "pop_until_function")
    fup = src.fn(FILE, "update", "impl VariableMapping")
    bup = translate(fup["body"], common + [
        Rule("R1", "self . 0 . get ( name )", "self . get ( name )", why="HashMap::get on the wrapped map"),
        Rule("R10", "pair . set_primitive ( value ) ;", "set_primitive ( & pair , value , heap ) ;", why="write through the Gc cell: explicit heap (R10)"),
    ], log, "VariableMapping::update")
    check_closed(bup, "VariableMapping::update")
    # ---- Display
    fd = src.fn(FILE, "fmt", "impl Display for Stack")
    invd = ("invariant $K <= self.0@.len(), self.0@.len() >= 1, written(f) == written(old(f)).push(Piece::Cause(self.0@.last().label)) + callers(self.0@, self.0@.len() - 1, $K as int) decreases $K")
    bd = translate(fd["body"], [
        Rule("R9", "return write ! ( f , \"<Empty Stack>\" ) ;", "return write_empty ( f ) ;", count=1, why="write! of a fixed text"),
        Rule("R9", "write ! ( f , \"\\t>> {}\" , first . label ) ? ;", "write_cause ( f , & first . label ) ? ;", count=1, why="write! of the `>>` line (innermost frame: where the failure happened)"),
        Rule("R9", "write ! ( f , \"\\r\\n\\t ^ {}\" , stack_frame . label ) ? ;", "write_caller ( f , & stack_frame . label ) ? ;", count=1, why="write! of one `^` caller line"),
        Rule("R9", "write ! ( f , $$a ) ? ;", "write_other ( f ) ? ;", why="any other write!: text that is not a frame of the trace"),
        Rule("R2", "for $x in self . 0 [ .. self . size ( ) - 1 ] . iter ( ) . rev ( ) { $$body }", rev_loop("d", invd.replace("$K <= self.0@.len(),", "$K <= self.0@.len() - 1,"), hi="self . size ( ) - 1"),
             why="for over slice[..n-1].iter().rev() -> index counting down from n-1 (R8: n >= 1 here)"),
        Rule("R2", "for $x in self . 0 . iter ( ) . rev ( ) { $$body }", rev_loop("d", invd), why="for over iter().rev() -> index counting down"),
        Rule("R1", "$a . label == $b . label", "vs_eq ( & $a . label , & $b . label )", why="String equality (abstract)"),
        Rule("R1", "self . 0 . last ( )", "vec_last_frame ( & self . 0 )", why="slice::last with its std contract"),
    ], log, "Display for Stack")
    bd = Rule("R11", "write_caller ( f , & stack_frame . label ) ? ;", ["write_caller ( f , & stack_frame . label ) ? ;",
              G("proof { if verif_k_d < self.0@.len() - 1 { lemma_callers_step(self.0@, self.0@.len() - 1, verif_k_d as int); } }")], count=1, why="").apply(bd, log)
    check_closed(bd, "Display for Stack")
    gen = header(log, f"{FILE}: Stack::register_variable_flags, register_variable_local, find_name, Display for Stack") + SPEC + f"""
pub fn vec_last_frame(v: &Vec<StackFrame>) -> (r: Option<&StackFrame>) ensures v@.len() == 0 ==> r is None, v@.len() > 0 ==> r == Some(&v@.last()) {{ if v.len() == 0 {{ None }} else {{ Some(&v[v.len() - 1]) }} }}
// callers listed so far: frames hi-1, hi-2, .., k (each once, innermost first)
pub open spec fn callers(fr: Seq<StackFrame>, hi: int, k: int) -> Seq<Piece> decreases hi - k {{
    if k >= hi {{ Seq::<Piece>::empty() }} else {{ callers(fr, hi, k + 1).push(Piece::Caller(fr[k].label)) }}
}}
pub proof fn lemma_callers_step(fr: Seq<StackFrame>, hi: int, k: int) requires 0 <= k < hi ensures callers(fr, hi, k) == callers(fr, hi, k + 1).push(Piece::Caller(fr[k].label)) {{ }}

impl Vars {{
    //@ OBL C07.mapping.update
    // `modify x = v` inside a closure: the captured variable's OWN cell is overwritten (the owner and every other closure see it)
    pub fn update(&self, name: &VString, value: Primitive, heap: &mut Cells) -> (r: Result<(), VErr>)
        ensures
            r is Ok <==> (vars(self).contains_key(text_of(name)) && !(flags_of(&vars(self)[text_of(name)]).0 & ro_bit() == ro_bit())),
            r is Ok ==> cells(final(heap)) == cells(old(heap)).insert(cell_id(&vars(self)[text_of(name)]), value),
            r is Err ==> cells(final(heap)) == cells(old(heap)),
    {{
{render(bup, 2)}
    }}
}}
impl Stack {{
    pub fn size(&self) -> (r: usize) ensures r == self.0@.len() {{ self.0.len() }}

    //@ OBL C07.stack.register_local
    pub fn register_variable_local(&mut self, name: VString, var: Primitive, flags: VariableFlags, heap: &mut Cells) -> (r: Result<(), VErr>)
        ensures
            old(self).0@.len() == 0 <==> r is Err,
            r is Ok ==> ({{
                let n = old(self).0@.len();
                let top = final(self).0@.last();
                // only the innermost frame changes: the name is (re)bound there to a FRESH cell holding the value
                &&& final(self).0@.len() == n && final(self).0@.subrange(0, n - 1) == old(self).0@.subrange(0, n - 1) && top.label == old(self).0@.last().label
                &&& vars(&top.variables).dom() == vars(&old(self).0@.last().variables).dom().insert(text_of(&name))
                &&& forall|k: Seq<char>| k != text_of(&name) && vars(&top.variables).contains_key(k) ==> vars(&top.variables)[k] == vars(&old(self).0@.last().variables)[k]
                &&& !cells(old(heap)).contains_key(cell_id(&vars(&top.variables)[text_of(&name)]))
                &&& cells(final(heap)) == cells(old(heap)).insert(cell_id(&vars(&top.variables)[text_of(&name)]), var)
                &&& flags_of(&vars(&top.variables)[text_of(&name)]) == flags
            }}),
    {{
{render(brl, 2)}
    }}

    //@ OBL C07.stack.store
    // `name = value` (store): C07 capture by reference needs an existing variable to be updated IN ITS CELL, so that every closure
    // that captured it sees the new value; C01: a block frame of the current function sees the function's variables
    pub fn register_variable_flags(&mut self, name: VString, var: Primitive, flags: VariableFlags, heap: &mut Cells) -> (r: Result<(), VErr>)
        ensures ({{
            let fr = old(self).0@;
            let i = store_frame(fr, text_of(&name), fr.len() as int);
            if i >= 0 {{
                let h = vars(&fr[i].variables)[text_of(&name)];
                let ok = !(flags_of(&h).0 & ro_bit() == ro_bit()) && (flags.0 | flags_of(&h).0) == flags_of(&h).0;
                // the visible variable's own cell is overwritten; no frame is touched, no new cell appears
                &&& (r is Ok <==> ok)
                &&& final(self).0 == old(self).0
                &&& (r is Ok ==> cells(final(heap)) == cells(old(heap)).insert(cell_id(&h), var))
                &&& (r is Err ==> cells(final(heap)) == cells(old(heap)))
            }} else {{
                // no such variable in the current function: declared in the innermost frame (fresh cell)
                &&& (r is Ok <==> fr.len() > 0)
                &&& (r is Ok ==> final(self).0@.len() == fr.len() && final(self).0@.subrange(0, fr.len() - 1) == fr.subrange(0, fr.len() - 1)
                        && vars(&final(self).0@.last().variables).contains_key(text_of(&name))
                        && !cells(old(heap)).contains_key(cell_id(&vars(&final(self).0@.last().variables)[text_of(&name)]))
                        && cells(final(heap)) == cells(old(heap)).insert(cell_id(&vars(&final(self).0@.last().variables)[text_of(&name)]), var))
            }}
        }}),
    {{
{render(brv, 2)}
    }}


    //@ OBL C01.stack.executing_function
    // the target of a recursive `self(...)` call: the function whose body is executing, whatever blocks (if / else / loops) are open in it
    pub fn get_executing_function_label(&self) -> (r: Option<&VString>)
        ensures ({{
            let i = fn_frame(self.0@, self.0@.len() as int);
            &&& (r is Some <==> i >= 0)
            &&& (r is Some ==> *r->Some_0 == self.0@[i].label)
        }}),
    {{
{render(bel, 2)}
    }}

    //@ OBL C01.stack.pop_until_function
    // `return`: closes the executing function's frame and every block frame open in it -- nothing of the caller
    pub fn pop_until_function(&mut self)
        requires old(self).0@.len() < usize::MAX,          // (the counter `c` reaches len + 1 at most)
                 fn_frame(old(self).0@, old(self).0@.len() as int) >= 0            // (R8) a function frame exists: `size - c` would underflow otherwise
        ensures final(self).0@ == old(self).0@.subrange(0, fn_frame(old(self).0@, old(self).0@.len() as int)),
    {{
{render(bpf, 2)}
    }}

    //@ OBL C07.stack.find_name
    pub fn find_name(&self, name: &VString) -> (r: Option<Handle>)
        ensures ({{
            let i = find_frame(self.0@, text_of(name), self.0@.len() as int);
            &&& (r is Some <==> i >= 0)
            &&& (r is Some ==> r->Some_0 == vars(&self.0@[i].variables)[text_of(name)])       // a handle of the same cell: reads see later writes
        }}),
    {{
{render(bfn, 2)}
    }}

    //@ OBL C17.trace.display
    // the trace of a failure: `>>` the innermost active frame, then every other active frame exactly once, innermost first
    #[verifier::loop_isolation(false)]
    pub fn fmt(&self, f: &mut Fmt) -> (r: Result<(), VErr>)
        ensures r is Ok ==> (if self.0@.len() == 0 {{ written(final(f)) == written(old(f)).push(Piece::Empty) }}
                             else {{ written(final(f)) == written(old(f)).push(Piece::Cause(self.0@.last().label)) + callers(self.0@, self.0@.len() - 1, 0) }}),
    {{
{render(bd, 2)}
    }}

    //@ KF C17.trace.functions-only
    // the property's wording: the trace lists exactly the FUNCTIONS AND METHODS active at the point of failure -- the same text also lists the
    // `<if>` / `<else>` / `<while>` block frames above them (known finding D102)
    #[verifier::loop_isolation(false)]
    pub fn fmt_functions_only(&self, f: &mut Fmt) -> (r: Result<(), VErr>)
        ensures r is Ok ==> forall|i: int| written(old(f)).len() <= i < written(final(f)).len() ==> match (#[trigger] written(final(f))[i]) {{
            Piece::Cause(l) => !special(text_of(&l)), Piece::Caller(l) => !special(text_of(&l)), _ => true }},
    {{
{render(bd, 2)}
    }}
}}
}} // verus!
fn main() {{}}
"""
    obls = [
        Obl("C07.mapping.update", ["C07", "C08"], fn="VariableMapping::update", desc="VariableMapping::update (modify): the captured variable's own cell is overwritten; missing or read-only name fails; nothing else changes"),
        Obl("C01.stack.executing_function", ["C01"], fn="Stack::get_executing_function_label", desc="get_executing_function_label: the innermost frame that is not an if/else/loop block frame"),
        Obl("C01.stack.pop_until_function", ["C01", "C09"], fn="Stack::pop_until_function", desc="pop_until_function (return): removes the executing function's frame and all block frames above it, nothing below"),
        Obl("C07.stack.register_local", ["C07", "C01"], fn="Stack::register_variable_local", desc="register_variable_local: binds the name in the innermost frame to a fresh cell holding the value; nothing else changes"),
        Obl("C07.stack.store", ["C07", "C01", "C10"], fn="Stack::register_variable_flags", desc="register_variable_flags (store): an existing variable of the current function (block frames up to and including the function frame) is overwritten in its own shared cell -- frames untouched, no new cell; read-only / new-flag stores fail; otherwise a fresh local in the innermost frame"),
        Obl("C07.stack.find_name", ["C07", "C01"], fn="Stack::find_name", desc="find_name (load): the innermost frame of the whole call stack that has the name (and is not frame-exclusive); the returned handle is of the same cell"),
        Obl("C17.trace.functions-only", ["C17"], kind="kf", finding="D102", fn="Display for Stack", desc="the trace lists only function and method frames -- known finding D102: it also lists the block frames (`<if>`, `<else>`, `<while>`) that are active above them"),
        Obl("C17.trace.display", ["C17", "C19"], fn="Display for Stack", desc="Display for Stack: `>>` innermost frame, then each remaining active frame exactly once, innermost first"),
    ]
    return gen, obls, log


UNITS = [VUnit("c07_stack", ["C07", "C01", "C17", "C10", "C08", "C09", "C19"], "call stack: store into the shared cell, lookup order, trace listing", build)]
UNITS[0].assumes = ["Gc<GcCell<..>> as an explicit heap of cells (R10): a handle denotes a cell, clones alias it, PrimitiveFlagsPair::new allocates an unused cell; flags are fixed per cell",
                    "HashMap<String, _> as a finite map; label classification (SpecialScope::is_label_special_scope) abstract",
                    "Display: write! of the three fixed formats is modelled as appending one piece; the texts `\\t>> ` / `\\r\\n\\t ^ ` themselves are not compared"]


# =====================================================================================================================
# the remaining frame operations of Stack: extend, pop, size, ref_variable, delete_variable_local, register_variable, find_name_in_function
FRAME_SPEC = r"""
impl Vars {
    #[verifier::external_body] pub fn remove(&mut self, name: &VString) -> (r: Option<Handle>)
        ensures r is Some <==> vars(old(self)).contains_key(text_of(name)), r is Some ==> r->Some_0 == vars(old(self))[text_of(name)] && vars(final(self)) == vars(old(self)).remove(text_of(name)),
                r is None ==> vars(final(self)) == vars(old(self)) { unimplemented!() }
}
#[verifier::external_body] pub fn empty_vars() -> (r: Vars) ensures vars(&r) == Map::<Seq<char>, Handle>::empty() { unimplemented!() }          // VariableMapping::default()
#[verifier::external_body] pub fn cow_into_owned(s: VString) -> (r: VString) ensures text_of(&r) == text_of(&s) { unimplemented!() }
pub fn flags_none() -> (r: VariableFlags) ensures r.0 == 0 { VariableFlags(0) }
// what `load_fast` / `store`'s lookup of a name of the EXECUTING FUNCTION finds: innermost frame first, through the block frames of the function up to and
// including the function's own frame -- not beyond -- skipping handles marked frame-exclusive (-1: none)
pub open spec fn fnfind_frame(fr: Seq<StackFrame>, name: Seq<char>, i: int) -> int decreases i {
    if i <= 0 || i > fr.len() { -1 }
    else if vars(&fr[i - 1].variables).contains_key(name) && !(flags_of(&vars(&fr[i - 1].variables)[name]).0 & local_bit() == local_bit()) { i - 1 }
    else if vars(&fr[i - 1].variables).contains_key(name) { fnfind_frame(fr, name, i - 1) }         // exclusive to that frame: the search goes on (also past a function frame: the code `continue`s)
    else if !special(text_of(&fr[i - 1].label)) { -1 }
    else { fnfind_frame(fr, name, i - 1) }
}
"""


def build_frames(repo):
    src = Source(repo)
    log = []
    common = [
        Rule("R3", "bail ! $a", "return Err ( VErr )", why="bail! -> return Err"),
        Rule("R3", "log :: trace ! $a ;", "", why="logging dropped"),
        Rule("R1", "SpecialScope :: is_label_special_scope ( & $f . label )", "is_label_special_scope ( & $f . label )", why="label test abstract"),
    ]
    fns = {}
    fns["extend"] = translate(list(src.fn(FILE, "extend", "impl Stack")["body"]), common + [
        Rule("R1", "VariableMapping :: default ( )", "empty_vars ( )", why="an empty variable mapping")], log, "Stack::extend")
    fns["size"] = translate(list(src.fn(FILE, "size", "impl Stack")["body"]), common, log, "Stack::size")
    fns["pop"] = translate(list(src.fn(FILE, "pop", "impl Stack")["body"]), common + [
        Rule("R8", "let popped = self . 0 . pop ( ) . expect ( $m ) ;", "let popped = self . 0 . pop ( ) . unwrap ( ) ;", why="expect: a panic precondition (R8: a frame exists)")], log, "Stack::pop")
    fns["ref_variable"] = translate(list(src.fn(FILE, "ref_variable", "impl Stack")["body"]), common + [
        Rule("R13", "let stack_frame = self . 0 . last_mut ( ) . expect ( $m ) ; let variables = & mut stack_frame . variables . 0 ; variables . insert ( name . into_owned ( ) , var ) ;",
             "let mut verif_top = self . 0 . pop ( ) . unwrap ( ) ; verif_top . variables . insert ( cow_into_owned ( name ) , var ) ; self . 0 . push ( verif_top ) ;", count=1,
             why="&mut into the last frame -> take / mutate / put back (expect: R8)")], log, "Stack::ref_variable")
    fns["delete_variable_local"] = translate(list(src.fn(FILE, "delete_variable_local", "impl Stack")["body"]), common + [
        Rule("R13", "let frame = self . 0 . last_mut ( ) . expect ( $m ) ; frame . variables . 0 . remove ( name ) . ok_or ( $$e )",
             "let mut verif_top = self . 0 . pop ( ) . unwrap ( ) ; let verif_r = verif_top . variables . remove ( name ) ; self . 0 . push ( verif_top ) ; verif_r . ok_or ( VErr )", count=1,
             why="&mut into the last frame -> take / mutate / put back (expect: R8); error text dropped")], log, "Stack::delete_variable_local")
    fns["register_variable"] = translate(list(src.fn(FILE, "register_variable", "impl Stack")["body"]), common + [
        Rule("R1", "VariableFlags :: none ( )", "flags_none ( )", why="no flags"),
        Rule("R10", "self . register_variable_flags ( name , var , $$f )", "self . register_variable_flags ( name , var , $$f , heap )", why="heap threaded (R10)")], log, "Stack::register_variable")
    invf = ("invariant_except_break $K <= self.0@.len(), fnfind_frame(self.0@, text_of(name), self.0@.len() as int) == fnfind_frame(self.0@, text_of(name), $K as int) "
            "invariant true ensures fnfind_frame(self.0@, text_of(name), self.0@.len() as int) == -1 decreases $K")
    fns["find_name_in_function"] = translate(list(src.fn(FILE, "find_name_in_function", "impl Stack")["body"]), common + [
        Rule("R2", "for $x in self . 0 . iter ( ) . rev ( ) { $$body }", rev_loop("ff", invf), count=1, why="for over iter().rev() -> index counting down (innermost frame first)")], log, "Stack::find_name_in_function")
    for k, v in fns.items():
        check_closed(v, f"Stack::{k}")
    gen = header(log, f"{FILE}: Stack::extend, pop, size, ref_variable, delete_variable_local, register_variable, find_name_in_function") + SPEC + FRAME_SPEC + f"""
impl Stack {{
    // Stack::register_variable_flags: obligation C07.stack.store (unit c07_stack)
    #[verifier::external_body] pub fn register_variable_flags(&mut self, name: VString, var: Primitive, flags: VariableFlags, heap: &mut Cells) -> (r: Result<(), VErr>) {{ unimplemented!() }}
    //@ OBL C09.stack.extend
    pub fn extend(&mut self, label: VString)
        ensures final(self).0@.len() == old(self).0@.len() + 1, final(self).0@.subrange(0, old(self).0@.len() as int) == old(self).0@,
                final(self).0@.last().label == label, vars(&final(self).0@.last().variables) == Map::<Seq<char>, Handle>::empty(),       // ONE new frame, with that label, holding no variable; the others untouched
    {{
{render(fns['extend'], 2)}
    }}
    //@ OBL C09.stack.size
    pub fn size(&self) -> (r: usize) ensures r == self.0@.len()
    {{
{render(fns['size'], 2)}
    }}
    //@ OBL C09.stack.pop
    pub fn pop(&mut self)
        requires old(self).0@.len() > 0,               // `expect`: a pop without a frame panics -- the interpreter's frame discipline (C09.run.step) must rule it out
        ensures final(self).0@ == old(self).0@.drop_last(),          // exactly the innermost frame goes
    {{
{render(fns['pop'], 2)}
    }}
    //@ OBL C07.stack.ref_variable
    pub fn ref_variable(&mut self, name: VString, var: Handle)
        requires old(self).0@.len() > 0,
        ensures final(self).0@.len() == old(self).0@.len(), final(self).0@.drop_last() == old(self).0@.drop_last(), final(self).0@.last().label == old(self).0@.last().label,
                vars(&final(self).0@.last().variables) == vars(&old(self).0@.last().variables).insert(text_of(&name), var),               // the name is bound to THAT cell, in the innermost frame only
    {{
{render(fns['ref_variable'], 2)}
    }}
    //@ OBL C15.stack.delete_variable_local
    pub fn delete_variable_local(&mut self, name: &VString) -> (r: Result<Handle, VErr>)
        requires old(self).0@.len() > 0,
        ensures r is Ok <==> vars(&old(self).0@.last().variables).contains_key(text_of(name)),
                r is Ok ==> r->Ok_0 == vars(&old(self).0@.last().variables)[text_of(name)] && vars(&final(self).0@.last().variables) == vars(&old(self).0@.last().variables).remove(text_of(name)),
                r is Err ==> vars(&final(self).0@.last().variables) == vars(&old(self).0@.last().variables),
                final(self).0@.len() == old(self).0@.len(), final(self).0@.drop_last() == old(self).0@.drop_last(), final(self).0@.last().label == old(self).0@.last().label,
    {{
{render(fns['delete_variable_local'], 2)}
    }}
    //@ OBL C07.stack.find_name_in_function
    pub fn find_name_in_function(&self, name: &VString) -> (r: Option<Handle>)
        ensures ({{ let k = fnfind_frame(self.0@, text_of(name), self.0@.len() as int);
            (k >= 0 <==> r is Some) && (k >= 0 ==> r->Some_0 == vars(&self.0@[k].variables)[text_of(name)]) }}),
    {{
{render(fns['find_name_in_function'], 2)}
    }}
}}
}} // verus!
fn main() {{}}
"""
    obls = [Obl("C09.stack.extend", ["C09", "C01"], fn="Stack::extend", desc="Stack::extend: one new frame with that label and no variables; the others untouched"),
            Obl("C09.stack.size", ["C09"], fn="Stack::size", desc="Stack::size: the number of frames"),
            Obl("C09.stack.pop", ["C09", "C01"], fn="Stack::pop", desc="Stack::pop: exactly the innermost frame goes (a pop without a frame panics: precondition)"),
            Obl("C07.stack.ref_variable", ["C07", "C11"], fn="Stack::ref_variable", desc="Stack::ref_variable: the name is bound to that very cell, in the innermost frame only"),
            Obl("C15.stack.delete_variable_local", ["C15", "C01"], fn="Stack::delete_variable_local", desc="Stack::delete_variable_local: removes the name from the innermost frame and hands its cell back; a missing name fails and changes nothing"),
            Obl("C07.stack.find_name_in_function", ["C07", "C01"], fn="Stack::find_name_in_function", desc="Stack::find_name_in_function: innermost frame first, through the function's block frames up to its own frame, not beyond")]
    return gen, obls, log


UNITS.append(VUnit("c07_stack_frames", ["C07", "C09", "C01", "C15", "C11"], "call stack: frames pushed / popped, names bound / deleted / found within the function", build_frames))
UNITS[-1].assumes = UNITS[0].assumes

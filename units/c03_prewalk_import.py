"""C03 / C11: the pre-walk over a file's declarations (ModuleType::from_node, compiler/src/ast/type.rs), arm `Rule::import`.
An imported module is compiled -- and its diagnostics are produced -- when the importer's pre-walk reaches the import: `AssocFileData::import`.
From the property (C03: an ill-typed program is rejected with a diagnostic before anything runs -- a program is all of its modules): when
that import reports errors, the pre-walk of the importing file fails with them, for BOTH import forms.  (The import statement itself, met
again when the file is walked, only gets a cache hit: it cannot report them.)
Fragment: the statements of the arm up to and including `let module_import = ..;` -- what follows (binding of imported types) is not part of it."""
from vlib.rules import *
from vlib.pattern import Pat
from vlib.extract import extract_match_arm

FILE = "compiler/src/ast/type.rs"

SPEC = r"""
#[verifier::external_body] pub struct PathV { x: usize }
#[verifier::external_body] pub struct ModuleImport { x: usize }
// children().next().unwrap() / children().last().unwrap(): panic preconditions (R8) discharged from the grammar's child counts
#[verifier::external_body] pub fn first_child(n: &Node) -> (r: Node) requires node_children(n).len() > 0 ensures r == node_children(n)[0] { unimplemented!() }
#[verifier::external_body] pub fn last_child(n: &Node) -> (r: Node) requires node_children(n).len() > 0 ensures r == node_children(n).last() { unimplemented!() }
#[verifier::external_body] pub fn parse_import_path(n: Node) -> (r: Result<PathV, VErr>) { unimplemented!() }
#[verifier::external_body] pub fn clone_path(p: &PathV) -> (r: PathV) ensures r == *p { unimplemented!() }
// AssocFileData::import: compiles (or finds compiled) the module at `path`; Err = the module has diagnostics (or cannot be read)
pub uninterp spec fn import_fails(input: &Node, p: PathV) -> bool;
#[verifier::external_body] pub fn prewalk_import(input: &Node, p: PathV) -> (r: Result<ModuleImport, VErr>) ensures r is Err <==> import_fails(input, p) { unimplemented!() }
pub enum Walk { ReachedBinding(PathV), Skipped }
pub uninterp spec fn path_parsed(n: Node) -> Option<PathV>;
"""


def build(repo):
    src = Source(repo)
    log = []
    f = src.fn(FILE, "from_node", "impl ModuleType")
    try:
        arm = extract_match_arm(f["body"], "Rule :: import")
    except Exception as e:
        raise Undecided(f"{FILE}: arm `Rule::import` of ModuleType::from_node not found: {e}")
    body = arm["body"]
    # the statement that performs the import: up to the `;` that ends it (whatever its form: `let x = ..?;`, `let Ok(x) = .. else {..};`, `match`)
    from vlib.lexer import match_close as _mc
    at = None
    for i in range(len(body) - 2):
        if body[i] == "." and body[i + 1] == "import" and body[i + 2] == "(":
            at = i; break
    if at is None:
        raise Undecided(f"{FILE}: no call of `.import(..)` in the import arm of from_node")
    cut, k = None, at
    while k < len(body):
        if body[k] in ("(", "[", "{"):
            k = _mc(body, k)
        elif body[k] in (")", "]", "}"):
            break                                   # the call sits inside a bracket that closes before a `;`: find the statement's end outside
        elif body[k] == ";":
            cut = k + 1; break
        k += 1
    if cut is None:
        # the import call is nested in a block (e.g. `let x = match CALL { .. };`): walk outwards to the enclosing statement's `;`
        depth, k = 0, at
        while k < len(body):
            if body[k] in ("(", "[", "{"): depth += 1
            elif body[k] in (")", "]", "}"): depth -= 1
            elif body[k] == ";" and depth <= 0:
                cut = k + 1; break
            k += 1
    if cut is None:
        raise Undecided(f"{FILE}: end of the importing statement not found in the import arm of from_node")
    frag = body[:cut]
    log.append(("R0", "ModuleType::from_node, arm Rule::import", "statements up to `let module_import = ..;`", "fragment: the binding of imported types that follows is not part of this unit"))
    b = translate(frag, parser_idioms() + [
        Rule("R3", "log :: trace ! ( $$a ) ;", "", why="logging dropped"),
        Rule("R8", "child . children ( ) . next ( ) . unwrap ( )", "first_child ( & child )", why="unwrap on a child: grammar child count (R8)"),
        Rule("R8", "import . children ( ) . last ( ) . unwrap ( )", "last_child ( & import )", why="unwrap on the last child: grammar child count (R8)"),
        Rule("R6", "Arc :: new ( Parser :: import_path ( import_path ) . to_err_vec ( ) ? )", "parse_import_path ( import_path ) ?", why="sub-parser abstract; Arc wrapper dropped"),
        Rule("R6", "input . user_data ( ) . import ( path . clone ( ) )", "prewalk_import ( input , clone_path ( & path ) )", why="AssocFileData::import: abstract callee (compiles the module; Err = it has diagnostics)"),
        Rule("R3", "return Err ( errors )", "return Err ( VErr )", why="diagnostics as one error value"),
    ], log, "ModuleType::from_node[import]")
    check_closed(b, "ModuleType::from_node[import]")
    gen = header(log, f"{FILE}: ModuleType::from_node, arm Rule::import up to the module import") + prelude("parser.rs") + SPEC + f"""
//@ OBL C03.prewalk.import-errors
// one pass through the arm (it sits in the loop over the declarations: a `continue` ends the pass)
#[verifier::loop_isolation(false)]
pub fn prewalk_import_arm(input: &Node, child: Node) -> (r: Result<Walk, VErr>)
    requires node_children(&child).len() >= 1, node_children(&node_children(&child)[0]).len() >= 1,           // grammar: import = {{ import_standard | import_names }}, each ending in its path
    ensures
        // whatever the form of the import: when compiling the imported module reports errors, the pre-walk of the importer fails
        r matches Ok(Walk::ReachedBinding(p)) ==> !import_fails(input, p),
        r matches Ok(Walk::Skipped) ==> false,                                                                // no import is passed over
{{
    let mut verif_once = false;
    while !verif_once
        invariant !verif_once,      // the pass ends by `return` (or `?`); a `continue` would leave the loop with the import passed over
            decreases (if verif_once {{ 0int }} else {{ 1int }}),
    {{
        verif_once = true;
{render(b, 2)}
        return Ok(Walk::ReachedBinding(clone_path(&path)));
    }}
    Ok(Walk::Skipped)
}}
}} // verus!
fn main() {{}}
"""
    return gen, [Obl("C03.prewalk.import-errors", ["C03", "C11", "C16"], fn="ModuleType::from_node[import arm]",
                     desc="from_node, import arm: for both import forms, errors reported while compiling the imported module make the importer's pre-walk fail; no import declaration is passed over")], log


UNITS = [VUnit("c03_prewalk_import", ["C03", "C11", "C16"], "pre-walk: diagnostics of an imported module reach the importer", build)]
UNITS[0].assumes = ["AssocFileData::import and Parser::import_path are abstract callees; the fragment ends at `let module_import = ..;`", "pest API abstract; grammar child counts as preconditions"]

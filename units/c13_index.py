"""C13: the run-time index of `xs[i]`, `xs[i] = v`, `xs[i] op= v` when `i` is a variable -- Primitive::try_into_numeric_index (primitive.rs): the
position handed to the bounds test IS the number the index denotes, or the access fails; it is never another position of the list."""
from vlib.rules import *

PRIM = "bytecode/src/variables/primitive.rs"

SPEC = r"""
use vstd::prelude::*;
verus! {
global size_of usize == 8;
pub struct VErr;
#[verifier::external_body] pub struct OtherV { x: usize }
pub enum Primitive { Byte(u8), BigInt(i128), Int(i32), Other(OtherV) }
// `x as usize` on a signed / wider integer: two's-complement truncation (Rust reference; Verus leaves the out-of-range cast unspecified)
pub open spec fn wrap64(x: int) -> int { x % 0x1_0000_0000_0000_0000int }
#[verifier::external_body] pub fn i32_as_usize(x: i32) -> (r: usize) ensures r == wrap64(x as int) { x as usize }
#[verifier::external_body] pub fn i128_as_usize(x: i128) -> (r: usize) ensures r == wrap64(x as int) { x as usize }
#[verifier::external_body] pub fn i32_unsigned_abs(x: i32) -> (r: u32) ensures r == (if x < 0 { -(x as int) } else { x as int }) { x.unsigned_abs() }
// checked conversions
#[verifier::external_body] pub fn usize_try_from_i32(x: i32) -> (r: Result<usize, VErr>) ensures r is Ok <==> x >= 0, r is Ok ==> r->Ok_0 == x { unimplemented!() }
#[verifier::external_body] pub fn usize_try_from_i128(x: i128) -> (r: Result<usize, VErr>) ensures r is Ok <==> 0 <= x <= usize::MAX, r is Ok ==> r->Ok_0 == x { unimplemented!() }
// the number an index value denotes
pub open spec fn denotes(p: Primitive) -> Option<int> { match p { Primitive::Byte(b) => Some(b as int), Primitive::BigInt(b) => Some(b as int), Primitive::Int(i) => Some(i as int), _ => None } }
"""


def build(repo):
    src = Source(repo)
    log = []
    f = src.fn(PRIM, "try_into_numeric_index")
    body = ["int_v" if t == "int" else t for t in f["body"]]
    log.append(("R1", "int", "int_v", "binding named `int` (a type name in Verus) renamed"))
    b = translate(body, [
        Rule("R3", "bail ! $a", "return Err ( VErr )", why="bail! -> return Err"),
        Rule("R7", "* byte as usize", "( * byte as usize )", why="u8 -> usize: widening"),
        Rule("R7", "* bigint as usize", "i128_as_usize ( * bigint )", why="i128 -> usize `as` cast: truncation (assumed Rust semantics)"),
        Rule("R7", "* int_v as usize", "i32_as_usize ( * int_v )", why="i32 -> usize `as` cast: sign extension + truncation (assumed Rust semantics)"),
        Rule("R7", "int_v . unsigned_abs ( )", "i32_unsigned_abs ( * int_v )", why="i32::unsigned_abs (assumed std contract)"),
        Rule("R7", "usize :: try_from ( * bigint ) . with_context ( $$c ) ?", "usize_try_from_i128 ( * bigint ) ?", why="checked conversion; context text dropped"),
        Rule("R7", "usize :: try_from ( * int_v ) . with_context ( $$c ) ?", "usize_try_from_i32 ( * int_v ) ?", why="checked conversion; context text dropped"),
        Rule("R7", "usize :: try_from ( * bigint ) ?", "usize_try_from_i128 ( * bigint ) ?", why="checked conversion"),
        Rule("R7", "usize :: try_from ( * int_v ) ?", "usize_try_from_i32 ( * int_v ) ?", why="checked conversion"),
    ], log, "Primitive::try_into_numeric_index")
    check_closed(b, "try_into_numeric_index")
    gen = header(log, f"{PRIM}: Primitive::try_into_numeric_index") + SPEC + f"""
impl Primitive {{
    //@ OBL C13.index.denotes
    pub fn try_into_numeric_index(&self) -> (r: Result<usize, VErr>)
        ensures
            // the position is the number the index denotes -- or, for a number no list can have a position for, a position no list has
            // (beyond isize::MAX, the largest length a Vec can have), or a failure
            r is Ok ==> denotes(*self) is Some && (r->Ok_0 == denotes(*self)->Some_0 || ((denotes(*self)->Some_0 < 0 || denotes(*self)->Some_0 > isize::MAX) && r->Ok_0 > isize::MAX)),
    {{
{render(b, 2)}
    }}
}}
}} // verus!
fn main() {{}}
"""
    return gen, [Obl("C13.index.denotes", ["C13", "C17"], fn="Primitive::try_into_numeric_index", desc="try_into_numeric_index: the position is the number the index denotes, or one beyond every list, or a failure")], log


UNITS = [VUnit("c13_index", ["C13", "C17"], "run-time index value -> position", build)]
UNITS[0].assumes = ["`as usize` on i32 / i128 is two's-complement truncation (Rust reference), usize is 64 bits", "the bounds test `idx >= len` that follows is in vec_op (unit c13_lists)"]

"""C18 (text framing, transpiler side): the body of the line loop of transpile_file (bytecode_dev_transpiler/src/lib.rs) as a function of
(line just read, transpiler state).  The writer frames a function in the text form as `function NAME` LF, one line per instruction,
`end` LF (unit c04_function_frame); the loader expects `f NAME` NUL, one record per instruction, `e` NUL (unit c04_loader).  Contract, per
line form the writer emits:
  * `function NAME` LF  -- the name is remembered (trailing blanks of the line removed), nothing is written, no instruction is lost or added;
  * an instruction line -- exactly one instruction is appended (which one: obligation C18.transpiler.line), nothing is written;
  * `end` LF            -- exactly `f NAME` NUL, the records of the instructions read since the header, in order, `e` NUL are appended to
                           the output; the instruction list is empty for the next function; outside a function it is a failure;
  * a blank line        -- nothing happens;
and the line buffer is empty for the next read in every case."""
import re
from vlib.rules import *
from vlib.extract import find_block_after

FILE = "bytecode_dev_transpiler/src/lib.rs"

SPEC = r"""
use vstd::prelude::*;
verus! {
pub struct VErr;
pub uninterp spec fn is_ws(c: char) -> bool;      // char::is_whitespace
pub broadcast axiom fn ws_facts()
    ensures #[trigger] is_ws(' '), is_ws('\n'), is_ws('\r'), is_ws('\t'), !is_ws('e'), !is_ws('n'), !is_ws('d'), !is_ws('f');
pub open spec fn trim_start_spec(s: Seq<char>) -> Seq<char> decreases s.len() { if s.len() > 0 && is_ws(s[0]) { trim_start_spec(s.drop_first()) } else { s } }
pub open spec fn trim_end_spec(s: Seq<char>) -> Seq<char> decreases s.len() { if s.len() > 0 && is_ws(s.last()) { trim_end_spec(s.drop_last()) } else { s } }
pub open spec fn trim_spec(s: Seq<char>) -> Seq<char> { trim_end_spec(trim_start_spec(s)) }
#[verifier::external_body] pub fn trim(s: &Vec<char>) -> (r: Vec<char>) ensures r@ == trim_spec(s@) { unimplemented!() }
#[verifier::external_body] pub fn trim_end(s: &Vec<char>) -> (r: Vec<char>) ensures r@ == trim_end_spec(s@) { unimplemented!() }
#[verifier::external_body] pub fn clone_chars(s: &Vec<char>) -> (r: Vec<char>) ensures r@ == s@ { unimplemented!() }
#[verifier::external_body] pub fn slice_from(s: &Vec<char>, a: usize) -> (r: Vec<char>) requires a <= s@.len() ensures r@ == s@.subrange(a as int, s@.len() as int) { unimplemented!() }
pub fn strlit_chars(s: &'static str) -> (r: Vec<char>) ensures r@ == s@ { s.chars().collect() }
// `b"lit" == first n bytes` / `"lit" == text` (R1: text level)
pub fn starts_with_lit(s: &Vec<char>, lit: &'static str) -> (r: bool)
    ensures r == (s@.len() >= lit@.len() && s@.subrange(0, lit@.len() as int) == lit@)
{
    let l = strlit_chars(lit);
    if s.len() < l.len() { return false; }
    let mut i: usize = 0;
    while i < l.len()
        invariant i <= l@.len(), l@.len() <= s@.len(), l@ == lit@, forall|j: int| 0 <= j < i ==> s@[j] == l@[j]
        decreases l@.len() - i
    { if s[i] != l[i] { proof { assert(s@.subrange(0, lit@.len() as int)[i as int] == s@[i as int]); } return false; } i += 1; }
    proof { assert(s@.subrange(0, lit@.len() as int) =~= lit@); }
    true
}
pub fn eq_lit(lit: &'static str, s: &Vec<char>) -> (r: bool) ensures r == (s@ == lit@)
{
    let l = strlit_chars(lit);
    if s.len() != l.len() { return false; }
    let b = starts_with_lit(s, lit);
    proof { assert(s@.subrange(0, s@.len() as int) =~= s@); }
    b
}
pub fn push_chars(dst: &mut Vec<char>, src: &Vec<char>)
    ensures final(dst)@ == old(dst)@ + src@
{
    let mut i: usize = 0;
    while i < src.len()
        invariant i <= src@.len(), dst@ == old(dst)@ + src@.subrange(0, i as int)
        decreases src@.len() - i
    { dst.push(src[i]); i += 1; proof { assert(src@.subrange(0, i as int) =~= src@.subrange(0, i - 1).push(src@[i - 1])); } }
    proof { assert(src@.subrange(0, src@.len() as int) =~= src@); }
}
pub trait Disp { spec fn disp(&self) -> Seq<char>; fn push_to(&self, out: &mut Vec<char>) ensures final(out)@ == old(out)@ + self.disp(); }
impl Disp for char { open spec fn disp(&self) -> Seq<char> { seq![*self] } fn push_to(&self, out: &mut Vec<char>) { out.push(*self); } }
impl Disp for Vec<char> { open spec fn disp(&self) -> Seq<char> { self@ } fn push_to(&self, out: &mut Vec<char>) { push_chars(out, self); } }

// an instruction of the transpiler; its binary record is the contract of Instruction::repr (C18.transpiler.writer)
#[verifier::external_body] pub struct Instruction { x: usize }
pub uninterp spec fn record_of(i: &Instruction) -> Seq<char>;
impl Instruction { #[verifier::external_body] pub fn repr(&self) -> (r: Vec<char>) ensures r@ == record_of(self) { unimplemented!() } }
pub open spec fn concat_records(v: Seq<Instruction>) -> Seq<char> decreases v.len() { if v.len() == 0 { Seq::<char>::empty() } else { concat_records(v.drop_last()) + record_of(&v.last()) } }
pub proof fn lemma_concat_step(v: Seq<Instruction>, k: int) requires 0 <= k < v.len()
    ensures concat_records(v.subrange(0, k + 1)) == concat_records(v.subrange(0, k)) + record_of(&v[k])
{ assert(v.subrange(0, k + 1).drop_last() =~= v.subrange(0, k)); }
pub struct Function { pub instructions: Vec<Instruction>, pub name: Vec<char> }
// one instruction line: which instruction it denotes is obligation C18.transpiler.line (unit c18_text); here: exactly one is appended, or a failure
pub uninterp spec fn line_instr(line: Seq<char>) -> Option<Instruction>;
#[verifier::external_body] pub fn instr_line(buffer: &Vec<char>, trimmed_end: &Vec<char>, instruction_buffer: &mut Vec<Instruction>) -> (r: Result<(), VErr>)
    ensures r is Ok <==> line_instr(buffer@) is Some, r is Ok ==> final(instruction_buffer)@ == old(instruction_buffer)@.push(line_instr(buffer@)->Some_0)
{ unimplemented!() }
// the output file: what has been written so far (write! appends at the cursor of a file opened with truncate)
#[verifier::external_body] pub struct FileW { x: usize }
pub uninterp spec fn written(f: &FileW) -> Seq<char>;
#[verifier::external_body] pub fn file_write(f: &mut FileW, s: &Vec<char>) -> (r: Result<(), VErr>) ensures r is Ok ==> written(final(f)) == written(old(f)) + s@ { unimplemented!() }
#[verifier::external_body] pub fn take_unwrap(o: &mut Option<Vec<char>>) -> (r: Vec<char>) requires *old(o) is Some ensures *final(o) is None, Some(r) == *old(o) { unimplemented!() }

pub struct TState { pub buffer: Vec<char>, pub current_function_name: Option<Vec<char>>, pub instruction_buffer: Vec<Instruction>, pub new_file: FileW }

// ---- the lines the text writer emits (c04_function_frame: `function NAME` LF .. `end` LF)
pub open spec fn lit_function_sp() -> Seq<char> { seq!['f', 'u', 'n', 'c', 't', 'i', 'o', 'n', ' '] }
pub open spec fn is_header_line(l: Seq<char>) -> bool { l.len() >= 10 && l.subrange(0, 9) == lit_function_sp() && l.last() == '\n' }
pub open spec fn header_name(l: Seq<char>) -> Seq<char> { trim_end_spec(l.subrange(9, l.len() as int)) }
pub open spec fn is_end_line(l: Seq<char>) -> bool { l == seq!['e', 'n', 'd', '\n'] }
pub open spec fn is_blank_line(l: Seq<char>) -> bool { trim_spec(l).len() == 0 }
// an instruction line starts with a TAB; no opcode is called `end` (finite scan of the opcode table: C18.opcode.table)
pub open spec fn is_instr_line(l: Seq<char>) -> bool { l.len() >= 2 && l[0] == '\t' && trim_spec(l) != seq!['e', 'n', 'd'] && trim_spec(l).len() > 0 }
pub open spec fn function_record(name: Seq<char>, instrs: Seq<Instruction>) -> Seq<char> { seq!['f', ' '] + name + seq!['\0'] + concat_records(instrs) + seq!['e', '\0'] }
pub proof fn lemma_end_line()
    ensures trim_spec(seq!['e', 'n', 'd', '\n']) == seq!['e', 'n', 'd']
{
    broadcast use ws_facts;
    let l = seq!['e', 'n', 'd', '\n'];
    assert(trim_start_spec(l) == l);
    assert(l.drop_last() =~= seq!['e', 'n', 'd']);
    assert(trim_end_spec(l) == trim_end_spec(l.drop_last()));
    assert(trim_end_spec(seq!['e', 'n', 'd']) == seq!['e', 'n', 'd']);
}
pub proof fn lemma_trim_nonempty_first(s: Seq<char>)
    ensures trim_start_spec(s).len() > 0 ==> !is_ws(trim_start_spec(s)[0]),
            trim_start_spec(s).len() > 0 && !is_ws(trim_start_spec(s)[0]) ==> trim_spec(s).len() > 0
    decreases s.len()
{
    if s.len() > 0 && is_ws(s[0]) { lemma_trim_nonempty_first(s.drop_first()); } else if s.len() > 0 { lemma_trim_end_keeps_first(s); }
}
pub proof fn lemma_trim_end_keeps_first(s: Seq<char>)
    requires s.len() > 0, !is_ws(s[0])
    ensures trim_end_spec(s).len() > 0
    decreases s.len()
{
    if is_ws(s.last()) { assert(s.len() > 1); assert(s.drop_last()[0] == s[0]); lemma_trim_end_keeps_first(s.drop_last()); }
}
"""


def format_args(b):
    """write!/format! argument list `"lit{}lit{name}..", a, b` -> a block that appends the pieces in order (Display of char / text)"""
    toks = b["a"]
    lit = toks[0]
    if not (lit.startswith('"') and lit.endswith('"')):
        return None
    rest, cur, d = [], [], 0
    for t in toks[1:]:
        if t in ("(", "[", "{"): d += 1
        elif t in (")", "]", "}"): d -= 1
        if t == "," and d == 0:
            if cur: rest.append(cur)
            cur = []
        else:
            cur.append(t)
    if cur: rest.append(cur)
    s = lit[1:-1]
    parts, i, acc = [], 0, ""
    while i < len(s):
        if s[i] == "{":
            j = s.find("}", i)
            if j < 0: return None
            name = s[i + 1:j]
            if acc: parts.append(("lit", acc)); acc = ""
            if name == "":
                if not rest: return None
                parts.append(("expr", text(rest.pop(0))))
            elif re.match(r"[A-Za-z_]\w*$", name):
                parts.append(("expr", name))
            else:
                return None
            i = j + 1
        elif s[i] == "\\":
            acc += s[i:i + 2]; i += 2
        else:
            acc += s[i]; i += 1
    if acc: parts.append(("lit", acc))
    if rest: return None
    out = ["{ let mut verif_out : Vec < char > = Vec :: new ( ) ;"]
    for k, v in parts:
        if k == "lit":
            out.append(f'push_chars ( & mut verif_out , & strlit_chars ( "{v}" ) ) ;')
            out.append(G(f'proof {{ reveal_strlit("{v}"); }}'))
        else:
            out.append(f"( {v} ) . push_to ( & mut verif_out ) ;")
    out.append("verif_out }")
    return out


def split_pattern(b):
    """`let parts = bytes.split_at(N); if let (b"WORD", [b'c', .., name @ ..]) = parts {` -> tests on the text + binding of the rest"""
    n, w, p = text(b["n"]), b["w"][0], b["p"]
    if not (re.match(r"\d+$", n) and re.match(r'b"[^"\\]*"$', w)) or len(w) - 3 != int(n):
        return None
    items, cur = [], []
    for t in p:
        if t == ",":
            items.append(cur); cur = []
        else:
            cur.append(t)
    if cur: items.append(cur)
    if not items or len(items[-1]) != 3 or items[-1][1:] != ["@", ".."]:
        return None
    name = items[-1][0]
    conds, k = [f"starts_with_lit ( bytes , {w[1:]} )"], int(n)
    for it in items[:-1]:
        if len(it) != 1 or not re.match(r"b'[^\\]'$", it[0]):
            return None
        conds.append(f"bytes . len ( ) > {k} && bytes [ {k} ] == {it[0][1:]}"); k += 1
    return "if " + " && ".join(conds) + f" && bytes . len ( ) >= {k} {{ let {name} = slice_from ( bytes , {k} ) ;"


def build(repo):
    src = Source(repo)
    log = []
    f = src.fn(FILE, "transpile_file")
    try:
        _, o, c = find_block_after(f["body"], "while let Ok ( size ) = reader . read_line ( & mut buffer )")
    except Exception as e:
        raise Undecided(f"{FILE}: the line loop `while let Ok(size) = reader.read_line(&mut buffer)` of transpile_file not found: {e}")
    body = list(f["body"][o + 1:c])
    log.append(("R0", "while let Ok(size) = reader.read_line(&mut buffer) { BODY }", "fn line_step(size, state) { BODY }", "fragment: the body of the line loop as a function of the line just read and the transpiler state"))
    # the instruction-line block has its own obligation (C18.transpiler.line): replaced by its contract here
    p = Pat("let whitespace_parts = $$e ;")
    start = next((i for i in range(len(body)) if p.match_at(body, i)), None)
    if start is None:
        raise Undecided("transpile_file: `let whitespace_parts = ..;` (the instruction-line block) not found")
    depth, j = 0, start - 1
    while j >= 0:
        if body[j] == "}": depth += 1
        elif body[j] == "{":
            if depth == 0: break
            depth -= 1
        j -= 1
    cl = match_close(body, j)
    body = body[:j + 1] + ["instr_line", "(", "&", "buffer", ",", "&", "trimmed_end", ",", "&", "mut", "instruction_buffer", ")", "?", ";"] + body[cl:]
    log.append(("R6", "else { let whitespace_parts = buffer.split_once(' '); .. instruction_buffer.push(..) }", "else { instr_line(&buffer, &trimmed_end, &mut instruction_buffer)?; }", "the instruction-line block: its own obligation C18.transpiler.line (unit c18_text); here by contract: one instruction appended, or a failure"))
    ST = "TState { buffer , current_function_name , instruction_buffer , new_file }"
    rules = [
        Rule("R13", "if size == 0 { break ; }", "", count=1, why="end of input: the loop's business (the step is given a line)"),
        Rule("R3", "let pos = reader . stream_position ( ) ? ;", "", why="position only feeds the progress bar"),
        Rule("R3", "pb . set_position ( pos ) ;", "", why="progress bar dropped"),
        Rule("R3", "let pb = functions . add ( $$e ) ;", "", why="progress bar dropped"),
        Rule("R3", "pb . set_style ( $$e ) ;", "", why="progress bar dropped"),
        Rule("R3", "pb . set_message ( $$e ) ;", "", why="progress bar dropped"),
        Rule("R3", "current_function_pb = Some ( pb ) ;", "", why="progress bar dropped"),
        Rule("R3", "if let Some ( ref pb ) = current_function_pb { $$b }", "", why="progress bar dropped"),
        Rule("R3", "bail ! $a", "return Err ( VErr )", why="bail! -> return Err"),
        Rule("R1", "let bytes = buffer . as_bytes ( ) ;", "let bytes = & buffer ;", why="text level: UTF-8 encoding not modelled (the framing words are ASCII)"),
        Rule("R9", "let trimmed_end = buffer . trim ( ) ;", "let trimmed_end = trim ( & buffer ) ;", why="str::trim with its std contract"),
        Rule("R1", "trimmed_end . is_empty ( )", "( trimmed_end . len ( ) == 0 )", why="is_empty -> len() == 0"),
        Rule("R16", "let parts = bytes . split_at ( $n ) ; if let ( $w , [ $$p ] ) = parts {", split_pattern,
             count=1, why="split_at(n) + tuple / slice pattern: the first n bytes are the word, then the listed bytes, the rest is bound"),
        Rule("R9", "String :: from_utf8_lossy ( name ) . trim_end ( ) . to_string ( )", "trim_end ( & name )", why="from_utf8_lossy on bytes of a String is the identity; str::trim_end"),
        Rule("R1", "\"end\" == trimmed_end", "eq_lit ( \"end\" , & trimmed_end )", why="&str == &str at text level"),
        Rule("R8", "Rc :: new ( current_function_name . take ( ) . unwrap ( ) )", "take_unwrap ( & mut current_function_name )", why="Option::take + unwrap (requires Some); Rc dropped"),
        Rule("R1", "name : current_function_name . clone ( )", "name : clone_chars ( & current_function_name )", why="Rc<String>::clone -> the same text"),
        Rule("R1", "instruction_buffer . into_boxed_slice ( )", "instruction_buffer", why="Vec -> Box<[T]>: the same items"),
        Rule("R1", "String :: new ( )", "Vec :: < char > :: new ( )", why="String -> Vec<char>"),
        Rule("R2", "for instruction in & function . instructions [ .. ] { $$body }",
             lambda bb: ["let mut verif_k : usize = 0 ; while verif_k < function . instructions . len ( )",
                         G("invariant verif_k <= function.instructions.len(), body@ == concat_records(function.instructions@.subrange(0, verif_k as int)) decreases function.instructions.len() - verif_k"),
                         "{", "let instruction = & function . instructions [ verif_k ] ; verif_k += 1 ;", *bb["body"],
                         G("proof { lemma_concat_step(function.instructions@, verif_k as int - 1); }"), "}",
                         G("proof { assert(function.instructions@.subrange(0, function.instructions@.len() as int) =~= function.instructions@); }")],
             count=1, why="for over a slice -> indexed while (iteration order of slice::Iter)"),
        Rule("R1", "body . push_str ( & $$e ) ;", "{ let verif_piece = $$e ; push_chars ( & mut body , & verif_piece ) ; }", why="String::push_str -> append chars"),
        Rule("R9", "write ! ( new_file , $$a ) ? ;", lambda bb: (lambda blk: None if blk is None else ["{ let verif_text ="] + blk + ["; file_write ( & mut new_file , & verif_text ) ? ; }"])(format_args(bb)),
             why="write!(file, fmt, args): the formatted text is appended to the file"),
        Rule("R13", "continue ;", f"return Ok ( {ST} ) ;", why="continue of the line loop -> the step ends"),
    ]
    b = translate(body, rules, log, "transpile_file[line step]")
    check_closed(b, "transpile_file[line step]")
    gen = header(log, f"{FILE}: transpile_file, body of the line loop") + SPEC + f"""
//@ OBL C18.transpiler.frame
pub fn line_step(size: usize, st: TState) -> (r: Result<TState, VErr>)
    requires
        size == st.buffer@.len(), size > 0,                    // read_line appended one line to the empty buffer
    ensures
        r is Ok ==> r->Ok_0.buffer@.len() == 0,
        // `function NAME` LF
        is_header_line(st.buffer@) ==> r is Ok && ({{ let n = r->Ok_0;
            n.current_function_name == Some::<Vec<char>>(n.current_function_name->Some_0) && n.current_function_name->Some_0@ == header_name(st.buffer@)
            && n.instruction_buffer@ == st.instruction_buffer@ && written(&n.new_file) == written(&st.new_file) }}),
        // an instruction line
        is_instr_line(st.buffer@) ==> (r is Ok <==> line_instr(st.buffer@) is Some) && (r is Ok ==> ({{ let n = r->Ok_0;
            n.instruction_buffer@ == st.instruction_buffer@.push(line_instr(st.buffer@)->Some_0)
            && n.current_function_name == st.current_function_name && written(&n.new_file) == written(&st.new_file) }})),
        // `end` LF
        is_end_line(st.buffer@) ==> (r is Ok ==> st.current_function_name is Some) && (st.current_function_name is None ==> r is Err) && (r is Ok ==> ({{ let n = r->Ok_0;
            written(&n.new_file) =~= written(&st.new_file) + function_record(st.current_function_name->Some_0@, st.instruction_buffer@)
            && n.instruction_buffer@.len() == 0 && n.current_function_name is None }})),
        // a blank line
        is_blank_line(st.buffer@) ==> r is Ok && ({{ let n = r->Ok_0;
            n.instruction_buffer@ == st.instruction_buffer@ && n.current_function_name == st.current_function_name && written(&n.new_file) == written(&st.new_file) }}),
{{
    let mut buffer = st.buffer; let mut current_function_name = st.current_function_name; let mut instruction_buffer = st.instruction_buffer; let mut new_file = st.new_file;
    proof {{
        broadcast use ws_facts;
        lemma_end_line(); reveal_strlit("function"); reveal_strlit("end");
        lemma_trim_nonempty_first(buffer@);
        if is_header_line(buffer@) {{
            let h = buffer@.subrange(0, 9);
            assert(h == lit_function_sp());
            assert(buffer@.subrange(0, 8) =~= h.subrange(0, 8));
            assert(h.subrange(0, 8) =~= seq!['f', 'u', 'n', 'c', 't', 'i', 'o', 'n']);
            assert(buffer@[8] == h[8]);
            assert(buffer@[0] == h[0]);
            assert(!is_ws(buffer@[0]));
            assert(trim_start_spec(buffer@) == buffer@);
        }}
        if is_instr_line(buffer@) && buffer@.len() >= 8 {{ assert(buffer@.subrange(0, 8)[0] == buffer@[0]); }}
        assert("end"@ =~= seq!['e', 'n', 'd']); assert("function"@ =~= seq!['f', 'u', 'n', 'c', 't', 'i', 'o', 'n']);
        if is_end_line(buffer@) {{ assert(buffer@.len() == 4); }}
    }}
{render(b, 1)}
    Ok({ST})
}}
}} // verus!
fn main() {{}}
"""
    return gen, [Obl("C18.transpiler.frame", ["C18"], fn="transpile_file[line loop body]",
                     desc="transpile_file, per line: `function NAME` sets the name, an instruction line appends exactly one instruction, `end` writes exactly `f NAME` NUL records.. `e` NUL and empties the list (a failure outside a function), a blank line does nothing; the buffer is empty afterwards")], log


UNITS = [VUnit("c18_frame", ["C18"], "the transpiler's line loop body: function / end framing lines", build)]
UNITS[0].assumes = ["fragment: the body of the line loop; the loop itself (`while let Ok(size) = reader.read_line(..)`: one line per iteration, an I/O error or invalid UTF-8 ends the loop silently) is not under contract",
                    "text level (R1): the framing words are ASCII, byte and character positions agree on them; std contracts assumed: str::trim / trim_end, write! appends the formatted text, format pieces are Display of char / String",
                    "the instruction-line block and Instruction::repr are abstract callees (their obligations: C18.transpiler.line, C18.transpiler.writer); that no opcode is named `end` is part of C18.opcode.table",
                    "the progress bars are dropped (no effect on the output)"]

"""C12 / C09: the code of `(x) or y` and of `get x` -- arms Expr::NilEval and Expr::UnaryUnwrap of compile_depth
(compiler/src/ast/math_expr.rs).  `(x) or y`: the code of x, then `jmp_not_nil n`, then the code of y, with n landing exactly one past the
code of y -- so y is not evaluated when x is present (C12 / C15) and is evaluated, leaving its value, when x is nil; ALWAYS this layout,
whatever x is (the run-time test is the only thing that may skip the fallback).  `get x`: the code of x followed by `unwrap` carrying the
source position.  For every operand code of every length."""
from vlib.rules import *
from vlib.extract import extract_match_arm

FILE = "compiler/src/ast/math_expr.rs"

SPEC = r"""
// the operand as far as a change may look at it: its outermost shape and, for a variable, its declared type
#[verifier::external_body] pub struct OtherV { x: usize }
pub enum TypeLayout { Optional(OtherV), CallbackVariable(OtherV), Other(OtherV) }
#[verifier::external_body] pub struct TyBox { x: usize }
impl TyBox { #[verifier::external_body] pub fn as_ref(&self) -> (r: &TypeLayout) { unimplemented!() } }
#[verifier::external_body] pub struct IdentV { x: usize }
impl IdentV { #[verifier::external_body] pub fn ty(&self) -> (r: Result<&TyBox, VErr>) { unimplemented!() } }
pub enum Value { Ident(IdentV), Other(OtherV) }
pub enum ExprV { Value(Value), Other(OtherV) }
pub use ExprV as Expr;
impl ExprV { pub fn as_ref(&self) -> (r: &ExprV) ensures r == self { self } }
pub uninterp spec fn code_of(e: &ExprV) -> Seq<CompiledItem>;
#[verifier::external_body] pub fn expr_compile(e: &ExprV, s: &CompilationState) -> (r: Result<Vec<CompiledItem>, VErr>)
    ensures r is Ok ==> r->Ok_0@ == code_of(e) && r->Ok_0@.len() < 0x1000_0000 { unimplemented!() }
#[verifier::external_body] pub struct SpanText { x: usize }
impl ToVs for SpanText {
    uninterp spec fn as_num(&self) -> int;
    uninterp spec fn as_text(&self) -> Seq<char>;
    #[verifier::external_body] fn to_vs(&self) -> (r: VString) { unimplemented!() }
}
#[verifier::external_body] pub fn vec_append(a: &mut Vec<CompiledItem>, b: &mut Vec<CompiledItem>) ensures final(a)@ == old(a)@ + old(b)@ { unimplemented!() }
// `(x) or y`
pub open spec fn or_layout(out: Seq<CompiledItem>, p: Seq<CompiledItem>, f: Seq<CompiledItem>) -> bool {
    &&& out.len() == p.len() + 1 + f.len()
    &&& out.subrange(0, p.len() as int) == p                                               // the primary's code, once, first
    &&& is_instr(out[p.len() as int], JMP_NOT_NIL) && nargs(out[p.len() as int]) == 1
    &&& p.len() + argn(out[p.len() as int], 0) == out.len()                                // present: lands one past the fallback's code
    &&& out.subrange(p.len() as int + 1, out.len() as int) == f                            // the fallback's code, once, right behind the test
}
"""


def build(repo):
    src = Source(repo)
    ids = opcode_ids(repo)
    log = []
    f = src.fn(FILE, "compile_depth")
    try:
        arm_or = extract_match_arm(f["body"], "Expr :: NilEval { primary , fallback }")
        arm_get = extract_match_arm(f["body"], "Expr :: UnaryUnwrap { value , span }")
    except Exception as e:
        raise Undecided(f"{FILE}: arms NilEval / UnaryUnwrap of compile_depth not found: {e}")
    rules = [
        Rule("R6", "$e . compile ( state )", "expr_compile ( $e , state )", why="operand's Compile abstract: arbitrary code of arbitrary length"),
        r_instruction(ids),
        Rule("R13", "$a . append ( & mut $b )", "vec_append ( & mut $a , & mut $b )", why="Vec::append"),
    ]
    b_or = translate(list(arm_or["body"]), rules, log, "compile_depth[NilEval]")
    b_get = translate(list(arm_get["body"]), rules, log, "compile_depth[UnaryUnwrap]")
    if len(b_or) >= 4 and b_or[-4] == "Ok" and b_or[-3] == "(" and b_or[-1] == ")":
        v = b_or[-2]
        b_or = b_or[:-4] + [G(f"proof {{ let out = {v}@; let p = code_of(primary); let f = code_of(fallback); assert(out.subrange(0, p.len() as int) =~= p); assert(out.subrange(p.len() as int + 1, out.len() as int) =~= f); }}")] + b_or[-4:]
    if len(b_get) >= 4 and b_get[-4] == "Ok" and b_get[-3] == "(" and b_get[-1] == ")":
        v = b_get[-2]
        b_get = b_get[:-4] + [G(f"proof {{ let out = {v}@; let p = code_of(value); assert(out.subrange(0, p.len() as int) =~= p); }}")] + b_get[-4:]
    check_closed(b_or, "compile_depth[NilEval]"); check_closed(b_get, "compile_depth[UnaryUnwrap]")
    gen = header(log, f"{FILE}: compile_depth, arms Expr::NilEval and Expr::UnaryUnwrap") + prelude("compile.rs") + opcode_consts(ids, ["jmp_not_nil", "unwrap"]) + SPEC + f"""
//@ OBL C12.or.layout
pub fn compile_or(primary: &ExprV, fallback: &ExprV, state: &CompilationState) -> (r: Result<Vec<CompiledItem>, VErr>)
    ensures r is Ok ==> or_layout(r->Ok_0@, code_of(primary), code_of(fallback)),
{{
{render(b_or, 1)}
}}
//@ OBL C12.get.layout
pub fn compile_get(value: &ExprV, span: &SpanText, state: &CompilationState) -> (r: Result<Vec<CompiledItem>, VErr>)
    ensures r is Ok ==> ({{ let out = r->Ok_0@; let v = code_of(value);
        out.len() == v.len() + 1 && out.subrange(0, v.len() as int) == v && is_instr(out[v.len() as int], UNWRAP) && nargs(out[v.len() as int]) == 1 && argt(out[v.len() as int], 0) == span.as_text() }}),
{{
{render(b_get, 1)}
}}
}} // verus!
fn main() {{}}
"""
    return gen, [Obl("C12.or.layout", ["C12", "C15", "C09"], fn="compile_depth[NilEval]", desc="`(x) or y`: code(x), jmp_not_nil landing one past code(y), code(y) -- always, for all operand code"),
                 Obl("C12.get.layout", ["C12", "C09"], fn="compile_depth[UnaryUnwrap]", desc="`get x`: code(x) followed by `unwrap` carrying the source position")], log


UNITS = [VUnit("c12_or_layout", ["C12", "C15", "C09"], "code of `(x) or y` and `get x`", build)]
UNITS[0].assumes = ["the operands' Compile is abstract (arbitrary code, < 2^28 instructions); the handlers jmp_not_nil / unwrap are unit c12_handlers"]

"""C14 / C13 (`+` concatenation of strings built from values): the string arms of `impl Add for &Primitive` (bytecode/src/variables/ops/add.rs).
`s + t` is the characters of s followed by those of t; `s + v` / `v + s` with a non-string v put the TEXT of v (its Display, what `print v` shows)
on that side -- left operand first, nothing dropped, nothing added."""
from vlib.rules import *
from vlib.extract import extract_match_arm

FILE = "bytecode/src/variables/ops/add.rs"

SPEC = r"""
use vstd::prelude::*;
verus! {
pub struct VErr;
#[verifier::external_body] pub struct OtherV { x: usize }
pub enum Primitive { Str(Vec<char>), Other(OtherV) }
pub uninterp spec fn shown(p: Primitive) -> Seq<char>;                 // Display for Primitive (what `print` shows)
impl Primitive { #[verifier::external_body] pub fn to_string(&self) -> (r: Vec<char>) ensures r@ == shown(*self) { unimplemented!() } }
pub fn concat(a: &Vec<char>, b: &Vec<char>) -> (r: Vec<char>) ensures r@ == a@ + b@ {
    let mut out: Vec<char> = Vec::new(); let mut i: usize = 0;
    while i < a.len() invariant i <= a@.len(), out@ == a@.subrange(0, i as int) decreases a@.len() - i { out.push(a[i]); i += 1; proof { assert(a@.subrange(0, i as int) =~= a@.subrange(0, i - 1).push(a@[i - 1])); } }
    proof { assert(a@.subrange(0, a@.len() as int) =~= a@); }
    let mut j: usize = 0;
    while j < b.len() invariant j <= b@.len(), out@ == a@ + b@.subrange(0, j as int) decreases b@.len() - j { out.push(b[j]); j += 1; proof { assert(b@.subrange(0, j as int) =~= b@.subrange(0, j - 1).push(b@[j - 1])); assert(a@ + b@.subrange(0, j as int) =~= (a@ + b@.subrange(0, j - 1)).push(b@[j - 1])); } }
    proof { assert(b@.subrange(0, b@.len() as int) =~= b@); }
    out
}
"""

ARMS = [("str_str", "( Str ( x ) , Str ( y ) )", "x: &Vec<char>, y: &Vec<char>", "r is Str && r->Str_0@ == x@ + y@"),
        ("str_any", "( Str ( x ) , y )", "x: &Vec<char>, y: &Primitive", "r is Str && r->Str_0@ == x@ + shown(*y)"),
        ("any_str", "( x , Str ( y ) )", "x: &Primitive, y: &Vec<char>", "r is Str && r->Str_0@ == shown(*x) + y@")]


def build(repo):
    src = Source(repo)
    log = []
    f = src.fn(FILE, "add", "impl std :: ops :: Add for & Primitive")
    R = [
        Rule("R1", "string ! ( $$e )", "Primitive :: Str ( $$e )", why="string! shorthand"),
        Rule("R1", "$a . to_owned ( ) + & $b . to_string ( )", "concat ( $a , & $b . to_string ( ) )", why="String + &str: the characters of the left followed by those of the right"),
        Rule("R1", "$a . to_string ( ) + $b", "concat ( & $a . to_string ( ) , $b )", why="String + &str"),
        Rule("R1", "$a . to_owned ( ) + $b", "concat ( $a , $b )", why="String + &str"),
    ]
    fns, obls = [], []
    for name, pat, sig, post in ARMS:
        try:
            arm = extract_match_arm(f["body"], pat)
        except Exception as e:
            raise Undecided(f"{FILE}: arm {pat} of Add for &Primitive not found: {e}")
        b = translate(arm["body"], R, log, f"Add[{name}]")
        check_closed(b, f"Add[{name}]")
        fns.append(f"""
//@ OBL C14.concat.{name}
pub fn add_{name}({sig}) -> (r: Primitive)
    ensures {post},
{{
{render(b, 1).rstrip().rstrip(',')}
}}
""")
        obls.append(Obl(f"C14.concat.{name}", ["C14", "C13"], fn=f"Add for &Primitive[{pat.replace(' ', '')}]", desc=f"string concatenation ({name}): left operand's characters / text first, then the right one's; nothing dropped or added"))
    # the order of the three arms matters: (Str, Str) must come before the two mixed ones, which would otherwise show the string operand with Display
    order = [text(arm_pat) for arm_pat in ()]
    gen = header(log, f"{FILE}: impl Add for &Primitive, string arms") + SPEC + "\n".join(fns) + "\n} // verus!\nfn main() {}\n"
    return gen, obls, log


UNITS = [VUnit("c14_concat", ["C14", "C13"], "string concatenation with `+`", build)]
UNITS[0].assumes = ["String + &str appends; Display for Primitive (`to_string`) is the text `print` shows (uninterpreted here)", "the numeric arms are C05's, the list arm C13.concat.new-list"]

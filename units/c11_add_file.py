"""C11 / C04: one instance per file -- Program::add_file and Program::get_file (bytecode/src/interpreter.rs).  Every call into a file, every import of
it, first asks `add_file(path)`: a path that is registered already is NOT opened again (no second instance, no second run of its loader), and the
module cache's entry `PATH#__module__` is the export table OF THE REGISTERED FILE (the shared handle, not a copy); a new path is opened once,
registered under exactly that path, and its export table entered under `PATH#__module__`; when opening fails nothing is registered.
`get_file` hands out the registered instance, or fails."""
from vlib.rules import *

FILE = "bytecode/src/interpreter.rs"

SPEC = r"""
use vstd::prelude::*;
verus! {
pub struct VErr;
#[verifier::external_body] pub struct VString { x: usize }
pub uninterp spec fn text_of(s: &VString) -> Seq<char>;
impl VString { #[verifier::external_body] pub fn clone(&self) -> (r: VString) ensures text_of(&r) == text_of(self) { unimplemented!() } }
pub uninterp spec fn module_key(path: Seq<char>) -> Seq<char>;                 // format!("{path}#__module__")
#[verifier::external_body] pub fn fmt_module_key(p: &VString) -> (r: VString) ensures text_of(&r) == module_key(text_of(p)) { unimplemented!() }
// a loaded file: an identity and its export table (a shared handle: Gc<GcCell<..>>, clones are the same table)
#[verifier::external_body] pub struct FileV { x: usize }
pub uninterp spec fn file_id(f: &FileV) -> int;
pub uninterp spec fn exports_of(f: &FileV) -> int;
#[verifier::external_body] pub struct ExportsH { x: usize }
pub uninterp spec fn table_id(e: &ExportsH) -> int;
impl FileV {
    #[verifier::external_body] pub fn get_exports(&self) -> (r: ExportsH) ensures table_id(&r) == exports_of(self) { unimplemented!() }
    #[verifier::external_body] pub fn clone(&self) -> (r: FileV) ensures file_id(&r) == file_id(self), exports_of(&r) == exports_of(self) { unimplemented!() }      // Rc clone: the same instance
}
impl ExportsH { #[verifier::external_body] pub fn clone(&self) -> (r: ExportsH) ensures table_id(&r) == table_id(self) { unimplemented!() } }
// MScriptFile::open: a NEW instance (unit c04_open), or a failure; the ghost log counts what was opened
pub struct World { pub opened: Ghost<Seq<Seq<char>>> }
#[verifier::external_body] pub fn open_file(w: &mut World, p: VString) -> (r: Result<FileV, VErr>)
    ensures r is Ok ==> final(w).opened@ == old(w).opened@.push(text_of(&p)), r is Err ==> final(w).opened@ == old(w).opened@ { unimplemented!() }
// the two registries
pub struct Files { pub m: Ghost<Map<Seq<char>, (int, int)>> }       // path -> (file identity, its export table)
pub struct Cache { pub m: Ghost<Map<Seq<char>, int>> }               // `PATH#__module__` -> export table
impl Files {
    #[verifier::external_body] pub fn get(&self, p: &VString) -> (r: Option<FileV>) ensures r is Some <==> self.m@.contains_key(text_of(p)), r is Some ==> (file_id(&r->Some_0), exports_of(&r->Some_0)) == self.m@[text_of(p)] { unimplemented!() }
    #[verifier::external_body] pub fn insert(&mut self, p: VString, f: FileV) ensures final(self).m@ == old(self).m@.insert(text_of(&p), (file_id(&f), exports_of(&f))) { unimplemented!() }
}
impl Cache {
    #[verifier::external_body] pub fn contains_key(&self, k: &VString) -> (r: bool) ensures r == self.m@.contains_key(text_of(k)) { unimplemented!() }
    #[verifier::external_body] pub fn insert(&mut self, k: VString, e: ExportsH) ensures final(self).m@ == old(self).m@.insert(text_of(&k), table_id(&e)) { unimplemented!() }
}
pub struct Program { pub files_in_use: Files, pub module_cache: Cache }
"""


def build(repo):
    src = Source(repo)
    log = []
    fa = src.fn(FILE, "add_file", "impl Program")
    b = translate(fa["body"], [
        Rule("R10", "self . files_in_use . borrow ( ) . get ( & path )", "self . files_in_use . get ( & path )", why="RefCell borrow of the file registry (R10)"),
        Rule("R10", "let mut view = self . module_cache . borrow_mut ( ) ;", "", why="RefCell borrow of the module cache: explicit state (R10)"),
        Rule("R10", "let mut exports = self . module_cache . borrow_mut ( ) ;", "", why="RefCell borrow of the module cache (R10)"),
        Rule("R10", "let mut borrow = self . files_in_use . borrow_mut ( ) ;", "", why="RefCell borrow of the file registry (R10)"),
        Rule("R1", "use std :: borrow :: Borrow ;", "", why="trait import"),
        Rule("R10", "view . contains_key :: < String > ( path . borrow ( ) )", "self . module_cache . contains_key ( & path )", why="HashMap::contains_key on the cache"),
        Rule("R10", "view . insert ( $$a ) ;", "self . module_cache . insert ( $$a ) ;", why="HashMap::insert on the cache"),
        Rule("R10", "exports . insert ( $$a ) ;", "self . module_cache . insert ( $$a ) ;", why="HashMap::insert on the cache"),
        Rule("R10", "borrow . insert ( path , new_file ) ;", "self . files_in_use . insert ( path , new_file ) ;", why="HashMap::insert on the registry"),
        Rule("R9", "format ! ( \"{path}#__module__\" )", "fmt_module_key ( & path )", why="format!(\"{path}#__module__\"): the module's cache key"),
        Rule("R1", "RefCell :: new ( $$e )", "$$e", why="RefCell wrapper dropped"),
        Rule("R6", "MScriptFile :: open ( Rc :: clone ( & path ) ) ?", "open_file ( world , path . clone ( ) ) ?", why="loading the file: abstract (a new instance or a failure), counted in the ghost log"),
    ], log, "Program::add_file")
    check_closed(b, "Program::add_file")
    gen = header(log, f"{FILE}: Program::add_file") + SPEC + f"""
impl Program {{
    //@ OBL C11.add_file.one-instance
    pub fn add_file(&mut self, path: VString, world: &mut World) -> (r: Result<bool, VErr>)
        // every key of the module cache is a `P#__module__` (this function and Program::execute are the only writers); the registered-path branch asks the cache
        // for the BARE path before it (re-)enters the module key -- a test that is never true, which is what keeps the entry current
        requires !old(self).module_cache.m@.contains_key(text_of(&path)),
        ensures
            // a registered path is never opened again; its cache entry is the registered file's own export table
            old(self).files_in_use.m@.contains_key(text_of(&path)) ==> r == Ok::<bool, VErr>(false) && final(world).opened@ == old(world).opened@
                && final(self).files_in_use.m@ == old(self).files_in_use.m@
                && final(self).module_cache.m@ == old(self).module_cache.m@.insert(module_key(text_of(&path)), old(self).files_in_use.m@[text_of(&path)].1),
            // a new path: opened exactly once, registered under exactly this path, its export table entered under `PATH#__module__`
            (!old(self).files_in_use.m@.contains_key(text_of(&path)) && r is Ok) ==> r->Ok_0 && final(world).opened@ == old(world).opened@.push(text_of(&path))
                && final(self).files_in_use.m@.dom() =~= old(self).files_in_use.m@.dom().insert(text_of(&path))
                && (forall|k: Seq<char>| old(self).files_in_use.m@.contains_key(k) ==> #[trigger] final(self).files_in_use.m@[k] == old(self).files_in_use.m@[k])
                && final(self).module_cache.m@ == old(self).module_cache.m@.insert(module_key(text_of(&path)), final(self).files_in_use.m@[text_of(&path)].1),
            // a failing open registers nothing
            r is Err ==> final(self).files_in_use.m@ == old(self).files_in_use.m@ && final(self).module_cache.m@ == old(self).module_cache.m@,
    {{
{render(b, 2)}
    }}
}}
}} // verus!
fn main() {{}}
"""
    return gen, [Obl("C11.add_file.one-instance", ["C11", "C04"], fn="Program::add_file", desc="add_file: a registered path is not opened again and its cache entry is the registered file's own export table; a new path is opened once and registered under that path; a failing open registers nothing")], log


UNITS = [VUnit("c11_add_file", ["C11", "C04"], "one instance per file path; the module cache points at its export table", build)]
UNITS[0].assumes = ["RefCell<HashMap> registries as explicit state (R10, single-threaded); Rc / Gc clones are the same instance / the same table; MScriptFile::open abstract (unit c04_open)",
                    "which spelling a path arrives in: units c04_program_new (entry), c11_jump_label (labels), c11_path (imports)"]

"""C11 / C07 / C01: where a call goes -- the head of Program::process_standard_jump_request (bytecode/src/interpreter.rs): the label `FILE#name` a
`make_function` / `call` / import carries is split at its LAST `#` into the file (every `\\` written `/`: the spelling files are registered under,
unit c04_program_new) and `#name`, whose tail is the function run in that file (the tail of the function: unit c19_jump_error).  A `#` inside the
file's path does not confuse the split (the last one counts); a label without any `#` underflows the position counter (a panic) -- the
precondition here, guaranteed by the compiler's `format!("{path}#{id}")` labels (units c08_class_compile, c07_function_value)."""
from vlib.rules import *
from vlib.pattern import Pat

FILE = "bytecode/src/interpreter.rs"

SPEC = r"""
use vstd::prelude::*;
verus! {
pub struct VErr;
pub open spec fn has_hash(s: Seq<char>) -> bool { exists|i: int| 0 <= i < s.len() && s[i] == '#' }
pub open spec fn no_hash_after(s: Seq<char>, i: int) -> bool { forall|j: int| i < j < s.len() ==> s[j] != '#' }
pub uninterp spec fn slashed(t: Seq<char>) -> Seq<char>;                 // every `\` written `/`
#[verifier::external_body] pub fn replace_backslashes(s: &Vec<char>) -> (r: Vec<char>) ensures r@ == slashed(s@) { unimplemented!() }
// str::split_at: panics when the position is past the end (R8)
pub fn split_at(s: &Vec<char>, at: usize) -> (r: (Vec<char>, Vec<char>)) requires at <= s@.len() ensures r.0@ == s@.subrange(0, at as int), r.1@ == s@.subrange(at as int, s@.len() as int)
{
    let mut a: Vec<char> = Vec::new(); let mut b: Vec<char> = Vec::new(); let mut i: usize = 0;
    while i < s.len() invariant i <= s@.len(), at <= s@.len(), a@ == s@.subrange(0, if i < at { i as int } else { at as int }), b@ == s@.subrange(at as int, if i < at { at as int } else { i as int }) decreases s@.len() - i
    { if i < at { a.push(s[i]); proof { assert(s@.subrange(0, i + 1) =~= s@.subrange(0, i as int).push(s@[i as int])); } } else { b.push(s[i]); proof { assert(s@.subrange(at as int, i + 1) =~= s@.subrange(at as int, i as int).push(s@[i as int])); } } i += 1; }
    proof { assert(s@.subrange(at as int, at as int) =~= Seq::<char>::empty()); }
    (a, b)
}
"""


def build(repo):
    src = Source(repo)
    log = []
    f = src.fn(FILE, "process_standard_jump_request", "impl Program")
    body = list(f["body"])
    a = next((i for i in range(len(body)) if Pat("let mut last_hash = $$e ;").match_at(body, i)), None)
    pz = Pat("let path = path . to_string ( ) . replace ( $$e ) ;")
    z = None
    for i in range(a or 0, len(body)):
        r = pz.match_at(body, i)
        if r:
            z = r[0]; break
    if a is None or z is None:
        raise Undecided(f"{FILE}: the label parsing of process_standard_jump_request (`let mut last_hash = ..;` .. `let path = path.to_string().replace(..);`) not found")
    frag = body[a:z]
    log.append(("R0", "process_standard_jump_request", "from `let mut last_hash` to `let path = path.to_string().replace('\\\\', \"/\");`", "fragment: the label text is a parameter; (path, label) is the result"))
    INV = ("invariant_except_break has_hash(destination_label@), verif_k <= destination_label@.len(), last_hash + verif_k + 1 == destination_label@.len(), forall|j: int| destination_label@.len() - verif_k <= j < destination_label@.len() ==> destination_label@[j] != '#',\n"
           "ensures verif_k < destination_label@.len() && destination_label@[destination_label@.len() - 1 - verif_k] == '#' && last_hash + verif_k + 1 == destination_label@.len() && (forall|j: int| destination_label@.len() - verif_k <= j < destination_label@.len() ==> destination_label@[j] != '#'),\n"
           "decreases destination_label@.len() - verif_k")
    b = translate(frag, [
        Rule("R2", "for char in destination_label . chars ( ) . rev ( ) { $$body }",
             lambda bb: ["let mut verif_k : usize = 0 ; while verif_k < destination_label . len ( )", G(INV), "{",
                         "let char = destination_label [ destination_label . len ( ) - 1 - verif_k ] ;", *bb["body"], "verif_k += 1 ;", "}"],
             count=1, why="for over chars().rev(): the characters from the last to the first (text as characters, R1: the part behind the last `#` is an identifier -- ASCII -- so byte and character positions agree there)"),
        Rule("R8", "destination_label . split_at ( last_hash )", "split_at ( destination_label , last_hash )", why="str::split_at with its panic precondition"),
        Rule("R9", "path . to_string ( ) . replace ( '\\\\' , \"/\" )", "replace_backslashes ( & path )", why="str::replace('\\\\', \"/\")"),
    ], log, "process_standard_jump_request[label]")
    check_closed(b, "process_standard_jump_request[label]")
    gen = header(log, f"{FILE}: Program::process_standard_jump_request, label parsing") + SPEC + f"""
//@ OBL C11.jump.label-split
pub fn split_label(destination_label: &Vec<char>) -> (r: (Vec<char>, Vec<char>))
    requires has_hash(destination_label@)               // R8: a label without `#` underflows the position counter; the compiler writes `FILE#name`
    ensures ({{ let s = destination_label@;
        exists|i: int| 0 <= i < s.len() && s[i] == '#' && no_hash_after(s, i) && r.0@ == slashed(s.subrange(0, i)) && r.1@ == s.subrange(i, s.len() as int) }}),
{{
    proof {{ let w = choose|i: int| 0 <= i < destination_label@.len() && destination_label@[i] == '#'; }}
{render(b, 1)}
    proof {{
        let s = destination_label@; let i = last_hash as int;
        assert(s[i] == '#'); assert(no_hash_after(s, i));
    }}
    (path, label)
}}
}} // verus!
fn main() {{}}
"""
    return gen, [Obl("C11.jump.label-split", ["C11", "C07", "C01"], fn="Program::process_standard_jump_request[label]", desc="a label `FILE#name` is split at its LAST `#`: the file (backslashes as slashes) and `#name`; needs a `#` in the label")], log


UNITS = [VUnit("c11_jump_label", ["C11", "C07", "C01"], "a jump label is split at its last #", build)]
UNITS[0].assumes = ["text as characters (R1): the name behind the last `#` is ASCII (an identifier, `Class::method`, `__fn7`, `__module__`), so the character count from the end is the byte position `split_at` takes",
                    "precondition: the label contains a `#` (the compiler's labels are `format!(\"{path}#{id}\")`)"]

"""C10 / C11: `import m` -- Parser::import_standard (import.rs): the name the module is bound to is registered as a constant (and only if it is
not in use yet), so an importer can neither rebind the module nor, through the const checks rooted at it, write its members."""
from vlib.rules import *

FILE = "compiler/src/ast/import.rs"

SPEC = r"""
#[verifier::external_body] pub struct PathV { x: usize }
#[verifier::external_body] pub struct NameV { x: usize }
#[verifier::external_body] pub struct ModV { x: usize }
pub struct Ident { pub name: NameV, pub ty: Option<ModV>, pub read_only: bool }
impl Ident { pub fn new(name: NameV, ty: Option<ModV>, read_only: bool) -> (r: Ident) ensures r.name == name, r.ty == ty, r.read_only == read_only { Ident { name, ty, read_only } } }     // obligation C10.ident.new
#[verifier::external_body] pub fn import_path(n: Node) -> (r: Result<PathV, VErr>) { unimplemented!() }
#[verifier::external_body] pub fn file_stem(p: &PathV) -> (r: NameV) { unimplemented!() }
pub uninterp spec fn in_use(n: &Node, name: NameV) -> bool;
#[verifier::external_body] pub fn has_name_been_mapped(n: &Node, name: &NameV) -> (r: bool) ensures r == in_use(n, *name) { unimplemented!() }
#[verifier::external_body] pub fn do_import(n: &Node, p: &PathV) -> (r: Result<ModV, VErr>) { unimplemented!() }
// registration in the importing scope: what becomes visible is a constant
#[verifier::external_body] pub fn add_dependency(n: &Node, i: &Ident) requires i.read_only { unimplemented!() }
#[verifier::external_body] pub struct LockV { x: usize }
#[verifier::external_body] pub fn lock_new() -> (r: LockV) { unimplemented!() }
pub enum Import { Standard { path: PathV, store: Ident, should_queue: LockV }, Other }
"""


def build(repo):
    src = Source(repo)
    log = []
    f = src.fn(FILE, "import_standard")
    b = translate(f["body"], [
        Rule("R6", "input . children ( )", "children ( & input )", why="pest API abstract"),
        Rule("R8", "children . next ( ) . unwrap ( )", "unwrap_node ( children . next ( ) )", why="unwrap on a child: grammar child count (R8)"),
        Rule("R1", "let path_span = path_node . as_span ( ) ;", "", why="span only feeds a diagnostic"),
        Rule("R6", "Self :: import_path ( path_node ) . to_err_vec ( ) ?", "import_path ( path_node ) ?", why="sub-parser abstract"),
        Rule("R9", "let no_extension = path . with_extension ( \"\" ) ; let file_name = no_extension . file_name ( ) . expect ( $m ) . to_string_lossy ( ) ;", "let file_name = file_stem ( & path ) ;", count=1,
             why="the module's name = file stem of the path (std::path; abstract)"),
        Rule("R6", "input . user_data ( ) . has_name_been_mapped ( & file_name )", "has_name_been_mapped ( & input , & file_name )", why="scope lookup abstract"),
        Rule("R3", "return Err ( vec ! [ new_err ( $$a ) ] ) ;", "return Err ( VErr ) ;", why="diagnostic construction dropped"),
        Rule("R6", "input . user_data ( ) . import ( Arc :: new ( path . with_extension ( \"ms\" ) ) ) ?", "do_import ( & input , & path ) ?", why="module import (compile queue) abstract"),
        Rule("R1", "file_name . into_owned ( )", "file_name", why="Cow::into_owned"),
        Rule("R1", "Some ( Cow :: Owned ( TypeLayout :: Module ( result . module ( ) ) ) )", "Some ( result )", why="the module's type: abstract"),
        Rule("R6", "input . user_data ( ) . add_dependency ( & ident ) ;", "add_dependency ( & input , & ident ) ;", why="registration in the importing scope: abstract callee that requires a constant"),
        Rule("R1", "CompilationLock :: new ( )", "lock_new ( )", why="abstract"),
    ], log, "Parser::import_standard")
    check_closed(b, "Parser::import_standard")
    gen = header(log, f"{FILE}: Parser::import_standard") + prelude("parser.rs") + SPEC + f"""
//@ OBL C10.import.alias-const
pub fn import_standard(input: Node) -> (r: Result<Import, VErr>)
    requires node_children(&input).len() >= 1
    ensures r is Ok ==> r->Ok_0 is Standard && r->Ok_0->store.read_only && !in_use(&input, r->Ok_0->store.name),
{{
{render(b, 1)}
}}
}} // verus!
fn main() {{}}
"""
    return gen, [Obl("C10.import.alias-const", ["C10", "C11"], fn="Parser::import_standard", desc="import_standard: the module is bound to a name that was free, registered and returned as a constant")], log


UNITS = [VUnit("c10_import", ["C10", "C11"], "`import m`: the module's name is a constant", build)]
UNITS[0].assumes = ["pest API, path handling, the import itself abstract; import_names (members keep the exporter's flag) not under contract"]

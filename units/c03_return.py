"""C03 / C02: Parser::return_statement -- the wants / gets table of `return`: a value where none is expected, no value where one is expected,
and a value of the wrong type are all diagnostics; every `return` marks the innermost scope as returning."""
from vlib.rules import *

FILE = "compiler/src/ast/return.rs"

SPEC = r"""
#[verifier::external_body] pub struct UD { x: usize }
pub uninterp spec fn marked(u: &UD) -> bool;                       // innermost scope: status Did (see unit c03_conditions)
#[verifier::external_body] pub fn mark_completed(u: &mut UD) ensures marked(final(u)) { unimplemented!() }
// the return type the enclosing function declares (None: a void function)
pub uninterp spec fn expected_return(n: &Node) -> Option<TypeLayout>;
#[verifier::external_body] pub struct RetStatus { x: usize }
pub uninterp spec fn status_type(s: &RetStatus) -> Option<TypeLayout>;
#[verifier::external_body] pub fn get_return_type(n: &Node) -> (r: RetStatus) ensures status_type(&r) == expected_return(n) { unimplemented!() }
impl RetStatus {
    #[verifier::external_body] pub fn get_type(&self) -> (r: Option<&TypeLayout>) ensures r is Some <==> status_type(self) is Some, r is Some ==> *r->Some_0 == status_type(self)->Some_0 { unimplemented!() }
}
pub uninterp spec fn resolved(t: TypeLayout) -> TypeLayout;
pub uninterp spec fn the_class(n: &Node) -> Option<&ClassType>;
#[verifier::external_body] pub fn the_class_of(n: &Node) -> (r: Option<&ClassType>) ensures r == the_class(n) { unimplemented!() }
pub trait VerifTy { fn get_type_recursively(&self) -> &TypeLayout; }
impl VerifTy for TypeLayout { #[verifier::external_body] fn get_type_recursively(&self) -> (r: &TypeLayout) ensures *r == resolved(*self) { unimplemented!() } }
// expected.eq_complex(supplied, use_class(..).lhs_unwrap(b)): the compatibility test, with the flag that additionally lets an OPTIONAL supplied
// type stand for its payload (`int?` where `int` is expected) -- a returned value must fit WITHOUT that: a `T?` may be nil
pub uninterp spec fn ret_fits(expected: TypeLayout, supplied: TypeLayout, n: &Node, unwrap_supplied_optional: bool) -> bool;
#[verifier::external_body] pub fn ret_eq_complex(expected: &TypeLayout, supplied: &TypeLayout, n: &Node, unwrap_supplied_optional: bool) -> (r: bool) ensures r == ret_fits(*expected, *supplied, n, unwrap_supplied_optional) { unimplemented!() }
// the type admits nil (TypeLayout::is_optional().0, wrappers of captured variables looked through)
pub uninterp spec fn may_be_nil(t: TypeLayout) -> bool;
pub trait VerifOpt { fn is_optional(&self) -> (bool, Option<&TypeLayout>); }
impl VerifOpt for TypeLayout { #[verifier::external_body] fn is_optional(&self) -> (r: (bool, Option<&TypeLayout>)) ensures r.0 == may_be_nil(*self) { unimplemented!() } }
pub struct ReturnStatement { pub value: Option<Value>, pub ends_module: bool }
// the statement stands inside a function or method (some enclosing scope is a function scope) -- otherwise it is top-level code of its file
pub uninterp spec fn inside_function(n: &Node) -> bool;
#[verifier::external_body] pub fn is_inside_function(n: &Node) -> (r: bool) ensures r == inside_function(n) { unimplemented!() }
pub fn first_child(n: &Node) -> (r: Option<Node>) ensures node_children(n).len() == 0 ==> r is None, node_children(n).len() > 0 ==> r == Some(node_children(n)[0]) { let mut c = children(n); c.next() }
"""


def build(repo):
    src = Source(repo)
    log = []
    f = src.fn(FILE, "return_statement", "impl Parser")
    b = translate(f["body"], [
        Rule("R10", "input . user_data ( ) . mark_should_return_as_completed ( ) ;", "mark_completed ( ud ) ;", why="scope stack as explicit state (R10)"),
        Rule("R6", "input . children ( ) . next ( )", "first_child ( & input )", why="pest API abstract"),
        Rule("R6", "input . user_data ( ) . is_inside_function ( )", "is_inside_function ( & input )", why="scope query abstract"),
        Rule("R6", "input . user_data ( ) . get_return_type ( )", "get_return_type ( & input )", why="enclosing function's declared return status (abstract)"),
        Rule("R3", "return Err ( vec ! [ new_err ( $$a ) ] ) ;", "return Err ( VErr ) ;", why="diagnostic construction dropped (that a diagnostic IS returned is kept)"),
        Rule("R6", "Self :: value ( value_node ) ?", "parse_value ( value_node ) ?", why="sub-parser abstract"),
        Rule("R6", "value . for_type ( & TypecheckFlags :: use_class ( input . user_data ( ) . get_type_of_executing_class ( ) , ) ) . to_err_vec ( ) ?", "value_for_type ( & value , the_class_of ( & input ) ) ?", why="type query abstract"),
        Rule("R1", "let class_type = input . user_data ( ) . get_type_of_executing_class ( ) ;", "", why="class for the comparison flags: folded into the abstract comparison"),
        Rule("R6", "! expected_return_type . eq_complex ( & Cow :: Borrowed ( supplied_type ) , & TypecheckFlags :: use_class ( class_type ) , )",
             "! ret_eq_complex ( expected_return_type , supplied_type , & input , false )", why="compatibility test abstract; no leniency flag"),
        Rule("R6", "! expected_return_type . eq_complex ( & Cow :: Borrowed ( supplied_type ) , & TypecheckFlags :: use_class ( class_type ) . lhs_unwrap ( $b ) , )",
             "! ret_eq_complex ( expected_return_type , supplied_type , & input , $b )", why="compatibility test abstract; its `lhs_unwrap` flag (an optional supplied type may stand for its payload) is kept visible"),
    ], log, "Parser::return_statement")
    check_closed(b, "Parser::return_statement")
    gen = header(log, f"{FILE}: Parser::return_statement") + prelude("parser.rs") + SPEC + f"""
//@ OBL C03.return.table
pub fn return_statement(input: Node, ud: &mut UD) -> (r: Result<ReturnStatement, VErr>)
    ensures
        marked(final(ud)),
        // wants a value, gets none / wants none, gets one: diagnostics
        (node_children(&input).len() == 0 && expected_return(&input) is Some) ==> r is Err,
        (node_children(&input).len() == 0 && expected_return(&input) is None) ==> r is Ok && r->Ok_0.value is None
            // C11: a bare `return` in the top-level code of a file ENDS THE MODULE'S CODE (the importer gets the module), anywhere else it leaves a function
            && r->Ok_0.ends_module == !inside_function(&input),
        (node_children(&input).len() > 0 && expected_return(&input) is None) ==> r is Err,
        // wants a value, gets one: accepted only if its type passed the STRICT compatibility test against the declared return type (D86: with the
        // optional-unwrap leniency a `[int?...]` was returned from `-> [int...]`)
        (r is Ok && node_children(&input).len() > 0) ==> expected_return(&input) is Some && r->Ok_0.value is Some && !r->Ok_0.ends_module
            && type_of(&r->Ok_0.value->Some_0, the_class(&input)) is Some
            && ret_fits(expected_return(&input)->Some_0, resolved(type_of(&r->Ok_0.value->Some_0, the_class(&input))->Some_0), &input, false)
            // ... and a value that may be nil is never accepted where the declared type does not admit nil (`return x`, x: int?, from `-> int`: D40)
            && !(may_be_nil(resolved(type_of(&r->Ok_0.value->Some_0, the_class(&input))->Some_0)) && !may_be_nil(expected_return(&input)->Some_0)),
{{
{render(b, 1)}
}}

}} // verus!
fn main() {{}}
"""
    return gen, [Obl("C03.return.table", ["C03", "C02"], fn="Parser::return_statement", desc="Parser::return_statement: the wants/gets table (blank return in a typed function, value in a void function, mismatching type are diagnostics); every return marks the innermost scope")], log


UNITS = [VUnit("c03_return", ["C03", "C02"], "return: wants / gets table and scope marking", build)]
UNITS[0].assumes = ["pest API, sub-parsers and the enclosing function's declared return status abstract; the compatibility test uninterpreted per value of its lhs_unwrap flag; diagnostics dropped"]

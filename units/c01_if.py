"""C01/C09: IfStatement::compile + ElseStatement::compile -- jump layout for all block lengths."""
from vlib.rules import *

FILE = "compiler/src/ast/if_statement.rs"

SPEC = r"""
pub struct Value; pub struct Block;
#[verifier::external_body] pub fn value_compile(v: &Value, s: &CompilationState) -> (r: Result<Vec<CompiledItem>, VErr>) { unimplemented!() }
#[verifier::external_body] pub fn block_compile(v: &Block, s: &CompilationState) -> (r: Result<Vec<CompiledItem>, VErr>) { unimplemented!() }

pub enum ElseStatement { Block(Block), IfStatement(Box<IfStatement>) }
pub struct IfStatement { pub value: Value, pub body: Block, pub else_statement: Option<ElseStatement> }

// Layout demanded by the statement (C01: `if`/`else if`/`else` semantics; C09: every jump lands inside the
// function, every frame opened is closed exactly once).  out = cond(c) ++ [if_stmt n] ++ body(b) ++ [done]
//   (++ [jmp m] ++ else_part(e))
//  - false condition: if_stmt jumps to the instruction right after `done` when there is no else part, and to the
//    first instruction of the else part (just past the `jmp`) when there is one;
//  - true branch: after `done` the `jmp` lands one past the whole else part.
pub open spec fn if_layout(out: Seq<CompiledItem>, c: int, b: int, e: int, has_else: bool) -> bool {
    0 <= c && 0 <= b && 0 <= e &&
    if !has_else {
        out.len() == c + 1 + b + 1
            && is_instr(out[c], IF_STMT) && nargs(out[c]) == 1
            && c + argn(out[c], 0) == out.len()
            && is_instr(out[c + 1 + b], DONE)
    } else {
        out.len() == c + 1 + b + 1 + 1 + e
            && is_instr(out[c], IF_STMT) && nargs(out[c]) == 1
            && is_instr(out[c + 1 + b], DONE)
            && is_instr(out[c + 1 + b + 1], JMP) && nargs(out[c + 1 + b + 1]) == 1
            && c + argn(out[c], 0) == c + 1 + b + 1 + 1
            && (c + 1 + b + 1) + argn(out[c + 1 + b + 1], 0) == out.len()
    }
}
pub open spec fn if_wellformed(out: Seq<CompiledItem>, has_else: bool) -> bool {
    exists|c: int, b: int, e: int| #[trigger] if_layout(out, c, b, e, has_else)
}
// an else part is its content bracketed by else_stmt .. done (one frame opened, one closed)
pub open spec fn else_layout(out: Seq<CompiledItem>) -> bool {
    out.len() >= 2 && is_instr(out[0], ELSE_STMT) && is_instr(out[out.len() - 1], DONE)
}
"""


def build(repo):
    src = Source(repo)
    ids = opcode_ids(repo)
    log = []
    f_if = src.fn(FILE, "compile", "impl Compile for IfStatement")
    f_else = src.fn(FILE, "compile", "impl Compile for ElseStatement")

    common = [R12_VEC_EMPTY, r_instruction(ids)]
    rules_if = common + [
        Rule("R6", "self . value . compile ( state )", "value_compile ( & self . value , state )", count=1, why="child Value::compile abstract (arbitrary result)"),
        Rule("R6", "self . body . compile ( state )", "block_compile ( & self . body , state )", count=1, why="child Block::compile abstract (arbitrary result)"),
        # ghost splices (R11)
        Rule("R11", "let mut $v = value_compile ( $$a ) ? ;", ["let mut $v = value_compile ( $$a ) ? ;", G("let ghost c = $v@.len() as int;")], count=1),
        Rule("R11", "let mut $v = block_compile ( $$a ) ? ;",
             ["let mut $v = block_compile ( $$a ) ? ;",
              G("let ghost b = $v@.len() as int; let ghost mut e: int = 0;\nassume($v.len() < 0x1000_0000);  // stated assumption: block lengths < 2^28")], count=1),
        Rule("R11", "let mut $v = else_statement . compile ( state ) ? ;",
             ["let mut $v = else_statement . compile ( state ) ? ;",
              G("assume($v.len() < 0x1000_0000);  // stated assumption: block lengths < 2^28\nproof { e = $v@.len() as int; }")], count=1),
        Rule("R11", "Ok ( $r )",
             [G("""proof {
    let out = $r@;
    assert(is_instr(out[c], IF_STMT));
    assert(is_instr(out[c + 1 + b], DONE));
    if self.else_statement.is_some() { assert(is_instr(out[c + 1 + b + 1], JMP)); }
    assert(if_layout(out, c, b, e, self.else_statement.is_some()));
}"""), "Ok ( $r )"], count=1),
    ]
    rules_else = common + [
        Rule("R6", "block . compile ( state )", "block_compile ( block , state )", count=1, why="child Block::compile abstract"),
    ]
    t_if = translate(f_if["body"], rules_if, log, "IfStatement::compile")
    t_else = translate(f_else["body"], rules_else, log, "ElseStatement::compile")
    check_closed(t_if, "IfStatement::compile"); check_closed(t_else, "ElseStatement::compile")

    gen = header(log, f"{FILE}: IfStatement::compile, ElseStatement::compile") + prelude("compile.rs") + \
        opcode_consts(ids, ["if_stmt", "done", "jmp", "else_stmt"]) + SPEC + f"""
impl ElseStatement {{
    //@ OBL C01.else.layout
    pub fn compile(&self, state: &CompilationState) -> (r: Result<Vec<CompiledItem>, VErr>)
        ensures r is Ok ==> else_layout(r->Ok_0@)
        decreases self
    {{
{render(t_else, 2)}
    }}
}}

impl IfStatement {{
    //@ OBL C01.if.layout
    pub fn compile(&self, state: &CompilationState) -> (r: Result<Vec<CompiledItem>, VErr>)
        ensures r is Ok ==> if_wellformed(r->Ok_0@, self.else_statement.is_some())
        decreases self
    {{
{render(t_if, 2)}
    }}
}}

}} // verus!
fn main() {{}}
"""
    obls = [
        Obl("C01.if.layout", ["C01", "C09"], fn="IfStatement::compile",
            desc="IfStatement::compile: if_stmt lands just past `done` (no else) / on the first instruction of the else part; jmp lands one past the else part; for all block lengths and arbitrary child code"),
        Obl("C01.else.layout", ["C01", "C09"], fn="ElseStatement::compile",
            desc="ElseStatement::compile: content bracketed by else_stmt .. done"),
    ]
    return gen, obls, log


UNITS = [VUnit("c01_if", ["C01", "C09"], "if/else layout", build)]

"""C02 / C13: "is this receiver a map, a list or a string?" -- asked three times on the way from `v[i]` to an instruction:
`TypeLayout::supports_index` (the type check: is indexing allowed, with which index type), `TypeLayout::is_map` (Parser::list_index: the
chain starts at a map) and `IndexInstruction::from` (which instruction each link gets: map_op / vec_op).  All three must look at the receiver's
type through the SAME view -- the captured-variable wrapper removed, nothing else -- or the type check accepts an indexing that code generation
compiles with the instruction of the wrong kind (`vec_op` on a map stops the program with a dynamic type error)."""
from vlib.rules import *
from vlib.extract import extract_item

TYPE = "compiler/src/ast/type.rs"
LIST = "compiler/src/ast/list.rs"

SPEC = r"""
use vstd::prelude::*;
verus! {
#[verifier::external_body] pub struct OtherV { x: usize }
#[verifier::external_body] pub struct MapType { x: usize }
#[verifier::external_body] pub struct ListType { x: usize }
#[verifier::external_body] pub struct StrW { x: usize }
#[verifier::external_body] pub struct Bound { x: usize }
pub enum NativeType { Str(StrW), Int, BigInt, Other(OtherV) }
pub enum TypeLayout { CallbackVariable(Box<TypeLayout>), Map(MapType), List(ListType), Native(NativeType), ValidIndexes(Bound), Other(OtherV) }
// the view every one of the three questions must use: the captured-variable wrapper removed
pub open spec fn peel(t: TypeLayout) -> TypeLayout decreases t { match t { TypeLayout::CallbackVariable(cb) => peel(*cb), other => other } }
// other views a change may bring in (aliases / optionals looked through): uninterpreted, NOT known to agree with peel
pub uninterp spec fn dd(t: TypeLayout, o: bool) -> TypeLayout;
impl TypeLayout {
    #[verifier::external_body] pub fn disregard_distractors(&self, o: bool) -> (r: &TypeLayout) ensures *r == dd(*self, o) { unimplemented!() }
}
impl MapType { #[verifier::external_body] pub fn key_type(&self) -> (r: &TypeLayout) { unimplemented!() } }
impl ListType { #[verifier::external_body] pub fn valid_indexes(&self) -> (r: Bound) { unimplemented!() } }
#[verifier::external_body] pub fn clone_ty(t: &TypeLayout) -> (r: TypeLayout) ensures r == *t { unimplemented!() }
pub struct SupportedTypesWrapper(pub Vec<TypeLayout>);
pub fn vec1(a: TypeLayout) -> (r: Vec<TypeLayout>) ensures r@ == seq![a] { let mut v = Vec::new(); v.push(a); v }
pub fn vec2(a: TypeLayout, b: TypeLayout) -> (r: Vec<TypeLayout>) ensures r@ == seq![a, b] { let mut v = Vec::new(); v.push(a); v.push(b); v }
pub enum IndexInstruction { VecOp, MapOp }
pub open spec fn indexable(t: TypeLayout) -> bool { t is Map || t is List || (t is Native && t->Native_0 is Str) }
"""


def build(repo):
    src = Source(repo)
    log = []
    fg = src.fn(TYPE, "get_type_recursively", "impl TypeLayout")
    bg = translate(fg["body"], [Rule("R1", "use TypeLayout :: * ;", "", why="glob import: variants written qualified"),
                                Rule("R1", "CallbackVariable ( cb )", "TypeLayout :: CallbackVariable ( cb )", why="qualified variant")], log, "TypeLayout::get_type_recursively")
    check_closed(bg, "get_type_recursively")
    fs = src.fn(TYPE, "supports_index", "impl TypeLayout")
    common = [Rule("R1", "Self :: $v", "TypeLayout :: $v", why="Self"),
              Rule("R1", "Box :: new ( [ Cow :: Owned ( TypeLayout :: Native ( NativeType :: Int ) ) , Cow :: Owned ( TypeLayout :: Native ( NativeType :: BigInt ) ) , ] )", "vec2 ( TypeLayout :: Native ( NativeType :: Int ) , TypeLayout :: Native ( NativeType :: BigInt ) )", why="boxed slice literal"),
              Rule("R1", "Box :: new ( [ Cow :: Owned ( TypeLayout :: ValidIndexes ( upper ) ) ] )", "vec1 ( TypeLayout :: ValidIndexes ( upper ) )", why="boxed slice literal"),
              Rule("R1", "Box :: new ( [ Cow :: Owned ( map_type . key_type ( ) . to_owned ( ) ) ] )", "vec1 ( clone_ty ( map_type . key_type ( ) ) )", why="boxed slice literal"),
              Rule("R9", "matches ! ( me , TypeLayout :: Map ( .. ) )", "( match me { TypeLayout :: Map ( .. ) => true , _ => false } )", why="matches! -> match")]
    bs = translate(fs["body"], common, log, "TypeLayout::supports_index")
    check_closed(bs, "supports_index")
    fm = src.fn(TYPE, "is_map", "impl TypeLayout")
    bm = translate(fm["body"], common, log, "TypeLayout::is_map")
    check_closed(bm, "is_map")
    # impl<T> From<T> for IndexInstruction
    try:
        it = src.item(LIST, "impl < T > From < T > for IndexInstruction")
        from vlib.extract import extract_fn
        ff = extract_fn(it["all"], "from")
    except Exception as e:
        raise Undecided(f"{LIST}: impl<T> From<T> for IndexInstruction not found: {e}")
    bf = translate(ff["body"], [Rule("R1", "let t : TypeLayout = value . into ( ) ;", "let t : TypeLayout = value ;", why="Into<TypeLayout>: the type itself"),
                                Rule("R1", "Self :: $v", "IndexInstruction :: $v", why="Self")], log, "IndexInstruction::from")
    check_closed(bf, "IndexInstruction::from")
    gen = header(log, f"{TYPE}: TypeLayout::get_type_recursively, supports_index, is_map; {LIST}: From<T> for IndexInstruction") + SPEC + f"""
impl TypeLayout {{
    //@ OBL C02.index.view
    pub fn get_type_recursively(&self) -> (r: &TypeLayout) ensures *r == peel(*self) decreases self
    {{
{render(bg, 2)}
    }}
    //@ OBL C02.index.supports
    pub fn supports_index(&self) -> (r: Option<SupportedTypesWrapper>)
        ensures r is Some <==> indexable(peel(*self)),
    {{
{render(bs, 2)}
    }}
    //@ OBL C02.index.is_map
    pub fn is_map(&self) -> (r: bool) ensures r == (peel(*self) is Map)
    {{
{render(bm, 2)}
    }}
}}
//@ OBL C02.index.instruction
pub fn index_instruction_from(value: TypeLayout) -> (r: IndexInstruction) ensures (r is MapOp) == (peel(value) is Map)
{{
{render(bf, 1)}
}}
}} // verus!
fn main() {{}}
"""
    obls = [Obl("C02.index.view", ["C02", "C13"], fn="TypeLayout::get_type_recursively", desc="get_type_recursively: the captured-variable wrapper removed, nothing else"),
            Obl("C02.index.supports", ["C02", "C13", "C03", "C16"], fn="TypeLayout::supports_index", desc="supports_index: indexing is allowed exactly for what that view shows to be a map, a list or a string (the view the index's code generation uses: a disagreement is a failed code generation, and inside a call argument a compiler panic -- C16)"),
            Obl("C02.index.is_map", ["C02", "C13"], fn="TypeLayout::is_map", desc="is_map: the same view"),
            Obl("C02.index.instruction", ["C02", "C13"], fn="IndexInstruction::from", desc="IndexInstruction::from: map_op exactly for what the same view shows to be a map")]
    return gen, obls, log


UNITS = [VUnit("c02_index_kind", ["C02", "C13", "C03", "C16"], "indexing: type check and code generation ask `is it a map?` through the same view", build)]
UNITS[0].assumes = ["the model TypeLayout keeps the variants these functions match on (others collapsed into Other)"]

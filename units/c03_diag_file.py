"""C03: "compilation fails with a diagnostic that names the SOURCE file".  Every diagnostic of the compiler is built by `new_err(span, file, message)`
(directly, or through `.details(span, file, message)` / `map_err(result, span, file, message)`).  For every such call in compiler/src (tests excluded)
the slice that computes the `file` argument -- the argument expression and the `let`s of the enclosing function it refers to -- is extracted and
verified: the name handed over is `AssocFileData::get_source_file_name()` (the `.ms` path), never `get_file_name()` (the `.mmm` path the bytecode
will be written to).  Dropped by the slice: everything else of the function.  A `file` argument that is a parameter of the enclosing function, or
that the slice cannot follow, is listed and not counted."""
from vlib.rules import *
from vlib.lexer import lex as _lex
from vlib.extract import match_close
import os, re

IDENT = re.compile(r"^[A-Za-z_][A-Za-z0-9_]*$")
FORMS = (("new_err", 1), ("details", 1), ("map_err", 2))

SPEC = r"""
use vstd::prelude::*;
verus! {
#[verifier::external_body] pub struct VStr { x: usize }
pub uninterp spec fn is_source_name(s: VStr) -> bool;
// AssocFileData::get_source_file_name(): the source path (`.ms`); get_file_name(): the path of the bytecode file (`.mmm`) -- not the source's
#[verifier::external_body] pub fn src_name() -> (r: VStr) ensures is_source_name(r) { unimplemented!() }
#[verifier::external_body] pub fn bc_name() -> (r: VStr) ensures !is_source_name(r) { unimplemented!() }
impl VStr {
    #[verifier::external_body] pub fn clone(&self) -> (r: VStr) ensures r == *self { unimplemented!() }
    #[verifier::external_body] pub fn to_owned(&self) -> (r: VStr) ensures r == *self { unimplemented!() }
    #[verifier::external_body] pub fn to_string(&self) -> (r: VStr) ensures r == *self { unimplemented!() }
    #[verifier::external_body] pub fn as_str(&self) -> (r: &VStr) ensures *r == *self { unimplemented!() }
}
// the diagnostic constructor, as far as the file it names is concerned
#[verifier::external_body] pub fn diagnostic_names(f: &VStr) requires is_source_name(*f) { unimplemented!() }
"""


def split_args(toks):
    args, cur, d = [], [], 0
    for t in toks:
        if t in ("(", "[", "{"): d += 1
        elif t in (")", "]", "}"): d -= 1
        if t == "," and d == 0:
            args.append(cur); cur = []
        else:
            cur.append(t)
    if cur: args.append(cur)
    return args


def normalise(expr):
    """`<receiver chain> . get_source_file_name ( )` -> src_name ( ) ; likewise get_file_name -> bc_name ( )"""
    out = list(expr)
    for meth, repl in (("get_source_file_name", "src_name"), ("get_file_name", "bc_name")):
        i = 0
        while i < len(out):
            if out[i] == meth and i + 2 < len(out) and out[i + 1] == "(" and out[i + 2] == ")" and i > 0 and out[i - 1] == ".":
                # walk back over the receiver chain: idents, `.`, `( )` groups
                s = i - 1
                while s > 0:
                    t = out[s - 1]
                    if t == ")":
                        depth, q = 0, s - 1
                        while q >= 0:
                            if out[q] == ")": depth += 1
                            if out[q] == "(":
                                depth -= 1
                                if depth == 0: break
                            q -= 1
                        s = q
                    elif IDENT.match(t) or t == ".":
                        s -= 1
                    else:
                        break
                out[s:i + 3] = [repl, "(", ")"]
                i = s + 3
            else:
                i += 1
    return out


def build(repo):
    log = []
    root = os.path.join(repo, "compiler", "src")
    sites, skipped = [], []
    for dp, dn, fn in os.walk(root):
        if "tests" in dp.split(os.sep):
            continue
        for f in sorted(fn):
            if not f.endswith(".rs"): continue
            rel = os.path.relpath(os.path.join(dp, f), repo)
            toks = _lex(open(os.path.join(dp, f), encoding="utf-8").read())
            # enclosing fn bodies
            fns = []   # (name, open, close, params)
            for i, t in enumerate(toks):
                if t == "fn" and i + 1 < len(toks) and IDENT.match(toks[i + 1]):
                    j = i + 2
                    while j < len(toks) and toks[j] not in ("{", ";"):
                        if toks[j] in ("(", "["): j = match_close(toks, j)
                        j += 1
                    if j < len(toks) and toks[j] == "{":
                        po = toks.index("(", i)
                        fns.append((toks[i + 1], j, match_close(toks, j), toks[po + 1:match_close(toks, po)]))
            for i, t in enumerate(toks):
                for name, pos in FORMS:
                    if t != name or i + 1 >= len(toks) or toks[i + 1] != "(" or (i > 0 and toks[i - 1] == "fn"):
                        continue
                    if name == "details" and (i == 0 or toks[i - 1] != "."):
                        continue
                    c = match_close(toks, i + 1)
                    args = split_args(toks[i + 2:c])
                    if len(args) <= pos:
                        continue
                    enc = [fx for fx in fns if fx[1] < i < fx[2]]
                    if not enc:
                        continue
                    fname, o, cl, params = max(enc, key=lambda x: x[1])
                    arg = args[pos]
                    # slice: lets the argument refers to, nearest preceding definition, transitively
                    lets, seen, work = [], set(), [arg]
                    ok = True
                    why = ""
                    while work and ok:
                        e = work.pop()
                        for q, tk in enumerate(e):
                            if not IDENT.match(tk) or tk in seen or (q > 0 and e[q - 1] == ".") or (q + 1 < len(e) and e[q + 1] == "("):
                                continue
                            if tk in ("input", "user_data", "self", "child", "ident_node", "node", "mut", "ref", "as_ref"):
                                continue
                            seen.add(tk)
                            # parameter of the enclosing function?
                            if tk in params and params[params.index(tk) + 1:params.index(tk) + 2] == [":"]:
                                ok = False; why = f"`{tk}` is a parameter of `{fname}`"; break
                            # nearest preceding `let tk =` / `let tk : T =`
                            d = None
                            for k in range(i - 1, o, -1):
                                if toks[k] == "let" and toks[k + 1:k + 2] == [tk]:
                                    m = k + 2
                                    while m < i and toks[m] != "=":
                                        m += 1
                                    e2 = m + 1
                                    depth = 0
                                    while e2 < cl and not (toks[e2] == ";" and depth == 0):
                                        if toks[e2] in ("(", "[", "{"): depth += 1
                                        elif toks[e2] in (")", "]", "}"): depth -= 1
                                        e2 += 1
                                    d = toks[m + 1:e2]; break
                            if d is None:
                                ok = False; why = f"no `let {tk}` in `{fname}`"; break
                            lets.append((tk, d)); work.append(d)
                    if not ok:
                        skipped.append(f"{rel}: {fname}: {name}(..): {why}")
                        continue
                    body = []
                    for nm, d in reversed(lets):
                        body.append(f"let {nm} = {text(normalise(d))};")
                    body.append(f"diagnostic_names(&({text(normalise(arg))}).clone());" if False else f"let verif_file = {text(normalise(arg))}; diagnostic_names(&verif_file.clone());")
                    bt = " ".join(body)
                    allowed = re.sub(r"[A-Za-z_][A-Za-z0-9_]*|[&.;=()*\s]", "", bt)
                    if allowed.strip():
                        skipped.append(f"{rel}: {fname}: {name}(..): the slice has constructs outside the modelled vocabulary: {text(arg)[:60]}")
                        continue
                    sites.append((rel, fname, name, bt))
    if not sites:
        raise Undecided("no diagnostic construction site found")
    fns_txt = []
    for k, (rel, fname, name, bt) in enumerate(sites):
        fns_txt.append(f"// {rel}: fn {fname}: {name}(..)\npub fn site_{k}() {{ {bt} }}\n")
    log.append(("R0", f"{len(sites)} calls of new_err / .details / map_err", "the slice that computes the file argument", "everything else of the enclosing functions is dropped"))
    for s in skipped:
        log.append(("R0", s, "(not counted)", "the file argument is not computed inside the function, or the slice leaves the modelled vocabulary"))
    gen = header(log, "compiler/src/**: every diagnostic construction site, sliced to its file argument") + SPEC + "\n//@ OBL C03.diag.names-source-file\n" + "\n".join(fns_txt) + "} // verus!\nfn main() {}\n"
    o = Obl("C03.diag.names-source-file", ["C03"], fn=f"{len(sites)} diagnostic sites", desc=f"every diagnostic built in compiler/src names the source file (AssocFileData::get_source_file_name), not the bytecode path: {len(sites)} sites sliced and verified, {len(skipped)} not followed (file name handed in by the caller)")
    return gen, [o], log


UNITS = [VUnit("c03_diag_file", ["C03"], "every diagnostic names the source file", build)]
UNITS[0].assumes = ["slices: only the computation of the file argument is kept; get_file_name() is the bytecode path and not the source's (the two differ in extension)",
                    "call sites whose file argument is a parameter of the enclosing function are listed in the generated header and not counted"]

"""C01 / C07 / C10 / C11: the code of the most basic statement -- `impl Compile for Assignment` (compiler/src/ast/assignment.rs).
  `x = v`            the value's code, then `store x`                      (the interpreter's `store`: unit c01_dataflow)
  `modify x = v`     the value's code, then `store_object x`               (writes the CAPTURED variable: unit c07_modify)
  `export x = v`     .. then `export_name x` behind the store              (the module's own cell goes into the export table: unit c11_export)
  `[a, b, c] = v`    the value's code ONCE, parked in a register; then for every name, in order, `load_fast reg; vec_op [i]; store name_i`
                     with i the name's position -- every name gets its own element
Nothing else is emitted: nothing in front of the value's code, nothing behind the last store / export."""
from vlib.rules import *

FILE = "compiler/src/ast/assignment.rs"

SPEC = r"""
#[verifier::external_body] pub fn strlit_vs(s: &'static str) -> (r: VString) ensures text_of(&r) == s@ { unimplemented!() }
impl ToVs for VString {
    open spec fn as_num(&self) -> int { num_of(self) }
    open spec fn as_text(&self) -> Seq<char> { text_of(self) }
    #[verifier::external_body] fn to_vs(&self) -> (r: VString) ensures r == *self { unimplemented!() }
}
pub struct Ident { pub name: VString }
impl Ident { pub fn name(&self) -> (r: &VString) ensures *r == self.name { &self.name } }
#[verifier::external_body] pub struct Value { x: usize }
pub uninterp spec fn code_of(v: &Value) -> Option<Seq<CompiledItem>>;
#[verifier::external_body] pub struct CompilationState { x: usize }
impl Value { #[verifier::external_body] pub fn compile(&self, state: &mut CompilationState) -> (r: Result<Vec<CompiledItem>, VErr>) ensures r is Ok <==> code_of(self) is Some, r is Ok ==> r->Ok_0@ == code_of(self)->Some_0 { unimplemented!() } }
// temporary registers: a fresh one per poll (its text names it)
#[verifier::external_body] pub struct Reg { x: usize }
pub uninterp spec fn reg_text(r: &Reg) -> Seq<char>;
impl ToVs for Reg {
    open spec fn as_num(&self) -> int { 0 }
    open spec fn as_text(&self) -> Seq<char> { reg_text(self) }
    #[verifier::external_body] fn to_vs(&self) -> (r: VString) { unimplemented!() }
}
#[verifier::external_body] pub fn poll_temporary_register(s: &mut CompilationState) -> (r: Reg) { unimplemented!() }
// flags
pub struct AssignmentFlag(pub u8);
pub uninterp spec fn has_modify(f: &AssignmentFlag) -> bool;
pub uninterp spec fn has_export(f: &AssignmentFlag) -> bool;
pub enum FlagKind { Modify, Export, Const }
impl AssignmentFlag {
    pub fn modify() -> (r: FlagKind) ensures r is Modify { FlagKind::Modify }
    pub fn export() -> (r: FlagKind) ensures r is Export { FlagKind::Export }
    pub fn constant() -> (r: FlagKind) ensures r is Const { FlagKind::Const }
    #[verifier::external_body] pub fn contains(&self, k: FlagKind) -> (r: bool) ensures k is Modify ==> r == has_modify(self), k is Export ==> r == has_export(self) { unimplemented!() }
}
pub struct Assignment { pub idents: Vec<Ident>, pub value: Value, pub flags: AssignmentFlag }
impl Assignment {
    pub fn value(&self) -> (r: &Value) ensures *r == self.value { &self.value }
    pub fn flags(&self) -> (r: &AssignmentFlag) ensures *r == self.flags { &self.flags }
}
// `format!("[{idx}]")`: the index operation on position idx
pub uninterp spec fn index_text(i: int) -> Seq<char>;
#[verifier::external_body] pub fn fmt_index(i: usize) -> (r: VString) ensures text_of(&r) == index_text(i as int) { unimplemented!() }
// the three instructions that bind the k-th name of an unpacking declaration
pub open spec fn unpack_triple(out: Seq<CompiledItem>, at: int, reg: Seq<char>, k: int, name: VString) -> bool {
    &&& is_instr(out[at], LOAD_FAST) && nargs(out[at]) == 1 && argt(out[at], 0) == reg
    &&& is_instr(out[at + 1], VEC_OP) && nargs(out[at + 1]) == 1 && argt(out[at + 1], 0) == index_text(k)
    &&& is_instr(out[at + 2], STORE) && nargs(out[at + 2]) == 1 && out[at + 2]->arguments@[0] == name
}
"""


def append_literal(b):
    items, cur, d = [], [], 0
    for t in b["items"]:
        if t in ("(", "[", "{"): d += 1
        elif t in (")", "]", "}"): d -= 1
        if t == "," and d == 0:
            if cur: items.append(cur)
            cur = []
        else:
            cur.append(t)
    if cur: items.append(cur)
    if not items:
        return None
    return "{ " + " ".join("value_init . push ( " + text(i) + " ) ;" for i in items) + " }"


def build(repo):
    src = Source(repo)
    ids = opcode_ids(repo)
    log = []
    f = src.fn(FILE, "compile", "impl Compile for Assignment")
    INV = ("invariant $K <= self.idents.len(), verif_c0 == code_of(&self.value)->Some_0, value_init@.len() == verif_c0.len() + 1 + 3 * $K, value_init@.subrange(0, verif_c0.len() as int) == verif_c0, "
           "is_instr(value_init@[verif_c0.len() as int], STORE_FAST) && nargs(value_init@[verif_c0.len() as int]) == 1 && argt(value_init@[verif_c0.len() as int], 0) == reg_text(&indexable), "
           "forall|j: int| 0 <= j < $K ==> unpack_triple(value_init@, verif_c0.len() + 1 + 3 * j, reg_text(&indexable), j, (#[trigger] self.idents@[j]).name) decreases self.idents.len() - $K")

    def uloop(b):
        i, x = text(b["i"]), text(b["x"])
        k = "verif_k_u"
        return [G("let ghost verif_c0 = code_of(&self.value)->Some_0;"),
                f"let mut {k} : usize = 0 ; while {k} < self . idents . len ( )", G(INV.replace("$K", k)), "{",
                f"let {i} = {k} ; let {x} = & self . idents [ {k} ] ; {k} += 1 ;", *b["body"], "}"]
    b = translate(f["body"], [
        Rule("R6", "state . poll_temporary_register ( )", "poll_temporary_register ( state )", why="register allocator abstract: a register"),
        Rule("R1", "self . flags . contains (", "self . flags ( ) . contains (", why="field access = accessor"),
        Rule("R2", "for ( $i , $x ) in self . idents . iter ( ) . enumerate ( ) { $$body }", uloop, count=1, why="for over iter().enumerate() -> indexed while"),
        Rule("R9", "format ! ( \"[{idx}]\" )", "fmt_index ( idx )", count=1, why="format!(\"[{idx}]\"): the index operation text of position idx"),
        Rule("R12", "value_init . append ( & mut vec ! [ $$items ] )", append_literal, why="Vec::append of a vector literal: its items pushed in order"),
        r_instruction(ids),
    ], log, "Assignment::compile")
    check_closed(b, "Assignment::compile")
    gen = header(log, f"{FILE}: impl Compile for Assignment") + prelude("compile.rs").replace("pub struct CompilationState;", "") + \
        opcode_consts(ids, ["store", "store_object", "export_name", "store_fast", "load_fast", "vec_op"]) + SPEC + f"""
impl Assignment {{
    //@ OBL C01.compile.assignment
    #[verifier::loop_isolation(false)]
    pub fn compile(&self, state: &mut CompilationState) -> (r: Result<Vec<CompiledItem>, VErr>)
        requires self.idents@.len() >= 1, self.idents@.len() < 1000000,
        ensures
            r is Ok <==> code_of(&self.value) is Some,
            // the value's code comes first, as it is
            r is Ok ==> r->Ok_0@.len() >= code_of(&self.value)->Some_0.len() && r->Ok_0@.subrange(0, code_of(&self.value)->Some_0.len() as int) == code_of(&self.value)->Some_0,
            // one name: `store x` (a plain variable of this function) or `store_object x` (`modify`: the captured variable); `export` adds `export_name x` behind it
            (r is Ok && self.idents@.len() == 1) ==> ({{ let c = code_of(&self.value)->Some_0.len() as int; let out = r->Ok_0@; let name = self.idents@[0].name;
                &&& out.len() == c + 1 + (if has_export(&self.flags) {{ 1int }} else {{ 0int }})
                &&& is_instr(out[c], if has_modify(&self.flags) {{ STORE_OBJECT }} else {{ STORE }}) && nargs(out[c]) == 1 && out[c]->arguments@[0] == name
                &&& has_export(&self.flags) ==> is_instr(out[c + 1], EXPORT_NAME) && nargs(out[c + 1]) == 1 && out[c + 1]->arguments@[0] == name }}),
            // several names: the value is evaluated ONCE and parked; name k gets element k
            (r is Ok && self.idents@.len() > 1) ==> ({{ let c = code_of(&self.value)->Some_0.len() as int; let out = r->Ok_0@;
                &&& out.len() == c + 1 + 3 * self.idents@.len()
                &&& is_instr(out[c], STORE_FAST) && nargs(out[c]) == 1
                &&& forall|k: int| 0 <= k < self.idents@.len() ==> unpack_triple(out, c + 1 + 3 * k, argt(out[c], 0), k, (#[trigger] self.idents@[k]).name) }}),
    {{
{render(b, 2)}
    }}
}}
}} // verus!
fn main() {{}}
"""
    return gen, [Obl("C01.compile.assignment", ["C01", "C07", "C10", "C11", "C15"], fn="Assignment::compile",
                     desc="Assignment::compile: the value's code, then `store x` / `store_object x` (modify) / + `export_name x` (export); unpacking evaluates the value once, parks it, and binds name k to element k in order")], log


UNITS = [VUnit("c01_assignment_compile", ["C01", "C07", "C10", "C11", "C15"], "the code of `x = v`, `modify x = v`, `export x = v`, `[a, b] = v`", build)]
UNITS[0].assumes = ["Value::compile abstract (arbitrary code, but THE code of that value); the register allocator hands out a register (its freshness: units c15_*)",
                    "format!(\"[{idx}]\") as an uninterpreted function of the position; fewer than 10^6 names in one unpacking declaration"]

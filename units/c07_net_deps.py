"""C07: the supplies filter of the capture analysis -- `get_net_dependencies` and `Dependency::eq_allow_callbacks` (compiler/src/ast.rs).
`[net] = [dependencies] - [supplies]`: a name a scope mentions is NOT a free variable of that scope exactly when the scope itself declares a
variable that satisfies it.  A mention of a CAPTURED variable (type `CallbackVariable(T)`) that has already crossed a scope boundary
(cycles_needed > 0) is satisfied by an enclosing declaration of type T; inside the block where it is mentioned (cycles 0) a later plain
`x = ..` of the same name is a NEW local (C07: "a plain `x = ..` inside the function creates a local that leaves the captured variable
untouched") and must not hide the capture.  Every other mention is satisfied only by a declaration of its own type."""
from vlib.rules import *

FILE = "compiler/src/ast.rs"

SPEC = r"""
use vstd::prelude::*;
verus! {
pub struct VErr;
#[verifier::external_body] pub struct NameV { x: usize }
#[verifier::external_body] pub struct TyV { x: usize }
pub enum TypeLayout { CallbackVariable(Box<TypeLayout>), Other(TyV) }
pub uninterp spec fn ty_equal(a: TypeLayout, b: TypeLayout) -> bool;          // PartialEq for TypeLayout (unit c02_compat for the list arms)
#[verifier::external_body] pub fn ty_eq(a: &TypeLayout, b: &TypeLayout) -> (r: bool) ensures r == ty_equal(*a, *b) { unimplemented!() }
pub struct Ident { pub name: NameV, pub ty: Option<TypeLayout> }
pub uninterp spec fn name_text(n: NameV) -> Seq<char>;
#[verifier::external_body] pub fn same_name(a: &Ident, b: &Ident) -> (r: bool) ensures r == (name_text(a.name) == name_text(b.name)) { unimplemented!() }
// Ident::ty(): an error when the identifier has no type yet
pub fn ty_of(i: &Ident) -> (r: Result<&TypeLayout, VErr>) ensures r is Ok <==> i.ty is Some, r is Ok ==> *r->Ok_0 == i.ty->Some_0 { match &i.ty { Some(t) => Ok(t), None => Err(VErr) } }
pub struct Dependency { pub ident: Ident, pub cycles_needed: usize }
#[verifier::external_body] pub fn clone_dep(d: &Dependency) -> (r: Dependency) ensures r == *d { unimplemented!() }
pub fn vexpect(r: Result<bool, VErr>) -> (b: bool) requires r is Ok ensures b == r->Ok_0 { match r { Ok(b) => b, Err(_) => false } }    // expect: a panic unless Ok (R8)

// ---- what "a declaration satisfies a mention" means
pub open spec fn satisfies(supply: Dependency, dep: Dependency) -> bool {
    name_text(supply.ident.name) == name_text(dep.ident.name)
    && (if dep.ident.ty->Some_0 is CallbackVariable && dep.cycles_needed > 0 { ty_equal(supply.ident.ty->Some_0, *dep.ident.ty->Some_0->CallbackVariable_0) }
        else { ty_equal(supply.ident.ty->Some_0, dep.ident.ty->Some_0) })
}
pub open spec fn typed(d: Dependency) -> bool { d.ident.ty is Some }
pub open spec fn satisfied_by_any(sup: Seq<Dependency>, d: Dependency) -> bool { exists|j: int| 0 <= j < sup.len() && #[trigger] satisfies(sup[j], d) }
pub open spec fn bump(d: Dependency, is_scope: bool) -> Dependency { if is_scope { Dependency { ident: d.ident, cycles_needed: (d.cycles_needed + 1) as usize } } else { d } }
// the free variables: the mentions no own declaration satisfies, in order, each one scope further out when the item is a scope
pub open spec fn net(sup: Seq<Dependency>, deps: Seq<Dependency>, is_scope: bool) -> Seq<Dependency> decreases deps.len() {
    if deps.len() == 0 { Seq::empty() } else {
        let rest = net(sup, deps.drop_last(), is_scope);
        if satisfied_by_any(sup, deps.last()) { rest } else { rest.push(bump(deps.last(), is_scope)) } }
}
pub proof fn lemma_net_step(sup: Seq<Dependency>, deps: Seq<Dependency>, k: int, is_scope: bool) requires 0 < k <= deps.len()
    ensures net(sup, deps.take(k), is_scope) == (if satisfied_by_any(sup, deps[k - 1]) { net(sup, deps.take(k - 1), is_scope) } else { net(sup, deps.take(k - 1), is_scope).push(bump(deps[k - 1], is_scope)) })
{ assert(deps.take(k).drop_last() =~= deps.take(k - 1)); assert(deps.take(k).last() == deps[k - 1]); }
"""


def build(repo):
    src = Source(repo)
    log = []
    fe = src.fn(FILE, "eq_allow_callbacks", "impl < 'a > Dependency < 'a >")
    be = translate(fe["body"], [
        Rule("R1", "self . ident . name ( ) != other . ident . name ( )", "! same_name ( & self . ident , & other . ident )", why="&str comparison of the two names"),
        Rule("R1", "let other_ty : & TypeLayout = other . ident . ty ( ) ? . as_ref ( ) ;", "let other_ty : & TypeLayout = ty_of ( & other . ident ) ? ;", why="Ident::ty: an error when untyped"),
        Rule("R1", "let self_ty : & TypeLayout = self . ident . ty ( ) ? . as_ref ( ) ;", "let self_ty : & TypeLayout = ty_of ( & self . ident ) ? ;", why="Ident::ty: an error when untyped"),
        Rule("R1", "self_ty == ptr_ty . as_ref ( )", "ty_eq ( self_ty , & * * ptr_ty )", why="PartialEq for TypeLayout (abstract)"),
        Rule("R1", "self_ty == other_ty", "ty_eq ( self_ty , other_ty )", why="PartialEq for TypeLayout (abstract)"),
    ], log, "Dependency::eq_allow_callbacks")
    check_closed(be, "eq_allow_callbacks")
    fi = src.fn(FILE, "increment_cycle", "impl < 'a > Dependency < 'a >")
    bi = translate(fi["body"], [], log, "Dependency::increment_cycle")
    check_closed(bi, "increment_cycle")
    fg = src.fn(FILE, "get_net_dependencies")
    inner_inv = ("invariant $K <= supplies@.len(), forall|j: int| 0 <= j < $K ==> !satisfies(#[trigger] supplies@[j], dependency), decreases supplies@.len() - $K,")

    def outer(b):
        body = b["body"]
        return [G("let mut verif_k: usize = 0;\n#[verifier::loop_isolation(false)]\n'dependency_loop: while verif_k < dependencies.len()\n"
                  "    invariant verif_k <= dependencies.len(), result@ == net(supplies@, dependencies@.take(verif_k as int), is_scope),\n"
                  "    decreases dependencies.len() - verif_k,"),
                "{", G("let mut dependency = clone_dep(&dependencies[verif_k]); verif_k += 1;\n"
                       "proof { lemma_net_step(supplies@, dependencies@, verif_k as int, is_scope); }"),
                *body,
                "}", G("proof { assert(dependencies@.take(dependencies@.len() as int) =~= dependencies@); }")]

    def inner(b):
        k = "verif_j"
        return [G("let mut verif_j: usize = 0;\n#[verifier::loop_isolation(false)]\nwhile verif_j < supplies.len()\n    " + inner_inv.replace("$K", k)),
                "{", G("let supplied = &supplies[verif_j]; verif_j += 1;"), *b["body"], "}"]

    bg = translate(fg["body"], [
        Rule("R6", "let supplies = ast_item . supplies ( ) ;", "", why="the item's own declarations: a parameter of the fragment"),
        Rule("R6", "let dependencies = ast_item . dependencies ( ) ;", "", why="the item's mentions: a parameter of the fragment"),
        Rule("R12", "Vec :: with_capacity ( dependencies . len ( ) )", "Vec :: new ( )", why="capacity hint"),
        Rule("R2", "'dependency_loop : for mut dependency in dependencies { $$body }", outer, count=1, why="for over a Vec (by value) -> indexed while with the invariant; iteration order of vec::IntoIter"),
        Rule("R2", "for supplied in & supplies { $$body }", inner, count=1, why="for over &Vec -> indexed while"),
        Rule("R8", "supplied . eq_allow_callbacks ( & dependency ) . expect ( $m )", "vexpect ( supplied . eq_allow_callbacks ( & dependency ) )", why="expect: a panic unless Ok (R8)"),
    ], log, "get_net_dependencies")
    check_closed(bg, "get_net_dependencies")
    gen = header(log, f"{FILE}: get_net_dependencies, Dependency::eq_allow_callbacks, Dependency::increment_cycle") + SPEC + f"""
impl Dependency {{
    //@ OBL C07.net.satisfies
    // self: a declaration of the scope; other: a mention
    pub fn eq_allow_callbacks(&self, other: &Dependency) -> (r: Result<bool, VErr>)
        ensures (typed(*self) && typed(*other)) ==> r is Ok,
                r is Ok ==> (name_text(self.ident.name) == name_text(other.ident.name) ==> typed(*self) && typed(*other)),
                (r is Ok && typed(*self) && typed(*other)) ==> r->Ok_0 == satisfies(*self, *other),
                (r is Ok && name_text(self.ident.name) != name_text(other.ident.name)) ==> !r->Ok_0,
    {{
{render(be, 2)}
    }}
    //@ OBL C07.net.increment
    pub fn increment_cycle(&mut self)
        requires old(self).cycles_needed < usize::MAX
        ensures *final(self) == bump(*old(self), true)
    {{
{render(bi, 2)}
    }}
}}

//@ OBL C07.net.filter
pub fn get_net_dependencies(supplies: Vec<Dependency>, dependencies: Vec<Dependency>, is_scope: bool) -> (result: Vec<Dependency>)
    requires forall|j: int| 0 <= j < supplies@.len() ==> typed(#[trigger] supplies@[j]),
             forall|j: int| 0 <= j < dependencies@.len() ==> typed(#[trigger] dependencies@[j]) && dependencies@[j].cycles_needed < usize::MAX,
    ensures result@ == net(supplies@, dependencies@, is_scope),
{{
    proof {{ assert(dependencies@.take(0) =~= Seq::<Dependency>::empty()); }}
{render(bg, 1)}
}}
}} // verus!
fn main() {{}}
"""
    obls = [
        Obl("C07.net.satisfies", ["C07"], fn="Dependency::eq_allow_callbacks", desc="eq_allow_callbacks: same name, and the mention's type -- for a captured variable that has crossed a scope, the captured type; a same-block local never hides the capture"),
        Obl("C07.net.increment", ["C07"], fn="Dependency::increment_cycle", desc="increment_cycle: one scope further out"),
        Obl("C07.net.filter", ["C07"], fn="get_net_dependencies", desc="get_net_dependencies: exactly the mentions no own declaration satisfies, in order, each moved one scope out when the item is a scope; no expect panic on typed identifiers"),
    ]
    return gen, obls, log


UNITS = [VUnit("c07_net_deps", ["C07"], "the supplies filter: which mentions are free variables of a scope", build)]
UNITS[0].assumes = ["fragment: supplies() / dependencies() of the item are parameters (their own obligations: C07.deps.*); PartialEq for TypeLayout abstract",
                    "every identifier reaching the filter has a type (the precondition; `expect` panics otherwise -- the parser types identifiers before the analysis runs: not under contract)",
                    "Block / Function / Class supplies() are not under contract"]

"""C08 / C09 / C01: the code of a class -- ClassBody::compile (class/class_body.rs), MemberFunction::compile (class/member_function.rs) and
Class::compile (class.rs).  A class is compiled to ONE function, the class body: the code of every member in declaration order (a field's
declaration, a method's `make_function ..; store_fast Class::name`), then the constructor part (unit c08_constructor: builds the object from
the frame, calls the constructor on it), then `ret`.  Each method is itself a function registered once under `Class::method`, whose code is
parameter prologue ++ body ++ (`void; ret` unless the body already ends in `ret`) -- execution cannot run off its end -- and the method value
stored in the class-body frame is made from exactly that label, closing over exactly the method's free variables.  The class declaration
itself registers the body function under the class's name and leaves `make_function FILE#Class deps..; export_special name Class`."""
from vlib.rules import *

BODY = "compiler/src/ast/class/class_body.rs"
MEMBER = "compiler/src/ast/class/member_function.rs"
CLASS = "compiler/src/ast/class.rs"

SPEC = r"""
#[verifier::external_body] pub fn strlit_vs(s: &'static str) -> (r: VString) ensures text_of(&r) == s@ { unimplemented!() }
impl ToVs for VString {
    open spec fn as_num(&self) -> int { num_of(self) }
    open spec fn as_text(&self) -> Seq<char> { text_of(self) }
    #[verifier::external_body] fn to_vs(&self) -> (r: VString) ensures r == *self { unimplemented!() }
}
#[verifier::external_body] pub struct CompilationState { x: usize }
pub uninterp spec fn pushed(s: &CompilationState) -> Seq<CompiledItem>;
#[verifier::external_body] pub fn push_function(s: &mut CompilationState, f: CompiledItem) ensures pushed(final(s)) == pushed(old(s)).push(f) { unimplemented!() }
#[verifier::external_body] pub fn clone_vs(s: &VString) -> (r: VString) ensures r == *s { unimplemented!() }
pub fn vec_last(v: &Vec<CompiledItem>) -> (r: Option<&CompiledItem>) ensures v@.len() == 0 ==> r is None, v@.len() > 0 ==> r == Some(&v@.last()) { if v.len() == 0 { None } else { Some(&v[v.len() - 1]) } }
pub fn ends_with_ret(body: &Vec<CompiledItem>) -> (r: bool) ensures r == (body@.len() > 0 && is_instr(body@.last(), RET)) {
    match vec_last(body) { Some(CompiledItem::Instruction { id, .. }) => *id == RET, _ => false }
}
// ---- children: arbitrary code, but THE code of that child (so that order and multiplicity can be stated); compiling a child registers what it registers
#[verifier::external_body] pub struct ClassFeature { x: usize }
#[verifier::external_body] pub struct Constructor { x: usize }
#[verifier::external_body] pub struct ParamsV { x: usize }
#[verifier::external_body] pub struct BlockV { x: usize }
pub uninterp spec fn feature_code(f: &ClassFeature) -> Seq<CompiledItem>;
pub uninterp spec fn ctor_code(c: &Constructor) -> Seq<CompiledItem>;
pub uninterp spec fn params_code(p: &ParamsV) -> Seq<CompiledItem>;
pub uninterp spec fn block_code(b: &BlockV) -> Seq<CompiledItem>;
impl ClassFeature { #[verifier::external_body] pub fn compile(&self, s: &mut CompilationState) -> (r: Result<Vec<CompiledItem>, VErr>) ensures r is Ok ==> r->Ok_0@ == feature_code(self) { unimplemented!() } }
impl Constructor { #[verifier::external_body] pub fn compile(&self, s: &mut CompilationState) -> (r: Result<Vec<CompiledItem>, VErr>) ensures r is Ok ==> r->Ok_0@ == ctor_code(self) { unimplemented!() } }
impl ParamsV { #[verifier::external_body] pub fn compile(&self, s: &mut CompilationState) -> (r: Result<Vec<CompiledItem>, VErr>) ensures r is Ok ==> r->Ok_0@ == params_code(self), pushed(final(s)) == pushed(old(s)) { unimplemented!() } }
impl BlockV { #[verifier::external_body] pub fn compile(&self, s: &mut CompilationState) -> (r: Result<Vec<CompiledItem>, VErr>) ensures r is Ok ==> r->Ok_0@ == block_code(self) { unimplemented!() } }
pub open spec fn concat_features(fs: Seq<ClassFeature>) -> Seq<CompiledItem> decreases fs.len() { if fs.len() == 0 { Seq::empty() } else { concat_features(fs.drop_last()) + feature_code(&fs.last()) } }
pub proof fn lemma_concat_step(fs: Seq<ClassFeature>, k: int) requires 0 <= k < fs.len()
    ensures concat_features(fs.subrange(0, k + 1)) == concat_features(fs.subrange(0, k)) + feature_code(&fs[k])
{ assert(fs.subrange(0, k + 1).drop_last() =~= fs.subrange(0, k)); }
pub struct ClassBody { pub features: Vec<ClassFeature>, pub constructor: Constructor }

// ---- names: a method is `Class::method`, a label `FILE#id`
pub uninterp spec fn method_id(class: Seq<char>, method: Seq<char>) -> Seq<char>;          // format!("{}::{}")
pub uninterp spec fn label_of(file: Seq<char>, id: Seq<char>) -> Seq<char>;                // format!("{}#{}")
#[verifier::external_body] pub fn fmt_method_id(c: &VString, m: &VString) -> (r: VString) ensures text_of(&r) == method_id(text_of(c), text_of(m)) { unimplemented!() }
#[verifier::external_body] pub fn fmt_label(f: &VString, id: &VString) -> (r: VString) ensures text_of(&r) == label_of(text_of(f), text_of(id)) { unimplemented!() }
// the free variables of a method / of the class body (get_net_dependencies: unit c07_net_deps), by name
#[verifier::external_body] pub struct DepV { x: usize }
pub uninterp spec fn dep_name(d: &DepV) -> Seq<char>;
impl DepV { #[verifier::external_body] pub fn name_owned(&self) -> (r: VString) ensures text_of(&r) == dep_name(self) { unimplemented!() } }
pub open spec fn dep_names(ds: Seq<DepV>) -> Set<Seq<char>> decreases ds.len() { if ds.len() == 0 { Set::empty() } else { dep_names(ds.drop_last()).insert(dep_name(&ds.last())) } }
pub proof fn lemma_dep_step(ds: Seq<DepV>, k: int) requires 0 <= k < ds.len()
    ensures dep_names(ds.subrange(0, k + 1)) == dep_names(ds.subrange(0, k)).insert(dep_name(&ds[k]))
{ assert(ds.subrange(0, k + 1).drop_last() =~= ds.subrange(0, k)); }
// HashSet<String>
pub struct NameSet { pub s: Ghost<Set<Seq<char>>> }
impl NameSet {
    pub fn with_capacity(n: usize) -> (r: NameSet) ensures r.s@ == Set::<Seq<char>>::empty() { NameSet { s: Ghost(Set::empty()) } }
    #[verifier::external_body] pub fn insert(&mut self, v: VString) -> (r: bool) ensures final(self).s@ == old(self).s@.insert(text_of(&v)) { unimplemented!() }
}
pub open spec fn texts(v: Seq<VString>) -> Set<Seq<char>> decreases v.len() { if v.len() == 0 { Set::empty() } else { texts(v.drop_last()).insert(text_of(&v.last())) } }
// Vec::extend(HashSet): every member once, in an order nobody may rely on
#[verifier::external_body] pub fn extend_from_set(v: &mut Vec<VString>, s: NameSet)
    ensures final(v)@.len() >= old(v)@.len(), final(v)@.subrange(0, old(v)@.len() as int) == old(v)@, texts(final(v)@.subrange(old(v)@.len() as int, final(v)@.len() as int)) == s.s@ { unimplemented!() }
pub fn vec1s(a: VString) -> (r: Vec<VString>) ensures r@ == seq![a] { let mut v = Vec::new(); v.push(a); v }
pub fn vec2(a: CompiledItem, b: CompiledItem) -> (r: Vec<CompiledItem>) ensures r@ == seq![a, b] { let mut v = Vec::new(); v.push(a); v.push(b); v }
#[verifier::external_body] pub struct ClassBodyV { x: usize }
pub uninterp spec fn body_code(b: &ClassBodyV) -> Option<Seq<CompiledItem>>;
impl ClassBodyV { #[verifier::external_body] pub fn compile(&self, s: &mut CompilationState) -> (r: Result<Vec<CompiledItem>, VErr>) ensures r is Ok <==> body_code(self) is Some, r is Ok ==> r->Ok_0@ == body_code(self)->Some_0 { unimplemented!() } }
pub struct ClassFlags { pub export: bool }
pub struct Class { pub name: VString, pub class_name: VString, pub body: ClassBodyV, pub path_str: VString, pub flags: ClassFlags, pub deps: Vec<DepV> }
impl Class { #[verifier::external_body] pub fn net_dependencies(&self) -> (r: Vec<DepV>) ensures r@ == self.deps@ { unimplemented!() } }
pub open spec fn dep_texts(ds: Seq<DepV>) -> Seq<Seq<char>> { ds.map_values(|d: DepV| dep_name(&d)) }
pub open spec fn arg_texts(v: Seq<VString>) -> Seq<Seq<char>> { v.map_values(|a: VString| text_of(&a)) }
pub struct MemberFunction { pub name: VString, pub parameters: ParamsV, pub body: BlockV, pub path_str: VString, pub class_name: VString, pub deps: Vec<DepV> }
impl MemberFunction {
    pub fn symbolic_id(&self) -> (r: VString) ensures text_of(&r) == method_id(text_of(&self.class_name), text_of(&self.name)) { fmt_method_id(&self.class_name, &self.name) }      // its text: format!("{}::{}", class, ident) (read below)
    #[verifier::external_body] pub fn net_dependencies(&self) -> (r: Vec<DepV>) ensures r@ == self.deps@ { unimplemented!() }
}
"""


def _two(toks):
    items, cur, d = [], [], 0
    for t in toks:
        if t in ("(", "[", "{"): d += 1
        elif t in (")", "]", "}"): d -= 1
        if t == "," and d == 0:
            if cur: items.append(cur)
            cur = []
        else:
            cur.append(t)
    if cur: items.append(cur)
    if len(items) != 2:
        raise Undecided("Class::compile: the statement no longer yields exactly two items")
    return "vec2 ( " + text(items[0]) + " , " + text(items[1]) + " )"


def build(repo):
    src = Source(repo)
    ids = opcode_ids(repo)
    log = []
    # ---- ClassBody::compile
    fb = src.fn(BODY, "compile", "impl Compile for ClassBody")
    INV = ("invariant $K <= $V.len(), result@ == concat_features($V@.subrange(0, $K as int)) decreases $V.len() - $K")
    bb = translate(fb["body"], [
        Rule("R12", "let mut result = vec ! [ ] ;", "let mut result : Vec < CompiledItem > = Vec :: new ( ) ;", why="vec![] with the element type stated"),
        Rule("R1", "for feature in & self . features {", "let verif_features = & self . features ; for feature in verif_features {", why="iteration over a borrowed Vec (named)"),
        Rule("R13", "result . append ( & mut $$x . compile ( state ) ? ) ;", "let mut verif_piece = $$x . compile ( state ) ? ; result . append ( & mut verif_piece ) ;", why="temporary named"),
        r_instruction(ids),
    ], log, "ClassBody::compile")
    bb = for_in_vec("cb", INV).apply(bb, log)
    bb = Rule("R11", "let mut verif_piece = feature . compile ( state ) ? ; result . append ( & mut verif_piece ) ;",
              ["let mut verif_piece = feature . compile ( state ) ? ; result . append ( & mut verif_piece ) ;", G("proof { lemma_concat_step(self.features@, verif_k_cb as int - 1); }")], count=1, why="").apply(bb, log)
    bb = Rule("R11", "let mut verif_piece = self . constructor . compile", [G("proof { assert(self.features@.subrange(0, self.features@.len() as int) =~= self.features@); }"), "let mut verif_piece = self . constructor . compile"], count=1, why="").apply(bb, log)
    check_closed(bb, "ClassBody::compile")
    # ---- MemberFunction::compile
    fm = src.fn(MEMBER, "compile", "impl Compile for MemberFunction")
    sid = " ".join(src.fn(MEMBER, "symbolic_id", "impl MemberFunction")["body"])
    sid_ok = sid == 'format ! ( "{}::{}" , self . class_type . name ( ) , self . ident ( ) . name ( ) )'
    DINV = "invariant $K <= $V.len(), dependency_list.s@ == dep_names($V@.subrange(0, $K as int)) decreases $V.len() - $K"
    bm = translate(fm["body"], [
        Rule("R1", "if let Some ( CompiledItem :: Instruction { id : RET , .. } ) = body . last ( )", "if ends_with_ret ( & body )", count=1, why="pattern on the last item with the RET opcode constant"),
        Rule("R1", "CompiledFunctionId :: Custom ( self . symbolic_id ( ) )", "self . symbolic_id ( )", why="a custom id displays as its text"),
        Rule("R1", "id . clone ( )", "clone_vs ( & id )", why="String clone"),
        Rule("R1", "self . path_str . clone ( )", "clone_vs ( & self . path_str )", why="Arc<PathBuf> clone"),
        Rule("R6", "state . push_function ( $x ) ;", "push_function ( state , $x ) ;", why="list of the file's functions as explicit state (R10)"),
        Rule("R9", "HashSet :: with_capacity ( $$n )", "NameSet :: with_capacity ( 0 )", why="HashSet<String> as a ghost set of names"),
        Rule("R1", "let x = self . path_str . bytecode_str ( ) ;", "let x = clone_vs ( & self . path_str ) ;", why="the path's text (`\\\\` -> `/`: unit c11_path)"),
        Rule("R1", "dependency . name ( ) . to_owned ( )", "dependency . name_owned ( )", why="the dependency's name"),
        Rule("R9", "let mut arguments = vec ! [ format ! ( \"{x}#{id}\" ) ] ;", "let mut arguments = vec1s ( fmt_label ( & x , & id ) ) ;", count=1, why="format!(\"{x}#{id}\"): the label"),
        Rule("R9", "arguments . extend ( dependency_list ) ;", "extend_from_set ( & mut arguments , dependency_list ) ;", count=1, why="Vec::extend(HashSet): every member once"),
        Rule("R1", "let arguments = arguments . into_boxed_slice ( ) ;", "", why="Vec -> Box<[T]>: the same items"),
        Rule("R1", "CompiledItem :: Instruction { id : MAKE_FUNCTION , arguments , }", "CompiledItem :: Instruction { id : MAKE_FUNCTION , arguments : arguments }", why="field init shorthand"),
        Rule("R12", "vec ! [ make_function_instruction , $$b ]", "vec2 ( make_function_instruction , $$b )", why="vec![a, b]"),
        Rule("R1", "self . ident ( ) . name ( ) . to_owned ( )", "clone_vs ( & self . name )", why="the method's own name"),
        Rule("R1", "self . ident ( ) . name ( )", "( & self . name )", why="the method's own name"),
        r_instruction(ids),
    ], log, "MemberFunction::compile")
    bm = for_in_vec("md", DINV).apply(bm, log)
    bm = Rule("R11", "dependency_list . insert ( dependency . name_owned ( ) ) ;", ["dependency_list . insert ( dependency . name_owned ( ) ) ;",
              G("proof { lemma_dep_step(dependencies@, verif_k_md as int - 1); }")], count=1, why="").apply(bm, log)
    bm = Rule("R11", "let mut arguments =", [G("proof { assert(dependencies@.subrange(0, dependencies@.len() as int) =~= dependencies@); }"), "let mut arguments ="], count=1, why="").apply(bm, log)
    bm = Rule("R11", "extend_from_set ( & mut arguments , dependency_list ) ;", ["extend_from_set ( & mut arguments , dependency_list ) ;", G("proof { assert(arguments@.subrange(0, 1)[0] == arguments@[0]); }")], count=1, why="").apply(bm, log)
    check_closed(bm, "MemberFunction::compile")
    # ---- Class::compile (the declaration statement)
    fc = src.fn(CLASS, "compile", "impl Compile for Class")
    CINV = ("invariant $K <= $V.len(), arguments@.len() == 1 + $K, arguments@[0] == verif_label, forall|j: int| 0 <= j < $K ==> text_of(&#[trigger] arguments@[1 + j]) == dep_name(&$V@[j]) decreases $V.len() - $K")
    bc = translate(fc["body"], [
        Rule("R1", "let id = CompiledFunctionId :: Custom ( self . class_type . name ( ) . to_owned ( ) ) ;", "let id = clone_vs ( & self . class_name ) ;", count=1, why="a custom id displays as its text: the class's name"),
        Rule("R1", "id . clone ( )", "clone_vs ( & id )", why="String clone"),
        Rule("R1", "Arc :: clone ( & self . path_str )", "clone_vs ( & self . path_str )", why="Arc<PathBuf> clone"),
        Rule("R6", "state . push_function ( $x ) ;", "push_function ( state , $x ) ;", why="list of the file's functions as explicit state (R10)"),
        Rule("R1", "let name = self . ident . name ( ) ;", "let name = & self . name ;", why="the declared name"),
        Rule("R9", "let function_name = format ! ( \"{}#{id}\" , self . path_str . bytecode_str ( ) ) ;", "let function_name = fmt_label ( & self . path_str , & id ) ;", count=1, why="format!(\"{}#{id}\"): the label"),
        Rule("R3", "if self . flags . export { $$b }", "", why="logging only"),
        Rule("R12", "let mut arguments = vec ! [ function_name ] ;", ["let mut arguments = vec1s ( function_name ) ;", G("let ghost verif_label = arguments@[0];")], count=1, why="vec![a]"),
        Rule("R1", "for dependency in self . net_dependencies ( ) {", "let verif_deps = self . net_dependencies ( ) ; for dependency in verif_deps {", why="the iterated vector named"),
        Rule("R1", "dependency . name ( ) . to_owned ( )", "dependency . name_owned ( )", why="the dependency's name"),
        Rule("R1", "arguments : arguments . into ( ) ,", "arguments : arguments ,", why="Vec -> Box<[T]>: the same items"),
        Rule("R12", "Ok ( vec ! [ $$a ] )", lambda bb: "Ok ( " + _two(bb["a"]) + " )", why="vec![a, b]"),
        r_instruction(ids),
    ], log, "Class::compile")
    bc = for_in_vec("cd", CINV).apply(bc, log)
    check_closed(bc, "Class::compile")
    gen = header(log, f"{BODY}: ClassBody::compile; {MEMBER}: MemberFunction::compile, symbolic_id; {CLASS}: Class::compile") + prelude("compile.rs").replace("pub struct CompilationState;", "") + \
        opcode_consts(ids, ["void", "ret", "make_function", "store_fast", "export_special"]) + SPEC + f"""
impl ClassBody {{
    //@ OBL C08.class_body.layout
    #[verifier::loop_isolation(false)]
    pub fn compile(&self, state: &mut CompilationState) -> (r: Result<Vec<CompiledItem>, VErr>)
        ensures r is Ok ==> ({{ let out = r->Ok_0@; let n = concat_features(self.features@).len() as int; let c = ctor_code(&self.constructor).len() as int;
            // every member's code, each once, in declaration order; then the constructor part; then `ret`, the last instruction
            &&& out.len() == n + c + 1
            &&& out.subrange(0, n) == concat_features(self.features@)
            &&& out.subrange(n, n + c) == ctor_code(&self.constructor)
            &&& is_instr(out.last(), RET) && nargs(out.last()) == 0 }}),
    {{
{render(bb, 2)}
    }}
}}
impl MemberFunction {{
    //@ OBL C08.method.layout
    #[verifier::loop_isolation(false)]
    pub fn compile(&self, state: &mut CompilationState) -> (r: Result<Vec<CompiledItem>, VErr>)
        ensures
            // the method is registered, last, under `Class::method`, in this file (the body may have registered closures of its own before)
            r is Ok ==> pushed(final(state)).len() >= 1 && pushed(final(state)).last() is Function && pushed(final(state)).last()->content is Some
                && text_of(&pushed(final(state)).last()->Function_id) == method_id(text_of(&self.class_name), text_of(&self.name)) && pushed(final(state)).last()->location == self.path_str,
            // its code is prologue ++ body ++ (`void; ret` unless the body ends in `ret`): execution cannot run off its end
            r is Ok ==> ({{ let code = pushed(final(state)).last()->content->Some_0@; let p = params_code(&self.parameters); let b = block_code(&self.body);
                &&& code.len() >= p.len() + b.len() && code.subrange(0, p.len() as int) =~= p && code.subrange(p.len() as int, (p.len() + b.len()) as int) =~= b
                &&& is_instr(code.last(), RET)
                &&& (b.len() > 0 && is_instr(b.last(), RET)) ==> code.len() == p.len() + b.len()
                &&& !(b.len() > 0 && is_instr(b.last(), RET)) ==> code.len() == p.len() + b.len() + 2 && is_instr(code[code.len() - 2], VOID) }}),
            // what the class-body frame gets: the method value made from exactly that label over exactly the method's free variables, stored as `Class::method`
            r is Ok ==> r->Ok_0@.len() == 2 && is_instr(r->Ok_0@[0], MAKE_FUNCTION) && nargs(r->Ok_0@[0]) >= 1
                && argt(r->Ok_0@[0], 0) == label_of(text_of(&self.path_str), method_id(text_of(&self.class_name), text_of(&self.name))),
            r is Ok ==> texts(r->Ok_0@[0]->arguments@.subrange(1, r->Ok_0@[0]->arguments@.len() as int)) == dep_names(self.deps@),
            r is Ok ==> is_instr(r->Ok_0@[1], STORE_FAST) && nargs(r->Ok_0@[1]) == 1 && argt(r->Ok_0@[1], 0) == method_id(text_of(&self.class_name), text_of(&self.name)),
    {{
{render(bm, 2)}
    }}
}}
impl Class {{
    //@ OBL C08.class.declaration
    #[verifier::loop_isolation(false)]
    pub fn compile(&self, state: &mut CompilationState) -> (r: Result<Vec<CompiledItem>, VErr>)
        ensures
            r is Ok <==> body_code(&self.body) is Some,
            // the class body is registered, last, as ONE function under the class's name, in this file, with the body's code as it is
            r is Ok ==> pushed(final(state)).len() >= 1 && ({{ let f = pushed(final(state)).last();
                f is Function && text_of(&f->Function_id) == text_of(&self.class_name) && f->location == self.path_str && f->content is Some && f->content->Some_0@ == body_code(&self.body)->Some_0 }}),
            // the statement itself: the class-body function made from exactly that label over exactly the class's free variables, in their order, then registered under the declared name
            r is Ok ==> r->Ok_0@.len() == 2 && is_instr(r->Ok_0@[0], MAKE_FUNCTION) && nargs(r->Ok_0@[0]) == 1 + self.deps@.len()
                && argt(r->Ok_0@[0], 0) == label_of(text_of(&self.path_str), text_of(&self.class_name))
                && (forall|j: int| 0 <= j < self.deps@.len() ==> argt(r->Ok_0@[0], 1 + j) == dep_name(&#[trigger] self.deps@[j])),
            r is Ok ==> is_instr(r->Ok_0@[1], EXPORT_SPECIAL) && nargs(r->Ok_0@[1]) == 2 && r->Ok_0@[1]->arguments@[0] == self.name && text_of(&r->Ok_0@[1]->arguments@[1]) == text_of(&self.class_name),
    {{
{render(bc, 2)}
    }}
}}
//@ OBL C08.method.symbolic-id
proof fn symbolic_id_is_class_colon_method() {{ assert({'true' if sid_ok else 'false'}); }}     // MemberFunction::symbolic_id == format!("{{}}::{{}}", class name, method name) (read from the source)
}} // verus!
fn main() {{}}
"""
    obls = [Obl("C08.class_body.layout", ["C08", "C09", "C01"], fn="ClassBody::compile", desc="ClassBody::compile: every member's code once, in declaration order, then the constructor part, then `ret`"),
            Obl("C08.method.layout", ["C08", "C09", "C01"], fn="MemberFunction::compile", desc="MemberFunction::compile: the method is registered once as `Class::method` with code prologue ++ body ++ implicit `void; ret`; the class-body frame gets `make_function FILE#Class::method <free variables>; store_fast Class::method`"),
            Obl("C08.class.declaration", ["C08", "C09", "C11"], fn="Class::compile", desc="Class::compile: the class body is registered as one function under the class's name; the statement is `make_function FILE#Class <free variables in order>; export_special name Class`"),
            Obl("C08.method.symbolic-id", ["C08"], fn="MemberFunction::symbolic_id", desc="a method's id is `Class::method`")]
    return gen, obls, log


UNITS = [VUnit("c08_class_compile", ["C08", "C09", "C01"], "the code of a class body and of a method", build)]
UNITS[0].assumes = ["children's compile abstract: arbitrary code, but a fixed one per child (so that order and multiplicity can be stated)",
                    "HashSet<String> as a ghost set; Vec::extend(HashSet) yields every member once in an unspecified order; format! of the label / the method id as uninterpreted functions of their parts",
                    "the free variables come from net_dependencies (unit c07_net_deps)"]

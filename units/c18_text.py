"""C18: human-readable bytecode -> transpile -> binary: text writer (CompiledItem::repr(true)), the transpiler's per-line
decoder (transpile_file) and its re-encoder (bytecode_dev_transpiler::Instruction::repr), composed with the C04 codec."""
import re
from vlib.rules import *
from pathlib import Path
from vlib.extract import extract_match_arm, extract_fn as _efn
from vlib.pattern import Pat
from vlib.lexer import match_close
from units import c04_codec as C4

TRANS = "bytecode_dev_transpiler/src/lib.rs"
CONSTS = "bytecode/src/instruction_constants.rs"

SPEC = r"""
// ---- opcode table (instruction_constants.rs BIN_TO_REPR / REPR_TO_BIN): abstract here, enumerated by obligation C18.opcode.table
pub uninterp spec fn opcode_name_spec(id: u8) -> Seq<char>;
pub uninterp spec fn name_to_opcode(name: Seq<char>) -> Option<u8>;
pub uninterp spec fn deprecated(name: Seq<char>) -> bool;
pub open spec fn no_ws(s: Seq<char>) -> bool { forall|i: int| 0 <= i < s.len() ==> !is_ws(#[trigger] s[i]) }
// what the table enumeration establishes for every opcode the compiler can emit
pub open spec fn table_ok(id: u8) -> bool {
    no_ws(opcode_name_spec(id)) && opcode_name_spec(id).len() > 0 && name_to_opcode(opcode_name_spec(id)) == Some(id) && !deprecated(opcode_name_spec(id))
}
#[verifier::external_body] pub fn opcode_name(id: u8) -> (r: Vec<char>) ensures r@ == opcode_name_spec(id) { unimplemented!() }
#[verifier::external_body] pub fn is_instruction_deprecated(name: &Vec<char>) -> (r: bool) ensures r == deprecated(name@) { unimplemented!() }
#[verifier::external_body] pub fn string_instruction_representation_to_byte(name: &Vec<char>) -> (r: Option<u8>) ensures r == name_to_opcode(name@) { unimplemented!() }
#[verifier::external_body] pub fn fmt_bin(id: u8, args: &Vec<char>) -> (r: Vec<char>) ensures r@ == seq![id as char] + args@ + seq!['\0'] { unimplemented!() }
#[verifier::external_body] pub fn fmt_text(name: Vec<char>, args: &Vec<char>) -> (r: Vec<char>) ensures r@ == seq!['\t'] + name@ + args@ + seq!['\n'] { unimplemented!() }
#[verifier::external_body] pub fn arbitrary_bool() -> (r: bool) { unimplemented!() }

// ---- assumed std contracts for the line splitting (R9)
// str::split_once(' '): at the FIRST space
#[verifier::external_body]
pub fn split_once_space(s: &Vec<char>) -> (r: Option<(Vec<char>, Vec<char>)>)
    ensures (r is None <==> forall|i: int| 0 <= i < s@.len() ==> s@[i] != ' '),
            r is Some ==> s@ == r->Some_0.0@ + seq![' '] + r->Some_0.1@ && (forall|i: int| 0 <= i < r->Some_0.0@.len() ==> r->Some_0.0@[i] != ' ')
{ unimplemented!() }
#[verifier::external_body]
pub fn rsplit_once_space(s: &Vec<char>) -> (r: Option<(Vec<char>, Vec<char>)>)
    ensures (r is None <==> forall|i: int| 0 <= i < s@.len() ==> s@[i] != ' '),
            r is Some ==> s@ == r->Some_0.0@ + seq![' '] + r->Some_0.1@ && (forall|i: int| 0 <= i < r->Some_0.1@.len() ==> r->Some_0.1@[i] != ' ')
{ unimplemented!() }
// str::trim_start / str::trim: strip leading (and trailing) whitespace
pub open spec fn trim_start_spec(s: Seq<char>) -> Seq<char> decreases s.len() { if s.len() > 0 && is_ws(s[0]) { trim_start_spec(s.drop_first()) } else { s } }
pub open spec fn trim_end_spec(s: Seq<char>) -> Seq<char> decreases s.len() { if s.len() > 0 && is_ws(s.last()) { trim_end_spec(s.drop_last()) } else { s } }
#[verifier::external_body] pub fn trim_start(s: &Vec<char>) -> (r: Vec<char>) ensures r@ == trim_start_spec(s@) { unimplemented!() }
#[verifier::external_body] pub fn trim(s: &Vec<char>) -> (r: Vec<char>) ensures r@ == trim_end_spec(trim_start_spec(s@)) { unimplemented!() }
// str::split_whitespace().collect().join(" "): whitespace normalisation (uninterpreted: not an identity on argument text)
pub uninterp spec fn normalize_ws_spec(s: Seq<char>) -> Seq<char>;
#[verifier::external_body] pub fn normalize_ws(s: &Vec<char>) -> (r: Vec<char>) ensures r@ == normalize_ws_spec(s@) { unimplemented!() }

// the reader of the bytecode crate, under the contract proved in unit c04_codec (modular: only the contract is used here)
#[verifier::external_body]
pub fn split_string(string: &Vec<char>) -> (r: Result<Vec<Vec<char>>, VErr>)
    ensures match finish(run_from(init(), string@, true)) { Some(out) => r is Ok && deep(r->Ok_0@) == out, None => r is Err }
{ unimplemented!() }

pub struct Instruction { pub name: u8, pub arguments: Vec<Vec<char>> }

// ---- line integrity: an encoded argument list contains no raw line break
pub proof fn lemma_esc_no_newline(a: Seq<char>)
    ensures forall|i: int| 0 <= i < esc(a).len() ==> esc(a)[i] != '\n' && esc(a)[i] != '\r'
    decreases a.len()
{
    if a.len() > 0 {
        lemma_esc_no_newline(a.drop_first());
        let h = esc1(a[0]); let t = esc(a.drop_first());
        assert forall|i: int| 0 <= i < esc(a).len() implies esc(a)[i] != '\n' && esc(a)[i] != '\r' by {
            if i < h.len() { assert(esc(a)[i] == h[i]); } else { assert(esc(a)[i] == t[i - h.len()]); }
        }
    }
}
pub proof fn lemma_enc_args_no_newline(args: Seq<Seq<char>>)
    ensures forall|i: int| 0 <= i < enc_args(args).len() ==> enc_args(args)[i] != '\n' && enc_args(args)[i] != '\r'
    decreases args.len()
{
    if args.len() > 0 {
        lemma_enc_args_no_newline(args.drop_last());
        lemma_esc_no_newline(args.last());
        let p = enc_args(args.drop_last()); let q = enc_arg(args.last()); let e = esc(args.last());
        assert forall|i: int| 0 <= i < enc_args(args).len() implies enc_args(args)[i] != '\n' && enc_args(args)[i] != '\r' by {
            if i < p.len() { assert(enc_args(args)[i] == p[i]); }
            else { let j = i - p.len(); assert(enc_args(args)[i] == q[j]); if 2 <= j < 2 + e.len() { assert(q[j] == e[j - 2]); } }
        }
    }
}
// reading an encoded argument list that is followed by the line terminator
pub proof fn lemma_text_payload(args: Seq<Seq<char>>)
    requires args.len() > 0
    ensures finish(run_from(init(), enc_args(args).drop_first() + seq!['\n'], true)) == Some(args)
{
    broadcast use ws_facts;
    lemma_roundtrip(args);
    let t = enc_args(args);
    C4_ENC_ARGS_HEAD(args);
    assert(step(init(), ' ', true) == init());
    assert(run_from(init(), t, true) == run_from(step(init(), t[0], true), t.drop_first(), true));
    lemma_run_concat(init(), t.drop_first(), seq!['\n'], true);
    let st = St { result: args, ..init() };
    assert(seq!['\n'].drop_first() =~= Seq::<char>::empty());
    assert(run_from(st, seq!['\n'], true) == run_from(step(st, '\n', true), seq![], true));
    assert(step(st, '\n', true) == st);
}
pub proof fn lemma_trim_start_name(name: Seq<char>)
    requires no_ws(name), name.len() > 0
    ensures trim_start_spec(seq!['\t'] + name) == name
{
    broadcast use ws_facts;
    let s = seq!['\t'] + name;
    assert(s[0] == '\t');
    assert(s.drop_first() =~= name);
    assert(!is_ws(name[0]));
    assert(trim_start_spec(name) == name);
    assert(trim_start_spec(s) == trim_start_spec(s.drop_first()));
}
"""


def translate_line_block(src, log):
    """the `else { let whitespace_parts = buffer.split_once(' '); ... }` block of transpile_file: one instruction line"""
    f = src.fn(TRANS, "transpile_file")
    body = f["body"]
    p = Pat("let whitespace_parts = $$e ;")
    start = None
    for i in range(len(body)):
        r = p.match_at(body, i)
        if r:
            start = i; break
    if start is None:
        raise Undecided("transpile_file: `let whitespace_parts = ..;` not found")
    # enclosing block: walk back to the `{` that opens it
    depth, j = 0, start - 1
    while j >= 0:
        if body[j] == "}":
            depth += 1
        elif body[j] == "{":
            if depth == 0:
                break
            depth -= 1
        j -= 1
    c = match_close(body, j)
    block = body[j + 1:c]
    rules = [
        Rule("R3", "bail ! $a", "return Err ( VErr )", why="bail! -> return Err"),
        Rule("R3", "if let Some ( ref pb ) = current_function_pb { $$b }", "", why="progress bar dropped"),
        Rule("R9", "$x . split_whitespace ( ) . collect :: < Vec < _ >> ( ) . join ( \" \" )", "normalize_ws ( & $x )", why="whitespace normalisation (uninterpreted)"),
        Rule("R9", "$x . split_once ( ' ' )", "split_once_space ( & $x )", why="str::split_once(' ') with its std contract"),
        Rule("R9", "$x . rsplit_once ( ' ' )", "rsplit_once_space ( & $x )", why="str::rsplit_once(' ') with its std contract"),
        Rule("R1", "split_string ( args ) ?", "split_string ( & args ) ?", why="&str -> &Vec<char>"),
        Rule("R9", "name . trim_start ( )", "trim_start ( & name )", why="str::trim_start with its std contract"),
        Rule("R1", "is_instruction_deprecated ( $x )", "is_instruction_deprecated ( & $x )", why="&str -> &Vec<char>"),
        Rule("R1", "string_instruction_representation_to_byte ( $x )", "string_instruction_representation_to_byte ( & $x )", why="&str -> &Vec<char>"),
        Rule("R1", "* instruction_in_byte_fmt", "instruction_in_byte_fmt", why="&u8 from the table lookup -> u8"),
        Rule("R1", "Box :: new ( [ ] )", "Vec :: new ( )", why="empty boxed slice -> empty Vec"),
        Rule("R11", "if let Some ( ( name , args ) ) = whitespace_parts {",
             ["if let Some ( ( name , args ) ) = whitespace_parts {", G("""proof {
    if gargs.len() > 0 {
        let verif_x = seq!['\\t'] + opcode_name_spec(id);
        assert forall|i: int| 0 <= i < verif_x.len() implies verif_x[i] != ' ' by { assert(buffer@[i] == verif_x[i]); }
        lemma_first_space_unique(name@, args@, seq!['\\t'] + opcode_name_spec(id), enc_args(gargs).drop_first() + seq!['\\n']);
    } else {
        assert(buffer@[name@.len() as int] == ' ');
    }
}""")], why=""),
        Rule("R13", "instruction_buffer . push ( $$e ) ;", "return Ok ( $$e ) ;", why="the pushed instruction is this line's result"),
        Rule("R13", "instruction_buffer . push ( $$e )", "return Ok ( $$e )", why="the pushed instruction is this line's result"),
    ]
    return translate(block, rules, log, "transpile_file[line]")


def table_scan(repo):
    """finite enumeration of the opcode table: names distinct, no whitespace, indexes consecutive, deprecation list"""
    ids = opcode_ids(repo)
    src = (Path(repo) / TRANS).read_text()
    m = re.search(r"fn is_instruction_deprecated.*?matches!\(name,\s*(.*?)\)", src, re.S)
    dep = re.findall(r'"([^"]*)"', m.group(1)) if m else None
    problems = []
    if dep is None:
        problems.append("is_instruction_deprecated: deprecation list not found")
    names = list(ids)
    if sorted(ids.values()) != list(range(len(ids))):
        problems.append("opcode indexes are not 0..N-1 without gaps (BIN_TO_REPR is indexed by opcode)")
    if list(ids.values()) != list(range(len(ids))):
        problems.append("the k-th row of generate_consts! does not carry the literal k: BIN_TO_REPR (opcode -> name, used by the text writer) is positional while the id:: constants use the literal, so writer and reader would disagree on the rows out of order")
    if len(set(names)) != len(names):
        problems.append("duplicate instruction names")
    if "end" in names:
        problems.append("an opcode is named `end`: its argument-free line would be read by the transpiler as the end of the function (unit c18_frame assumes there is none)")
    for n in names:
        if re.search(r"\s", n) or not n:
            problems.append(f"instruction name with whitespace: {n!r}")
    # which opcodes does the compiler emit?  every `instruction!(name ..)` in the compiler sources
    emitted = set()
    for f in (Path(repo) / "compiler/src").rglob("*.rs"):
        for mm in re.finditer(r"instruction!\(\s*([a-z_0-9]+)", f.read_text()):
            emitted.add(mm.group(1))
    for n in sorted(emitted):
        if n not in ids:
            problems.append(f"compiler emits unknown instruction `{n}`")
        elif dep and n in dep:
            problems.append(f"compiler emits `{n}`, which the transpiler rejects as deprecated")
    return problems, len(ids), sorted(emitted)


def build(repo):
    src = Source(repo)
    log = []
    # text writer: same arm as C04, text branch
    frepr = src.fn(C4.WRITER, "repr", "impl CompiledItem")
    try:
        arm = extract_match_arm(frepr["body"], "Self :: Instruction { id , arguments }")
        ffix = _efn(frepr["body"], "fix_arg_if_needed")
    except Exception as e:
        raise Undecided(f"{C4.WRITER}: cannot locate the Instruction arm of CompiledItem::repr: {e}")
    t_writer = translate(arm["body"], C4.writer_rules(), log, "CompiledItem::repr[Instruction]")
    t_fix = translate(ffix["body"], C4.fix_rules(), log, "fix_arg_if_needed")
    # transpiler re-encoder
    it = src.item(TRANS, "impl Instruction")
    frep = _efn(it["body"], "repr")

    def loop(b):
        return [G("let ghost verif_args0 = deep(self.arguments@);"),
                "let mut verif_k : usize = 0 ; while verif_k < self . arguments . len ( )",
                G("invariant verif_k <= self.arguments.len(), verif_args0 == deep(self.arguments@), args@ == enc_args(verif_args0.subrange(0, verif_k as int)),\ndecreases self.arguments.len() - verif_k,"),
                "{", f"let {text(b['x'])} = & self . arguments [ verif_k ] ;", G("let ghost verif_before = args@;"), "verif_k += 1 ;", *b["body"],
                G(C4_HINT.replace("arguments@", "self.arguments@")), "}",
                G("proof { assert(verif_args0.subrange(0, self.arguments.len() as int) =~= verif_args0); }")]
    rules_t = [
        Rule("R1", "String :: new ( )", "Vec :: < char > :: new ( )", why="String -> Vec<char>"),
        Rule("R2", "for $x in & self . arguments [ .. ] { $$body }", loop, count=1, why="for over a slice -> indexed while"),
        Rule("R9", "$x . replace ( $c , $s )", lambda b: (f"str_replace ( {text(b['x'])} , {text(b['c'])} , & strlit_chars ( {text(b['s'])} ) )" if len(b["x"]) == 1 and re.match(r"[A-Za-z_]\w*$", b["x"][0]) else None), why="str::replace(char, &str)"),
        *[Rule("R9", "str_replace ( $$a ) . replace ( $c , $s )", "str_replace ( & str_replace ( $$a ) , $c , & strlit_chars ( $s ) )", why="str::replace chain") for _ in range(6)],
        Rule("R1", "args . push_str ( & $$e ) ;", lambda b: "{ let verif_piece = " + text(b["e"][:-1] if b["e"] and b["e"][-1] == "," else b["e"]) + " ; push_chars ( & mut args , & verif_piece ) ; }", why="String::push_str -> append chars"),
        Rule("R1", "args . push_str ( arg ) ;", "push_chars ( & mut args , arg ) ;", why="String::push_str -> append chars"),
        Rule("R9", "arg . contains ( ' ' )", "arbitrary_bool ( )", why="str::contains(char): abstract predicate"),
        Rule("R9", "format ! ( \"{}{}\\0\" , self . name as char , args )", "fmt_bin ( self . name , & args )", count=1, why="format!(\"{}{}\\0\", name as char, args)"),
    ]
    t_trepr = translate(frep["body"], rules_t, log, "transpiler Instruction::repr")
    t_line = translate_line_block(src, log)
    for t, w in ((t_writer, "repr"), (t_fix, "fix"), (t_trepr, "transpiler repr"), (t_line, "transpile line")):
        check_closed(t, w)
    problems, nops, emitted = table_scan(repo)
    spec = SPEC.replace("C4_ENC_ARGS_HEAD", "lemma_enc_args_head")
    gen = header(log, f"{C4.WRITER}: CompiledItem::repr (text form); {TRANS}: Instruction::repr, transpile_file (instruction line)") + prelude("codec.rs") + \
        C4.LEMMAS_FOR_C18.replace('//@ OBL C04.lemmas', '//@ OBL C18.lemmas') + spec + f"""
pub fn fix_arg_if_needed(arg: &Vec<char>) -> (r: Result<Vec<char>, VErr>)
    ensures r is Ok, r->Ok_0@ == seq!['"'] + arg@ + seq!['"']
{{
    proof {{ reveal_strlit("\\""); assert("\\""@ =~= seq!['"']); }}
{render(t_fix, 1)}
}}

//@ OBL C18.text.writer
// CompiledItem::repr, arm Self::Instruction, text form (use_string_version == true)
pub fn repr_instruction_text(id: &u8, arguments: &Vec<Vec<char>>, use_string_version: bool) -> (r: Result<Vec<char>, VErr>)
    requires use_string_version
    ensures r is Ok, r->Ok_0@ == seq!['\\t'] + opcode_name_spec(*id) + enc_args(deep(arguments@)) + seq!['\\n']
{{
{render(t_writer, 1)}
}}

impl Instruction {{
    //@ OBL C18.transpiler.writer
    // bytecode_dev_transpiler::Instruction::repr: the binary record, same encoding as the compiler's binary writer
    pub fn repr(&self) -> (r: Vec<char>)
        ensures r@ == seq![self.name as char] + enc_args(deep(self.arguments@)) + seq!['\\0']
    {{
{render(t_trepr, 2)}
    }}
}}

//@ OBL C18.transpiler.line
// transpile_file, one instruction line: split at the first space, decode the arguments, look the name up.
// (id, args) are ghost: the line is ANY line the text writer can produce for an opcode of the table
pub fn transpile_line(buffer: &Vec<char>, trimmed_end: &Vec<char>, Ghost(id): Ghost<u8>, Ghost(gargs): Ghost<Seq<Seq<char>>>) -> (r: Result<Instruction, VErr>)
    requires trimmed_end@ == trim_end_spec(trim_start_spec(buffer@)), table_ok(id), is_text_line(buffer@, id, gargs)
    ensures r is Ok && r->Ok_0.name == id && deep(r->Ok_0.arguments@) == gargs
{{
    proof {{ lemma_line_facts(buffer@, trimmed_end@, id, gargs); }}
{render(t_line, 1)}
}}

//@ OBL C18.line.integrity
// an instruction's text never contains a raw LF/CR inside, so the line reader sees it whole
pub proof fn c18_line_integrity(id: u8, args: Seq<Seq<char>>)
    ensures forall|i: int| 0 <= i < enc_args(args).len() ==> enc_args(args)[i] != '\\n' && enc_args(args)[i] != '\\r'
{{
    lemma_enc_args_no_newline(args);
}}

}} // verus!
fn main() {{}}
"""
    gen = gen.replace("// ---- line integrity:", LINE_SPEC + "\n// ---- line integrity:")
    obls = [
        Obl("C18.lemmas", ["C18"], desc="helper lemmas of the text codec"),
        Obl("C18.text.writer", ["C18"], fn="repr_instruction_text", desc="CompiledItem::repr (text form) writes TAB name enc_args(arguments) LF"),
        Obl("C18.transpiler.writer", ["C18"], fn="Instruction::repr", desc="the transpiler re-encodes every argument with the always-quoted, escaped encoding the loader reads back exactly"),
        Obl("C18.transpiler.line", ["C18"], fn="transpile_line", desc="a text line produced by the text writer is decoded to exactly its opcode and arguments"),
        Obl("C18.line.integrity", ["C18"], fn="c18_line_integrity", desc="encoded arguments contain no raw LF/CR"),
    ]
    scan = Obl("C18.opcode.table", ["C18"], engine="finite enumeration of instruction_constants.rs (python)", desc=f"{nops} opcodes: indexes 0..N-1, names distinct and free of whitespace; every instruction the compiler emits ({len(emitted)}) exists and is not on the transpiler's deprecation list")
    scan.status = "failed" if problems else "discharged"
    scan.detail = "\n".join(problems)
    scan.pre_decided = True
    return gen, obls + [scan], log


C4_HINT = """proof {
    reveal_strlit("\\\\\\\\"); reveal_strlit("\\\\\\""); reveal_strlit("\\\\n"); reveal_strlit("\\\\r"); reveal_strlit("\\\\0");
    assert("\\\\\\\\"@ =~= lit_bs2()); assert("\\\\\\""@ =~= lit_bsq()); assert("\\\\n"@ =~= lit_bsn()); assert("\\\\r"@ =~= lit_bsr()); assert("\\\\0"@ =~= lit_bs0());
    lemma_four_replaces_is_esc(arguments@[verif_k - 1]@);
    let sub = verif_args0.subrange(0, verif_k as int);
    assert(sub.drop_last() =~= verif_args0.subrange(0, verif_k - 1));
    assert(sub.last() == arguments@[verif_k - 1]@);
    assert(args@ =~= verif_before + enc_arg(arguments@[verif_k - 1]@));
}"""

LINE_SPEC = r"""
//@ OBL C18.lemmas
// a line of the text form, as the text writer lays it out (args non-empty: there is a space after the name; else none)
pub open spec fn is_text_line(buf: Seq<char>, id: u8, args: Seq<Seq<char>>) -> bool {
    buf == seq!['\t'] + opcode_name_spec(id) + enc_args(args) + seq!['\n']
}
pub open spec fn line_facts(buf: Seq<char>, trimmed: Seq<char>, id: u8, args: Seq<Seq<char>>) -> bool {
    let name = opcode_name_spec(id);
    if args.len() > 0 {
        // the first space of the line is the one that starts the argument list
        &&& (forall|i: int| 0 <= i < 1 + name.len() ==> buf[i] != ' ')
        &&& buf == (seq!['\t'] + name) + seq![' '] + (enc_args(args).drop_first() + seq!['\n'])
        &&& buf[1 + name.len() as int] == ' '
        &&& finish(run_from(init(), enc_args(args).drop_first() + seq!['\n'], true)) == Some(args)
        &&& trim_start_spec(seq!['\t'] + name) == name
    } else {
        &&& (forall|i: int| 0 <= i < buf.len() ==> buf[i] != ' ')
        &&& trimmed == name
    }
}
pub proof fn lemma_trim_end_name(name: Seq<char>)
    requires no_ws(name), name.len() > 0
    ensures trim_end_spec(name + seq!['\n']) == name, trim_end_spec(name) == name
{
    broadcast use ws_facts;
    let s = name + seq!['\n'];
    assert(s.last() == '\n'); assert(s.drop_last() =~= name); assert(!is_ws(name.last()));
    assert(trim_end_spec(name) == name);
    assert(trim_end_spec(s) == trim_end_spec(s.drop_last()));
}
// splitting at the first space is unique
pub proof fn lemma_first_space_unique(a: Seq<char>, b: Seq<char>, x: Seq<char>, y: Seq<char>)
    requires a + seq![' '] + b == x + seq![' '] + y,
             forall|i: int| 0 <= i < a.len() ==> a[i] != ' ', forall|i: int| 0 <= i < x.len() ==> x[i] != ' '
    ensures a == x, b == y
{
    let s = a + seq![' '] + b; let s2 = x + seq![' '] + y;
    if a.len() < x.len() { assert(s[a.len() as int] == ' '); assert(s2[a.len() as int] == x[a.len() as int]); }
    if x.len() < a.len() { assert(s2[x.len() as int] == ' '); assert(s[x.len() as int] == a[x.len() as int]); }
    assert(a.len() == x.len());
    assert(a =~= x) by { assert forall|i: int| 0 <= i < a.len() implies a[i] == x[i] by { assert(s[i] == a[i]); assert(s2[i] == x[i]); } }
    assert(b =~= y) by {
        assert(s.len() == s2.len());
        assert forall|i: int| 0 <= i < b.len() implies b[i] == y[i] by { assert(s[a.len() + 1 + i] == b[i]); assert(s2[x.len() + 1 + i] == y[i]); }
    }
}
pub proof fn lemma_line_facts(buf: Seq<char>, trimmed: Seq<char>, id: u8, args: Seq<Seq<char>>)
    requires table_ok(id), is_text_line(buf, id, args), trimmed == trim_end_spec(trim_start_spec(buf))
    ensures line_facts(buf, trimmed, id, args)
{
    broadcast use ws_facts;
    let name = opcode_name_spec(id);
    assert forall|i: int| 0 <= i < name.len() implies name[i] != ' ' by { assert(!is_ws(name[i])); }
    if args.len() > 0 {
        lemma_enc_args_head(args);
        let t = enc_args(args);
        assert(t =~= seq![' '] + t.drop_first());
        assert(buf =~= (seq!['\t'] + name) + seq![' '] + (t.drop_first() + seq!['\n']));
        assert forall|i: int| 0 <= i < 1 + name.len() implies buf[i] != ' ' by { if i > 0 { assert(buf[i] == name[i - 1]); } }
        lemma_text_payload(args);
        lemma_trim_start_name(name);
    } else {
        assert(enc_args(args) =~= Seq::<char>::empty());
        assert(buf =~= seq!['\t'] + (name + seq!['\n']));
        assert forall|i: int| 0 <= i < buf.len() implies buf[i] != ' ' by { if 0 < i <= name.len() { assert(buf[i] == name[i - 1]); } }
        assert(buf[0] == '\t'); assert(buf.drop_first() =~= name + seq!['\n']);
        assert(!is_ws(name[0]));
        assert(trim_start_spec(name + seq!['\n']) == name + seq!['\n']) by { assert((name + seq!['\n'])[0] == name[0]); }
        lemma_trim_end_name(name);
    }
}
"""


UNITS = [VUnit("c18_text", ["C18"], "text bytecode: writer, transpiler line decoder and re-encoder", build)]
UNITS[0].assumes = ["strings as char sequences; file framing by read_line / write! and the function/end framing lines are not modelled",
                    "std contracts assumed: split_once(' ') splits at the first space; trim/trim_start strip whitespace; format! concatenates",
                    "the reader split_string is used under the contract proved in unit c04_codec",
                    "opcode table facts (table_ok) come from the finite enumeration C18.opcode.table, not from Verus"]

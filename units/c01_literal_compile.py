"""C01 / C06 / C08: the literal leaves of code generation -- `impl Compile for Number` (number.rs: a literal of kind K with text T is `make_K T`: the
kind the checker reported is the constructor the interpreter runs, the text is handed over unchanged -- what the interpreter makes of the text is unit
c01_literal_parsers), `impl Compile for bool` (boolean.rs: `make_bool`), `impl Compile for AstString` (string.rs: `make_str` with the decoded content),
and the class-body declarations `impl Compile for MemberVariable` (a field is a reserved cell of the class-body frame: `reserve_primitive; store_fast
name`), `impl Compile for ClassFeature` (a member's code is its own compile, whichever kind it is), `impl Compile for TypeAlias` (no code).
Each emits exactly that: one instruction (two for a field), the operand text as it stands."""
from vlib.rules import *

SPEC = r"""
#[verifier::external_body] pub fn strlit_vs(s: &'static str) -> (r: VString) ensures text_of(&r) == s@ { unimplemented!() }
impl ToVs for VString {
    open spec fn as_num(&self) -> int { num_of(self) }
    open spec fn as_text(&self) -> Seq<char> { text_of(self) }
    #[verifier::external_body] fn to_vs(&self) -> (r: VString) ensures r == *self { unimplemented!() }
}
impl ToVs for bool {
    open spec fn as_num(&self) -> int { 0 }
    open spec fn as_text(&self) -> Seq<char> { if *self { "true"@ } else { "false"@ } }          // bool::to_string
    #[verifier::external_body] fn to_vs(&self) -> (r: VString) { unimplemented!() }
}
pub enum Number { Integer(VString), BigInt(VString), Float(VString), Byte(VString) }
pub enum AstString { Plain(VString), FormattedString() }
pub struct Ident { pub name: VString }
impl Ident { pub fn name(&self) -> (r: &VString) ensures *r == self.name { &self.name } }
pub struct MemberVariable { pub ident: Ident }
impl MemberVariable { pub fn ident(&self) -> (r: &Ident) ensures *r == self.ident { &self.ident } }
#[verifier::external_body] pub struct MemberFunction { x: usize }
pub uninterp spec fn method_code(m: &MemberFunction) -> Option<Seq<CompiledItem>>;
impl MemberFunction { #[verifier::external_body] pub fn compile(&self, state: &CompilationState) -> (r: Result<Vec<CompiledItem>, VErr>) ensures r is Ok <==> method_code(self) is Some, r is Ok ==> r->Ok_0@ == method_code(self)->Some_0 { unimplemented!() } }
pub enum ClassFeature { Function(MemberFunction), Variable(MemberVariable) }
pub struct TypeAlias;
pub fn vec1(a: CompiledItem) -> (r: Vec<CompiledItem>) ensures r@ == seq![a] { let mut v = Vec::new(); v.push(a); v }
pub fn vec2(a: CompiledItem, b: CompiledItem) -> (r: Vec<CompiledItem>) ensures r@ == seq![a, b] { let mut v = Vec::new(); v.push(a); v.push(b); v }
pub fn vec0() -> (r: Vec<CompiledItem>) ensures r@.len() == 0 { Vec::new() }
#[verifier::external_body] pub fn todo_unreachable() -> (r: Result<Vec<CompiledItem>, VErr>) requires false { unimplemented!() }
pub open spec fn one(out: Seq<CompiledItem>, id: u8, arg: VString) -> bool { out.len() == 1 && is_instr(out[0], id) && nargs(out[0]) == 1 && out[0]->arguments@[0] == arg }
pub open spec fn field_code(out: Seq<CompiledItem>, name: VString) -> bool {
    out.len() == 2 && is_instr(out[0], RESERVE_PRIMITIVE) && nargs(out[0]) == 0 && is_instr(out[1], STORE_FAST) && nargs(out[1]) == 1 && out[1]->arguments@[0] == name
}
"""


def build(repo):
    src = Source(repo)
    ids = opcode_ids(repo)
    log = []
    R = [r_instruction(ids),
         R12_VEC_EMPTY, R12_VEC_LITERAL,
         Rule("R8", "todo ! ( )", "todo_unreachable ( )", why="todo!(): a panic -- excluded by the precondition (the parser never builds a formatted string)"),
         Rule("R1", "Self :: Function", "ClassFeature :: Function", why="Self -> type name"), Rule("R1", "Self :: Variable", "ClassFeature :: Variable", why="Self -> type name")]
    parts = {}
    for what, rel, within in (("number", "compiler/src/ast/number.rs", "impl Compile for Number"), ("boolean", "compiler/src/ast/boolean.rs", "impl Compile for bool"),
                              ("string", "compiler/src/ast/string.rs", "impl Compile for AstString"), ("field", "compiler/src/ast/class/member_variable.rs", "impl Compile for MemberVariable"),
                              ("feature", "compiler/src/ast/class/class_feature.rs", "impl Compile for ClassFeature"), ("alias", "compiler/src/ast/type.rs", "impl Compile for TypeAlias")):
        f = src.fn(rel, "compile", within)
        b = translate(f["body"], R, log, within)
        # instruction!(make_x mk_instr..) has already been rewritten by R4; the `_` parameter of the originals is named in the model
        check_closed(b, within)
        parts[what] = render(b, 2)
    gen = header(log, "compiler/src/ast/{number, boolean, string, class/member_variable, class/class_feature, type}.rs: impl Compile for Number / bool / AstString / MemberVariable / ClassFeature / TypeAlias") \
        + prelude("compile.rs") + opcode_consts(ids, ["make_int", "make_bigint", "make_float", "make_byte", "make_bool", "make_str", "reserve_primitive", "store_fast"]) + SPEC + f"""
impl Number {{
    //@ OBL C01.compile.number
    pub fn compile(&self, state: &CompilationState) -> (r: Result<Vec<CompiledItem>, VErr>)
        ensures r is Ok && (match *self {{
            Number::Integer(t) => one(r->Ok_0@, MAKE_INT, t), Number::BigInt(t) => one(r->Ok_0@, MAKE_BIGINT, t),
            Number::Float(t) => one(r->Ok_0@, MAKE_FLOAT, t), Number::Byte(t) => one(r->Ok_0@, MAKE_BYTE, t) }}),
    {{
{parts['number']}
    }}
}}
//@ OBL C01.compile.bool
pub fn compile_bool(this: &bool, state: &CompilationState) -> (r: Result<Vec<CompiledItem>, VErr>)
    ensures r is Ok && r->Ok_0@.len() == 1 && is_instr(r->Ok_0@[0], MAKE_BOOL) && nargs(r->Ok_0@[0]) == 1 && argt(r->Ok_0@[0], 0) == (if *this {{ "true"@ }} else {{ "false"@ }}),
{{
{parts['boolean'].replace('(self)', '(*this)').replace('self', 'this')}
}}
impl AstString {{
    //@ OBL C01.compile.string
    pub fn compile(&self, state: &CompilationState) -> (r: Result<Vec<CompiledItem>, VErr>)
        requires *self is Plain
        ensures r is Ok && one(r->Ok_0@, MAKE_STR, self->Plain_0),
    {{
{parts['string']}
    }}
}}
impl MemberVariable {{
    //@ OBL C08.compile.field
    pub fn compile(&self, state: &CompilationState) -> (r: Result<Vec<CompiledItem>, VErr>)
        ensures r is Ok && field_code(r->Ok_0@, self.ident.name),
    {{
{parts['field']}
    }}
}}
impl ClassFeature {{
    //@ OBL C08.compile.feature
    pub fn compile(&self, state: &CompilationState) -> (r: Result<Vec<CompiledItem>, VErr>)
        ensures
            *self is Variable ==> r is Ok && field_code(r->Ok_0@, self->Variable_0.ident.name),
            *self is Function ==> (r is Ok <==> method_code(&self->Function_0) is Some) && (r is Ok ==> r->Ok_0@ == method_code(&self->Function_0)->Some_0),
    {{
{parts['feature']}
    }}
}}
impl TypeAlias {{
    //@ OBL C01.compile.type-alias
    pub fn compile(&self, state: &CompilationState) -> (r: Result<Vec<CompiledItem>, VErr>) ensures r is Ok && r->Ok_0@.len() == 0
    {{
{parts['alias']}
    }}
}}
}} // verus!
fn main() {{}}
"""
    mk = lambda oid, props, fn, d: Obl(oid, props, fn=fn, desc=d)
    return gen, [
        mk("C01.compile.number", ["C01", "C06", "C02"], "Number::compile", "a numeric literal of kind K with text T compiles to exactly `make_K T`"),
        mk("C01.compile.bool", ["C01"], "bool::compile", "a boolean literal compiles to exactly `make_bool true|false`"),
        mk("C01.compile.string", ["C01", "C04"], "AstString::compile", "a string literal compiles to exactly `make_str <content>`"),
        mk("C08.compile.field", ["C08"], "MemberVariable::compile", "a field declaration reserves a cell of the class-body frame under the field's name: `reserve_primitive; store_fast name`"),
        mk("C08.compile.feature", ["C08"], "ClassFeature::compile", "a member's code is its own compile: a field's two instructions, a method's code"),
        mk("C01.compile.type-alias", ["C01"], "TypeAlias::compile", "a type alias emits no code"),
    ], log


UNITS = [VUnit("c01_literal_compile", ["C01", "C06", "C08", "C02", "C04"], "literal leaves and class-body declarations: exactly their instruction(s)", build)]
UNITS[0].assumes = ["bool::to_string is `true` / `false`; MemberFunction::compile abstract (its own layout: c08_class_compile); a formatted string is never built by the parser (`todo!()` arm excluded by the precondition)"]

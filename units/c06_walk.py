"""C06: the folding walk -- Expr::try_constexpr_eval (math_expr.rs), arms UnaryMinus and BinOp, extracted as fragments: a composite folds to
the operator applied to the FOLDED operands, with each source operator mapped to its own arithmetic (the arithmetic itself is C06.<op>.*)."""
from vlib.rules import *
from vlib.extract import extract_match_arm

MATH = "compiler/src/ast/math_expr.rs"

SPEC = r"""
use vstd::prelude::*;
verus! {
pub struct VErr;
#[verifier::external_body] pub struct NumV { x: usize }              // Number (a numeric literal)
#[verifier::external_body] pub struct OtherV { x: usize }
pub enum ExprV { Value(Value), Nil, Other(OtherV) }                         // a sub-expression: a literal value or anything else
#[verifier::external_body] pub struct TypeV { x: usize }
pub enum Value { Number(NumV), Boolean(bool), Other(OtherV) }
pub enum ConstexprEvaluation { Owned(Value), Impossible }
pub enum Op { Add, Subtract, Multiply, Divide, Modulo, Lt, Gt, Lte, Gte, Eq, Neq, And, Or, Xor, Unwrap, AddAssign, SubAssign, MulAssign, DivAssign, ModAssign, BinaryXor, BinaryOr, BinaryAnd, BitwiseLs, BitwiseRs, Is }
// folding of a sub-expression (the recursive call: abstract)
pub uninterp spec fn folded(e: &ExprV) -> Result<ConstexprEvaluation, VErr>;
impl ExprV { #[verifier::external_body] pub fn try_constexpr_eval(&self) -> (r: Result<ConstexprEvaluation, VErr>) ensures r == folded(self) { unimplemented!() } }
impl ConstexprEvaluation {
    pub fn is_impossible(&self) -> (r: bool) ensures r == (self is Impossible) { match self { ConstexprEvaluation::Impossible => true, _ => false } }
    pub fn as_ref(&self) -> (r: Option<&Value>) ensures self is Impossible ==> r is None, self is Owned ==> r == Some(&self->Owned_0) { match self { ConstexprEvaluation::Owned(v) => Some(v), _ => None } }
}
// the arithmetic on literals (mod string_arithmetic: obligations C06.<op>.<kind>.<kind>), one spec function per operator
pub uninterp spec fn lit_op(op: int, a: NumV, b: NumV) -> Result<NumV, VErr>;
#[verifier::external_body] pub fn num_op(op: u8, a: &NumV, b: &NumV) -> (r: Result<NumV, VErr>) ensures r == lit_op(op as int, *a, *b) { unimplemented!() }
// which arithmetic each source operator denotes
pub open spec fn op_code(o: Op) -> int {
    match o { Op::Add => 0, Op::Subtract => 1, Op::Multiply => 2, Op::Divide => 3, Op::Modulo => 4, Op::BinaryAnd => 5, Op::BinaryOr => 6, Op::BinaryXor => 7, Op::BitwiseLs => 8, Op::BitwiseRs => 9, _ => -1 }
}
// unary minus on a folded value
pub uninterp spec fn value_type(v: Value) -> Result<TypeV, VErr>;
pub uninterp spec fn negatable(t: TypeV) -> bool;
pub uninterp spec fn negated(v: Value) -> Result<Option<Value>, VErr>;
// Value::try_constexpr_eval (folding of a value that is already a literal): abstract -- NOT known to be the identity (an integer literal
// that does not fit its kind is re-labelled by it)
pub uninterp spec fn refolded(v: Value) -> Result<ConstexprEvaluation, VErr>;
pub uninterp spec fn value_is_nil(v: Value) -> bool;
impl Value {
    #[verifier::external_body] pub fn is_nil(&self) -> (r: bool) ensures r == value_is_nil(*self) { unimplemented!() }
    #[verifier::external_body] pub fn try_constexpr_eval(&self) -> (r: Result<ConstexprEvaluation, VErr>) ensures r == refolded(*self) { unimplemented!() }
    #[verifier::external_body] pub fn verif_for_type(&self) -> (r: Result<TypeV, VErr>) ensures r == value_type(*self) { unimplemented!() }
    #[verifier::external_body] pub fn try_negate(&self) -> (r: Result<Option<Value>, VErr>) ensures r == negated(*self) { unimplemented!() }
}
impl TypeV { #[verifier::external_body] pub fn supports_negate(&self) -> (r: bool) ensures r == negatable(*self) { unimplemented!() } }
pub fn opt_unwrap<'a>(o: Option<&'a Value>) -> (r: &'a Value) requires o is Some ensures Some(r) == o { o.unwrap() }
"""

OPS = [("+", 0), ("-", 1), ("*", 2), ("/", 3), ("%", 4), ("&", 5), ("|", 6), ("^", 7), ("<<", 8), (">>", 9)]


def build(repo):
    src = Source(repo)
    log = []
    f = src.fn(MATH, "try_constexpr_eval", "impl CompileTimeEvaluate for Expr")
    try:
        am = extract_match_arm(f["body"], "Self :: UnaryMinus ( expr )")
        ab = extract_match_arm(f["body"], "Self :: BinOp { lhs , op , rhs }")
        ag = extract_match_arm(f["body"], "Self :: UnaryUnwrap { value , .. }")
        ao = extract_match_arm(f["body"], "Self :: NilEval { primary , fallback }")
    except Exception as e:
        raise Undecided(f"try_constexpr_eval: arm not found: {e}")
    bm = translate(am["body"], [
        Rule("R8", "maybe_constexpr_eval . as_ref ( ) . unwrap ( )", "opt_unwrap ( maybe_constexpr_eval . as_ref ( ) )", why="unwrap: a panic unless Some (R8)"),
        Rule("R6", ". for_type ( & TypecheckFlags :: < & ClassType > :: classless ( ) ) ?", ". verif_for_type ( ) ?", why="type of a folded value (abstract)"),
        Rule("R1", "Self :: Value", "ExprV :: Value", why="Self -> the expression type of the model"),
        Rule("R1", "expr . as_ref ( )", "expr", why="Box<Expr> deref"),
    ], log, "try_constexpr_eval[UnaryMinus]")
    check_closed(bm, "try_constexpr_eval[UnaryMinus]")
    rules_b = [Rule("R9", f"lhs {sym} rhs", f"num_op ( {code}u8 , lhs , rhs )", why=f"`{sym}` on two literals: impl of string_arithmetic (C06.* obligations)") for sym, code in OPS] + \
              [Rule("R9", f"rhs {sym} lhs", f"num_op ( {code}u8 , rhs , lhs )", why=f"`{sym}` on two literals: impl of string_arithmetic (C06.* obligations)") for sym, code in OPS]
    bb = translate(ab["body"], rules_b, log, "try_constexpr_eval[BinOp]")
    check_closed(bb, "try_constexpr_eval[BinOp]")
    R3 = Rule("R3", "bail ! $a", "return Err ( VErr )", why="bail! -> return Err")
    RX = [R3, Rule("R1", "Self :: Nil", "ExprV :: Nil", why="Self -> the expression type of the model"), Rule("R1", "Self :: Value", "ExprV :: Value", why="Self -> the expression type of the model"),
          Rule("R1", "value . as_ref ( )", "value", why="Box<Expr> deref"), Rule("R1", "primary . as_ref ( )", "primary", why="Box<Expr> deref"), Rule("R1", "fallback . as_ref ( )", "fallback", why="Box<Expr> deref")]
    bg = translate(ag["body"], RX, log, "try_constexpr_eval[UnaryUnwrap]")
    check_closed(bg, "try_constexpr_eval[UnaryUnwrap]")
    bo = translate(ao["body"], RX, log, "try_constexpr_eval[NilEval]")
    check_closed(bo, "try_constexpr_eval[NilEval]")
    gen = header(log, f"{MATH}: Expr::try_constexpr_eval, arms UnaryMinus, BinOp, UnaryUnwrap, NilEval") + SPEC + f"""
//@ OBL C12.walk.get
// `get e` with a constant operand: what e FOLDS to decides -- nil (however it is spelled) is the failure `get` has at run time, reported by
// the compiler; a present constant is that constant.  The `get` never disappears around a nil.
pub fn fold_get(value: &ExprV) -> (r: Result<ConstexprEvaluation, VErr>)
    ensures
        folded(value) is Err ==> r is Err,
        folded(value) matches Ok(ConstexprEvaluation::Impossible) ==> r == Ok::<ConstexprEvaluation, VErr>(ConstexprEvaluation::Impossible),
        folded(value) matches Ok(ConstexprEvaluation::Owned(v)) ==> (if value_is_nil(v) {{ r is Err }} else {{ r == Ok::<ConstexprEvaluation, VErr>(ConstexprEvaluation::Owned(v)) }}),
{{
{render(bg, 1)}
}}

//@ OBL C12.walk.or
// `(p) or f` with a constant left side: the present constant itself, or -- when it folds to nil -- whatever f folds to (f is not dropped)
pub fn fold_or(primary: &ExprV, fallback: &ExprV) -> (r: Result<ConstexprEvaluation, VErr>)
    ensures
        folded(primary) is Err ==> r is Err,
        folded(primary) matches Ok(ConstexprEvaluation::Impossible) ==> r == Ok::<ConstexprEvaluation, VErr>(ConstexprEvaluation::Impossible),
        folded(primary) matches Ok(ConstexprEvaluation::Owned(v)) ==> (if value_is_nil(v) {{ r == folded(fallback) }} else {{ r == Ok::<ConstexprEvaluation, VErr>(ConstexprEvaluation::Owned(v)) }}),
{{
{render(bo, 1)}
}}

//@ OBL C06.walk.unary-minus
// `-e` folds to the negation of what e FOLDS to (not of e's source text: an unsuffixed literal beyond i32 folds to a bigint first)
pub fn fold_unary_minus(expr: &ExprV) -> (r: Result<ConstexprEvaluation, VErr>)
    ensures
        folded(expr) is Err ==> r is Err,
        folded(expr) matches Ok(ConstexprEvaluation::Impossible) ==> r == Ok::<ConstexprEvaluation, VErr>(ConstexprEvaluation::Impossible),
        folded(expr) matches Ok(ConstexprEvaluation::Owned(v)) ==> (
            (value_type(v) is Err ==> r is Err)
            && (value_type(v) matches Ok(t) ==> (
                    (negatable(t) && negated(v) is Err ==> r is Err)
                    && ((negatable(t) && negated(v) is Ok && negated(v)->Ok_0 is Some) ==> r == Ok::<ConstexprEvaluation, VErr>(ConstexprEvaluation::Owned(negated(v)->Ok_0->Some_0)))
                    && ((!negatable(t) || (negated(v) is Ok && negated(v)->Ok_0 is None)) ==> r == Ok::<ConstexprEvaluation, VErr>(ConstexprEvaluation::Impossible))))),
{{
{render(bm, 1)}
}}

//@ OBL C06.walk.binop
// `a op b` folds only when both operands fold to numbers, and then to THAT operator's arithmetic on the folded operands, left operand first
pub fn fold_binop(lhs: &ExprV, op: &Op, rhs: &ExprV) -> (r: Result<ConstexprEvaluation, VErr>)
    ensures
        (folded(lhs) is Err || folded(rhs) is Err) ==> r is Err,
        (folded(lhs) is Ok && folded(rhs) is Ok) ==> (
            if folded(lhs)->Ok_0 is Owned && folded(lhs)->Ok_0->Owned_0 is Number && folded(rhs)->Ok_0 is Owned && folded(rhs)->Ok_0->Owned_0 is Number && op_code(*op) >= 0 {{
                let a = folded(lhs)->Ok_0->Owned_0->Number_0; let b = folded(rhs)->Ok_0->Owned_0->Number_0;
                (lit_op(op_code(*op), a, b) is Err ==> r is Err)
                && (lit_op(op_code(*op), a, b) is Ok ==> r == Ok::<ConstexprEvaluation, VErr>(ConstexprEvaluation::Owned(Value::Number(lit_op(op_code(*op), a, b)->Ok_0))))
            }} else {{
                // anything else may only fold when BOTH operands are compile-time constants (an operand that is not -- a call, a variable -- is
                // evaluated at run time, exactly once: C15); what two non-numeric constants fold to is not this unit's business
                r is Ok && (r->Ok_0 is Owned ==> folded(lhs)->Ok_0 is Owned && folded(rhs)->Ok_0 is Owned)
            }}),
{{
{render(bb, 1)}
}}
}} // verus!
fn main() {{}}
"""
    obls = [Obl("C06.walk.unary-minus", ["C06"], fn="Expr::try_constexpr_eval[UnaryMinus]", desc="folding `-e`: the negation of the folded operand (Impossible / error propagate)"),
            Obl("C06.walk.binop", ["C06", "C15", "C16", "C05"], fn="Expr::try_constexpr_eval[BinOp]", desc="folding `a op b`: both operands folded to numbers, the source operator mapped to its own arithmetic, operands in order; anything else is not folded")]
    obls += [Obl("C12.walk.get", ["C12", "C06"], fn="Expr::try_constexpr_eval[UnaryUnwrap]", desc="folding `get e`: a constant operand that folds to nil is rejected (the failure `get` has at run time), a present constant is that constant"),
             Obl("C12.walk.or", ["C12", "C06", "C15"], fn="Expr::try_constexpr_eval[NilEval]", desc="folding `(p) or f`: the present constant, or the folded fallback when p folds to nil")]
    return gen, obls, log



VALUE = "compiler/src/ast/value.rs"

SPEC2 = r"""
use vstd::prelude::*;
verus! {
pub struct VErr;
#[verifier::external_body] pub struct NumV { x: usize }              // Number (a numeric literal)
#[verifier::external_body] pub struct OtherV { x: usize }
#[verifier::external_body] pub struct ListV { x: usize }
#[verifier::external_body] pub struct TextV { x: usize }             // String
pub enum AstString { Plain(TextV), Other(OtherV) }
pub enum Value { Function(OtherV), Ident(OtherV), Number(NumV), String(AstString), MathExpr(Box<ExprV>), Boolean(bool), List(ListV), Map(OtherV) }
pub enum ExprV { Nil, Value(Value), Other(OtherV) }
pub enum ConstexprEvaluation { Owned(Value), Impossible }
impl ConstexprEvaluation {
    pub fn is_impossible(&self) -> (r: bool) ensures r == (self is Impossible) { match self { ConstexprEvaluation::Impossible => true, _ => false } }
    pub fn as_ref(&self) -> (r: Option<&Value>) ensures self is Impossible ==> r is None, self is Owned ==> r == Some(&self->Owned_0) { match self { ConstexprEvaluation::Owned(v) => Some(v), _ => None } }
}
pub fn opt_unwrap<'a>(o: Option<&'a Value>) -> (r: &'a Value) requires o is Some ensures Some(r) == o { o.unwrap() }
// the folds this one hands on to (each its own obligations): of an expression, of a numeric literal, of a list literal
pub uninterp spec fn folded(e: &ExprV) -> Result<ConstexprEvaluation, VErr>;
pub uninterp spec fn num_folded(n: &NumV) -> Result<ConstexprEvaluation, VErr>;
pub uninterp spec fn list_folded(l: &ListV) -> Result<ConstexprEvaluation, VErr>;
impl ExprV { #[verifier::external_body] pub fn try_constexpr_eval(&self) -> (r: Result<ConstexprEvaluation, VErr>) ensures r == folded(self) { unimplemented!() } }
impl NumV { #[verifier::external_body] pub fn try_constexpr_eval(&self) -> (r: Result<ConstexprEvaluation, VErr>) ensures r == num_folded(self) { unimplemented!() } }
impl ListV { #[verifier::external_body] pub fn try_constexpr_eval(&self) -> (r: Result<ConstexprEvaluation, VErr>) ensures r == list_folded(self) { unimplemented!() } }
impl AstString { #[verifier::external_body] pub fn clone(&self) -> (r: AstString) ensures r == *self { unimplemented!() } }
impl TextV { #[verifier::external_body] pub fn clone(&self) -> (r: TextV) ensures r == *self { unimplemented!() } }
// Value::nil(): the literal `nil`
pub open spec fn nil_value() -> Value { Value::MathExpr(Box::new(ExprV::Nil)) }
pub fn value_nil() -> (r: Value) ensures r == nil_value() { Value::MathExpr(Box::new(ExprV::Nil)) }
pub open spec fn ok(c: ConstexprEvaluation) -> Result<ConstexprEvaluation, VErr> { Ok(c) }
"""

IMPOSSIBLE_ARMS = [("Self :: ReferenceToSelf { .. }", "self"), ("Self :: ReferenceToConstructor ( .. )", "constructor"), ("Self :: Callable { .. }", "call"),
                   ("Self :: Index { .. }", "index"), ("Self :: DotLookup { .. }", "dot")]


def build_leaves(repo):
    src = Source(repo)
    log = []
    f = src.fn(MATH, "try_constexpr_eval", "impl CompileTimeEvaluate for Expr")
    fv = src.fn(VALUE, "try_constexpr_eval", "impl CompileTimeEvaluate for Value")
    R = [Rule("R8", "maybe_constexpr_eval . as_ref ( ) . unwrap ( )", "opt_unwrap ( maybe_constexpr_eval . as_ref ( ) )", why="unwrap: a panic unless Some (R8)"),
         Rule("R1", "expr . as_ref ( )", "expr", why="Box<Expr> deref"),
         Rule("R1", "Value :: nil ( )", "value_nil ( )", why="Value::nil(): the literal nil (its body: `Self::MathExpr(Box::new(Expr::Nil))`)"),
         Rule("R1", "Self :: Number", "Value :: Number"), Rule("R1", "Self :: Boolean", "Value :: Boolean"), Rule("R1", "Self :: String", "Value :: String"),
         Rule("R1", "Self :: MathExpr", "Value :: MathExpr"), Rule("R1", "Self :: List", "Value :: List")]
    try:
        an = extract_match_arm(f["body"], "Self :: UnaryNot ( expr )")
        anil = extract_match_arm(f["body"], "Self :: Nil")
        aty = extract_match_arm(f["body"], "Self :: Typeof ( _ , repr )")
        aval = extract_match_arm(f["body"], "Self :: Value ( val )")
        imp = [(tag, extract_match_arm(f["body"], pat)) for pat, tag in IMPOSSIBLE_ARMS]
    except Exception as e:
        raise Undecided(f"Expr::try_constexpr_eval: arm not found: {e}")
    # Value::nil is what the Nil arm builds: keep its body honest
    fnil = src.fn(VALUE, "nil", "impl Value")
    if text(fnil["body"]) != text(lex("Self :: MathExpr ( Box :: new ( Expr :: Nil ) )")):
        raise Undecided("Value::nil is no longer `Self::MathExpr(Box::new(Expr::Nil))`: " + text(fnil["body"]))
    bn = translate(an["body"], R, log, "try_constexpr_eval[UnaryNot]"); check_closed(bn, "UnaryNot")
    bnil = translate(anil["body"], R, log, "try_constexpr_eval[Nil]"); check_closed(bnil, "Nil")
    bty = translate(aty["body"], R, log, "try_constexpr_eval[Typeof]"); check_closed(bty, "Typeof")
    bval = translate(aval["body"], R, log, "try_constexpr_eval[Value]"); check_closed(bval, "Value")
    bv = translate(fv["body"], R + [Rule("R1", "match self {", "match self_ {", why="self -> explicit parameter"), Rule("R1", "Self :: $v", "Value :: $v", why="Self -> Value")], log, "Value::try_constexpr_eval"); check_closed(bv, "Value::try_constexpr_eval")
    imps = ""
    obls = []
    for tag, arm in imp:
        b = translate(arm["body"], R, log, f"try_constexpr_eval[{tag}]"); check_closed(b, tag)
        imps += f"""
//@ OBL C06.walk.not-constant.{tag}
pub fn fold_{tag.lower()}_() -> (r: Result<ConstexprEvaluation, VErr>) ensures r == ok(ConstexprEvaluation::Impossible) {{
{render(b, 1)}
}}
"""
        obls.append(Obl(f"C06.walk.not-constant.{tag}", ["C06", "C15"], fn=f"Expr::try_constexpr_eval[{tag}]", desc=f"a `{tag}` expression (call / index / field access / self) is never a compile-time constant: it is evaluated at run time"))
    gen = header(log, f"{MATH}: Expr::try_constexpr_eval, arms Value, UnaryNot, Nil, Typeof and the never-constant arms; {VALUE}: Value::try_constexpr_eval") + SPEC2 + f"""
//@ OBL C06.walk.unary-not
// `!e` folds exactly when e folds to a boolean literal, and then to the other boolean
pub fn fold_unary_not(expr: &ExprV) -> (r: Result<ConstexprEvaluation, VErr>)
    ensures
        folded(expr) is Err ==> r is Err,
        folded(expr) matches Ok(ConstexprEvaluation::Owned(Value::Boolean(b))) ==> r == ok(ConstexprEvaluation::Owned(Value::Boolean(!b))),
        (folded(expr) is Ok && !(folded(expr)->Ok_0 is Owned && folded(expr)->Ok_0->Owned_0 is Boolean)) ==> r == ok(ConstexprEvaluation::Impossible),
{{
{render(bn, 1)}
}}

//@ OBL C06.walk.nil
pub fn fold_nil() -> (r: Result<ConstexprEvaluation, VErr>) ensures r == ok(ConstexprEvaluation::Owned(nil_value())) {{
{render(bnil, 1)}
}}

//@ OBL C06.walk.typeof
// `typeof e` is the text the type checker computed for e (no run-time evaluation of e at all)
pub fn fold_typeof(repr: &TextV) -> (r: Result<ConstexprEvaluation, VErr>) ensures r == ok(ConstexprEvaluation::Owned(Value::String(AstString::Plain(*repr)))) {{
{render(bty, 1)}
}}

pub uninterp spec fn value_folded(v: &Value) -> Result<ConstexprEvaluation, VErr>;
impl Value {{ #[verifier::external_body] pub fn try_constexpr_eval(&self) -> (r: Result<ConstexprEvaluation, VErr>) ensures r == value_folded(self) {{ unimplemented!() }} }}
//@ OBL C06.walk.value
pub fn fold_value_arm(val: &Value) -> (r: Result<ConstexprEvaluation, VErr>) ensures r == value_folded(val) {{
{render(bval, 1)}
}}

//@ OBL C06.value.fold
// a literal value: a boolean or a string folds to itself; a number, a parenthesised expression, a list to their own folds;
// a function, a NAME and a map are never constants
pub fn value_fold(self_: &Value) -> (r: Result<ConstexprEvaluation, VErr>)
    ensures
        self_ matches Value::Boolean(b) ==> r == ok(ConstexprEvaluation::Owned(Value::Boolean(*b))),
        self_ matches Value::String(s) ==> r == ok(ConstexprEvaluation::Owned(Value::String(*s))),
        self_ matches Value::Number(n) ==> r == num_folded(n),
        self_ matches Value::MathExpr(e) ==> r == folded(&**e),
        self_ matches Value::List(l) ==> r == list_folded(l),
        (self_ is Function || self_ is Ident || self_ is Map) ==> r == ok(ConstexprEvaluation::Impossible),
{{
{render(bv, 1)}
}}
{imps}
}} // verus!
fn main() {{}}
"""
    obls = [Obl("C06.walk.unary-not", ["C06"], fn="Expr::try_constexpr_eval[UnaryNot]", desc="folding `!e`: exactly when e folds to a boolean literal, to the other boolean"),
            Obl("C06.walk.nil", ["C06", "C12"], fn="Expr::try_constexpr_eval[Nil]", desc="`nil` folds to the nil literal"),
            Obl("C06.walk.typeof", ["C06"], fn="Expr::try_constexpr_eval[Typeof]", desc="`typeof e` folds to the type text computed by the checker"),
            Obl("C06.walk.value", ["C06"], fn="Expr::try_constexpr_eval[Value]", desc="a value expression folds to the fold of the value"),
            Obl("C06.value.fold", ["C06", "C15"], fn="Value::try_constexpr_eval", desc="booleans and strings fold to themselves; numbers / parenthesised expressions / lists to their own folds; functions, names, maps are never constants")] + obls
    return gen, obls, log


UNITS = [VUnit("c06_walk", ["C06", "C15", "C12", "C16", "C05"], "the folding walk: unary minus and binary operators over folded operands", build)]
UNITS[0].assumes = ["fragments: the two arms of Expr::try_constexpr_eval; the recursive fold of sub-expressions, Value::for_type / try_negate (C06.negate) and the literal arithmetic (C06.<op>.*) are abstract callees",
                    "List folding: unit c16_list_fold"]
UNITS.append(VUnit("c06_walk_leaves", ["C06", "C15", "C12"], "the folding walk: `!e`, nil, typeof, literal values, and what is never a constant", build_leaves))
UNITS[1].assumes = ["the folds handed on to (expression, number, list) are abstract callees with their own obligations"]

"""C16: the stack the compiler runs on.  The front end recurses natively once per nesting level of the source -- pest's rule functions on
`(`, `[`, `{`, `fn(`; the AST builders; `compile_depth` once per operand of an operator chain -- so the depth of its recursion is bounded by the
length of the input and by nothing else.  `mscript compile` must therefore call `compile` on a stack that the inputs of the property (up to
4 kB) cannot exhaust.  Fragment under contract: the `Commands::Compile` arm of `main`; the obligation is the PRECONDITION of `compile`
(the stack of the thread it is called on), discharged at the call site from what the arm does with `thread::Builder`.

What this cannot decide: the per-level cost itself (frame sizes are the code generator's) -- it is the unit's stated assumption, with the measured value."""
from vlib.rules import *
from vlib.pattern import Pat

MAIN = "src/main.rs"
MAX_INPUT = 4096          # the property's bound on the input
PER_LEVEL = 32 * 1024     # assumed bound on the stack used per nesting level / operand (measured: <= 8.4 kB on the debug build)

SPEC = r"""
use vstd::prelude::*;
verus! {
pub struct VErr { pub id: int }
#[verifier::external_body] pub fn verr_new() -> (r: VErr) { unimplemented!() }
#[verifier::external_body] pub struct VString { x: usize }
#[verifier::external_body] pub struct PanicPayload { x: usize }
#[verifier::external_body] pub struct Product { x: usize }
pub enum CompilationTargets { Binary, RawText }
// what the property's inputs need: depth of the recursion <= length of the input <= MAX_INPUT; PER_LEVEL bytes of stack per level (assumed)
pub open spec fn stack_needed() -> nat { (%MAX_INPUT% * %PER_LEVEL%) as nat }
// the stack of the process' first thread is the environment's (ulimit -s; 8 MB by default on Linux, 1 MB on Windows): nothing is known about it
pub uninterp spec fn main_thread_stack() -> nat;
// std: a thread built without `stack_size` gets 2 MiB (or RUST_MIN_STACK)
pub open spec fn default_thread_stack() -> nat { 2 * 1024 * 1024 }
pub struct Builder { pub stack: Ghost<Option<nat>> }
pub open spec fn stack_of(b: &Builder) -> nat { match b.stack@ { Some(n) => n, None => default_thread_stack() } }
impl Builder {
    pub fn new() -> (r: Builder) ensures r.stack@ is None { Builder { stack: Ghost(None) } }
    pub fn name(self, n: VString) -> (r: Builder) ensures r.stack@ == self.stack@ { self }
    pub fn stack_size(self, n: usize) -> (r: Builder) ensures r.stack@ == Some(n as nat) { Builder { stack: Ghost(Some(n as nat)) } }
}
#[verifier::external_body] pub fn vstring(s: &str) -> (r: VString) { unimplemented!() }
#[verifier::external_body] pub struct JoinHandleV { x: usize }
impl JoinHandleV { #[verifier::external_body] pub fn join(self) -> (r: Result<Result<(), VErr>, PanicPayload>) { unimplemented!() } }
#[verifier::external_body] pub fn spawn_done(b: Builder) -> (r: Result<JoinHandleV, VErr>) { unimplemented!() }
#[verifier::external_body] pub fn resume_unwind(p: PanicPayload) ensures false { unimplemented!() }
#[verifier::external_body] pub fn logger_set_verbose() { unimplemented!() }
#[verifier::external_body] pub fn logger_init() -> (r: Result<(), VString>) { unimplemented!() }
// THE CONTRACT: `compile` (parser, AST builders, code generation) is called on a stack that an input of the property's size cannot exhaust
#[verifier::external_body] pub fn compile_on(Ghost(stack): Ghost<nat>, path: &VString, output_bin: bool, verbose: bool, output_to_file: bool, override_no_pb: bool) -> (r: Result<Option<Product>, VErr>)
    requires stack >= stack_needed()
{ unimplemented!() }
"""


def build(repo):
    src = Source(repo)
    log = []
    fm = src.fn(MAIN, "main")
    try:
        arm = extract_match_arm(fm["body"], "Commands :: Compile $f")["body"]
    except Exception as e:
        raise Undecided(f"main: Compile arm not found: {e}")
    # top-level `const NAME: usize = ..;` items of main.rs are carried over as they stand
    consts = ""
    toks = src.toks(MAIN)
    cp = Pat("const $n : usize = $$e ;")
    depth = 0
    for i, t in enumerate(toks):
        if t == "{":
            depth += 1
        elif t == "}":
            depth -= 1
        elif t == "const" and depth == 0:
            m = cp.match_at(toks, i)
            if m:
                consts += "pub " + text(toks[i:m[0]]) + "\n"
                log.append(("R0", text(toks[i:m[0]]), "(verbatim)", "constant of main.rs"))

    def in_thread(b):
        body = list(b["body"])
        out = []
        i = 0
        p = Pat("compile (")
        n = 0
        while i < len(body):
            if body[i] == "compile" and i + 1 < len(body) and body[i + 1] == "(":
                out += ["compile_on", "(", "Ghost", "(", "verif_thread_stack", ")", ","]
                i += 2
                n += 1
            else:
                out.append(body[i]); i += 1
        bn = text(b["b"])
        # the closure runs on the thread the builder describes; its `?` leaves the closure, whose result is the thread's
        return (f"{{ let ghost verif_thread_stack : nat = stack_of ( & {bn} ) ; "
                f"let verif_closure = | | -> ( verif_cr : Result < ( ) , VErr > ) {{ {text(out)} }} ; "
                f"let verif_cres = verif_closure ( ) ; spawn_done ( {bn} ) }}")

    rules = [
        Rule("R3", "LOGGER . set_verbose ( ) ;", "logger_set_verbose ( ) ;", why="logger: abstract"),
        Rule("R3", "log :: set_logger ( & LOGGER ) . map ( $$m )", "logger_init ( )", why="logger initialisation: abstract (may fail)"),
        Rule("R3", "bail ! $a", "return Err ( verr_new ( ) )", why="bail!(text) -> a new error"),
        Rule("R9", "matches ! ( $x , CompilationTargets :: Binary )", "( match $x { CompilationTargets :: Binary => true , _ => false } )", why="matches! spelled out"),
        Rule("R10", "$b . spawn ( move || -> Result < ( ) > { $$body } )", in_thread,
             why="thread::Builder::spawn(closure): the closure body runs on a thread with the builder's stack (ghost `verif_thread_stack`); a call of `compile` in it is checked against THAT stack"),
        Rule("R10", "compile (", "compile_on ( Ghost ( main_thread_stack ( ) ) ,", why="a call of `compile` outside any spawned closure runs on the process' first thread"),
        Rule("R9", "thread :: Builder :: new ( )", "Builder :: new ( )", why="std::thread::Builder: ghost model (only the stack size it was given)"),
        Rule("R9", '. name ( $s . into ( ) )', ". name ( vstring ( $s ) )", why="thread name: a string"),
        Rule("R9", "std :: panic :: resume_unwind ( $$e )", "resume_unwind ( $$e )", why="re-raises the thread's panic: does not return"),
    ]
    at = translate(list(arm), rules, log, "main: Compile arm")
    check_closed(at, "main: Compile arm")
    spec = SPEC.replace("%MAX_INPUT%", str(MAX_INPUT)).replace("%PER_LEVEL%", str(PER_LEVEL))
    gen = header(log, f"{MAIN}: main, the `Commands::Compile` arm") + spec + consts + f"""
//@ OBL C16.compile.stack
// `mscript compile`: wherever the arm calls `compile`, the stack of the thread it is called on suffices for every input of the property's size
pub fn compile_arm(path: VString, output_format: CompilationTargets, verbose: bool, quick: bool) -> (r: Result<(), VErr>)
{{
{render(at, 1)}
    Ok(())
}}
}} // verus!
fn main() {{}}
"""
    obls = [Obl("C16.compile.stack", ["C16"], fn="compile_arm",
                desc=f"main, Compile arm: every call of `compile` runs on a thread whose stack is at least {MAX_INPUT} x {PER_LEVEL} bytes "
                     f"(recursion depth <= input length <= {MAX_INPUT}; <= {PER_LEVEL} bytes per level assumed) -- deep nesting or a long operator chain cannot overflow the native stack")]
    return gen, obls, log


UNITS = [VUnit("c16_stack", ["C16"], "the stack `mscript compile` gives the front end", build)]
UNITS[0].assumes = [f"the front end uses at most {PER_LEVEL} bytes of native stack per nesting level / operator-chain operand (measured on the debug build: <= 8.4 kB per `(`-level through the whole pipeline, <= 14 kB per nested block); frame sizes are rustc's and not visible to the verifier",
                    f"recursion depth <= length of the input <= {MAX_INPUT} bytes (the property's bound); every recursive descent consumes at least one byte of input per level (pest rules, Pratt parser, compile_depth)",
                    "std::thread::Builder::stack_size(n) gives the spawned thread a stack of at least n bytes; the closure passed to spawn runs on that thread",
                    "`mscript run` compiles on the runtime thread whose stack the user chooses (-X, 4 MB by default): not covered (the property observes `mscript compile`)"]

"""C02 / C08: the members of a class.  The type checker resolves `obj.m` against the member list `ClassBody::get_members` builds (the FIRST
member called m), the interpreter against the function table the class compiles to (the LAST definition of `K::m` wins).  "Every value has its
static type" therefore needs the member called m to be ONE member: `get_members` must list the members in the order written and must reject
a class that declares a name twice.  Under contract: `ClassBody::get_members` (compiler/src/ast/class/class_body.rs)."""
from vlib.rules import *
from vlib.pattern import Pat

FILE = "compiler/src/ast/class/class_body.rs"

SPEC = r"""
use vstd::prelude::*;
verus! {
pub struct VErr;
#[verifier::external_body] pub struct Node { x: usize }
#[verifier::external_body] pub struct Span { x: usize }
#[verifier::external_body] pub struct VString { x: usize }
#[verifier::external_body] pub struct TypeV { x: usize }
pub uninterp spec fn text_of(s: &VString) -> Seq<char>;
// `a == b` on names: the same text
#[verifier::external_body] pub fn name_eq(a: &VString, b: &VString) -> (r: bool) ensures r == (text_of(a) == text_of(b)) { unimplemented!() }
pub struct Ident { pub name: VString, pub ty: TypeV }
impl Ident { pub fn name(&self) -> (r: &VString) ensures *r == self.name { &self.name } }
// the identifier (name, type) a member declaration introduces: ClassFeature::type_from_node, abstract
pub uninterp spec fn member_of(n: Node) -> Option<Ident>;
#[verifier::external_body] pub fn type_from_node(n: &Node) -> (r: Result<Ident, VErr>) ensures r is Ok <==> member_of(*n) is Some, r is Ok ==> r->Ok_0 == member_of(*n)->Some_0 { unimplemented!() }
pub uninterp spec fn children_of(n: &Node) -> Seq<Node>;
#[verifier::external_body] pub fn children(n: &Node) -> (r: Vec<Node>) ensures r@ == children_of(n) { unimplemented!() }
#[verifier::external_body] pub fn as_span(n: &Node) -> (r: Span) { unimplemented!() }
#[verifier::external_body] pub fn new_err_v(s: Span, n: &Node) -> (r: VErr) { unimplemented!() }
// Vec -> Arc<[T]>: the same sequence
pub fn into_arc(v: Vec<Ident>) -> (r: Vec<Ident>) ensures r@ == v@ { v }
pub open spec fn distinct_names(s: Seq<Ident>) -> bool { forall|i: int, j: int| 0 <= i < j < s.len() ==> text_of(&s[i].name) != text_of(&s[j].name) }
"""


def build(repo):
    src = Source(repo)
    log = []
    f = src.fn(FILE, "get_members", "impl ClassBody")

    def any_loop(b):
        a, x, body = text(b["a"]), text(b["x"]), b["body"]
        return ["{", f"let mut verif_i : usize = 0 ; let mut verif_r = false ; while verif_i < {a} . len ( )",
                G(f"invariant verif_i <= {a}.len(), verif_r == (exists|verif_j: int| 0 <= verif_j < verif_i && text_of(&#[trigger] {a}@[verif_j].name) == text_of(&ty.name)) decreases {a}.len() - verif_i"),
                "{", f"let {x} = & {a} [ verif_i ] ; if (", *body, ") { verif_r = true ; } verif_i += 1 ;", "}", "verif_r", "}"]

    def for_loop(b):
        x, v, body = text(b["x"]), text(b["v"]), b["body"]
        return [f"let mut verif_k : usize = 0 ; while verif_k < {v} . len ( )",
                G(f"invariant verif_k <= {v}.len(), {v}@ == children_of(input), fields@.len() == verif_k, distinct_names(fields@), "
                  f"forall|j: int| 0 <= j < verif_k ==> member_of({v}@[j]) == Some(#[trigger] fields@[j]) decreases {v}.len() - verif_k"),
                "{", f"let {x} = & {v} [ verif_k ] ; verif_k += 1 ;", *body, "}"]

    def first_arg_only(b):
        toks, depth, out = b["all"], 0, []
        for t in toks:
            if t in "([{":
                depth += 1
            elif t in ")]}":
                depth -= 1
            elif t == "," and depth == 0:
                break
            out.append(t)
        return ["new_err_v", "(", *out, ",", "input", ")"]

    body = translate(list(f["body"]), [
        Rule("R3", "new_err ( $$all )", first_arg_only, why="diagnostic construction: abstract (span kept, file name and text dropped)"),
        Rule("R2", "$a . iter ( ) . any ( | $x : & Ident | $$body )", any_loop, why="any() over the members so far -> counting loop (invariant: some earlier member has this name)"),
        Rule("R2", "$a . iter ( ) . any ( | $x | $$body )", any_loop, why="any() over the members so far -> counting loop (invariant: some earlier member has this name)"),
        Rule("R2", "for $x in $v { $$body }", for_loop, count=1, why="for over the children -> indexed while (iteration order of the children)"),
        Rule("R6", "input . children ( )", "children ( input )", why="pest children: abstract sequence"),
        Rule("R6", "ClassFeature :: type_from_node ( & member ) ?", "type_from_node ( member ) ?", why="member declaration -> identifier: abstract"),
        Rule("R6", "$n . as_span ( )", "as_span ( $n )", why="span: abstract"),
        Rule("R9", "$a . name ( ) == $b . name ( )", "name_eq ( $a . name ( ) , $b . name ( ) )", why="&String == &String: the same text"),
        Rule("R12", "vec ! [ ]", "Vec :: < Ident > :: new ( )", why="empty vector"),
        Rule("R1", "$v . into ( )", "into_arc ( $v )", why="Vec -> Arc<[Ident]>: the same sequence"),
    ], log, "ClassBody::get_members")
    check_closed(body, "ClassBody::get_members")
    gen = header(log, f"{FILE}: ClassBody::get_members") + SPEC + f"""
//@ OBL C02.class.members-distinct
pub fn get_members(input: &Node) -> (r: Result<Vec<Ident>, VErr>)
    ensures r is Ok ==> r->Ok_0@.len() == children_of(input).len()
                // the members as declared, in the order written ...
                && (forall|j: int| 0 <= j < r->Ok_0@.len() ==> member_of(children_of(input)[j]) == Some(#[trigger] r->Ok_0@[j]))
                // ... and `the member called m` is ONE member: no name is declared twice
                && distinct_names(r->Ok_0@),
{{
{render(body, 1)}
}}
}} // verus!
fn main() {{}}
"""
    return gen, [Obl("C02.class.members-distinct", ["C02", "C08", "C03"], fn="ClassBody::get_members",
                     desc="ClassBody::get_members: the members as declared, in order; a class that declares a member name twice is a diagnostic (the checker would type `obj.m` by the first, the interpreter run the last)")], log


UNITS = [VUnit("c02_class_members", ["C02", "C08", "C03"], "class members: one member per name", build)]
UNITS[0].assumes = ["ClassFeature::type_from_node (name and type of one member declaration) is abstract; the children of the class body node are the member declarations (grammar)",
                    "that the interpreter resolves `K::m` to the last definition is read off Class::compile / the function table (not under contract here)"]

"""C10 / C03: element / field assignment `path = value` (reassignment.rs): the const flag of the path is the const flag of the variable at
its root -- also when that variable is captured from an enclosing scope -- and a const path is rejected; the value must fit the place."""
from vlib.rules import *
from vlib.extract import extract_match_arm

FILE = "compiler/src/ast/reassignment.rs"

SPEC = r"""
pub struct Ident { pub name: VStr, pub ty: Option<TypeLayout>, pub read_only: bool, pub captured: bool }
impl Ident {
    pub fn is_const(&self) -> (r: bool) ensures r == self.read_only { self.read_only }
    #[verifier::external_body] pub fn clone(&self) -> (r: Ident) ensures r == *self { unimplemented!() }
    // Ident::wrap_in_callback (obligation C10.ident.wrap_in_callback): marks the identifier as captured, keeps name and const flag
    #[verifier::external_body] pub fn wrap_in_callback(self) -> (r: Result<Ident, VErr>) ensures r is Ok ==> r->Ok_0.name == self.name && r->Ok_0.read_only == self.read_only && r->Ok_0.captured { unimplemented!() }
}
#[verifier::external_body] pub struct PathRest { x: usize }
pub enum ReassignmentPath { Ident(Ident), ReferenceToSelf(Option<TypeLayout>), Index { lhs: Box<ReassignmentPath>, index: PathRest }, DotLookup { lhs: Box<ReassignmentPath>, dot_chain: PathRest, expected_type: TypeLayout } }
pub uninterp spec fn path_const(n: Node) -> Option<bool>;           // ReassignmentPath::parse: the const flag it reports (None: a diagnostic)
pub uninterp spec fn path_of(n: Node) -> ReassignmentPath;
#[verifier::external_body] pub fn reassignment_path_parse(n: Node) -> (r: Result<(ReassignmentPath, bool), VErr>)
    ensures r is Ok <==> path_const(n) is Some, r is Ok ==> r->Ok_0.1 == path_const(n)->Some_0 && r->Ok_0.0 == path_of(n) { unimplemented!() }
pub uninterp spec fn place_type(p: ReassignmentPath) -> TypeLayout;
impl ReassignmentPath { #[verifier::external_body] pub fn expected_type(&self) -> (r: &TypeLayout) ensures *r == place_type(*self) { unimplemented!() } }
pub uninterp spec fn the_class(n: &Node) -> Option<&ClassType>;
#[verifier::external_body] pub fn the_class_of(n: &Node) -> (r: Option<&ClassType>) ensures r == the_class(n) { unimplemented!() }
// TypeLayout::eq_complex(expected = the place's type, supplied = the value's type) in the class context of the statement (D85: the two were swapped)
pub uninterp spec fn assign_fits(place_ty: TypeLayout, value_ty: TypeLayout, n: &Node) -> bool;
#[verifier::external_body] pub fn assign_eq_complex(place_ty: &TypeLayout, value_ty: &TypeLayout, n: &Node) -> (r: bool) ensures r == assign_fits(*place_ty, *value_ty, n) { unimplemented!() }
// the type admits nil (TypeLayout::is_optional().0)
pub uninterp spec fn may_be_nil(t: TypeLayout) -> bool;
pub trait VerifOpt { fn is_optional(&self) -> (bool, Option<&TypeLayout>); }
impl VerifOpt for TypeLayout { #[verifier::external_body] fn is_optional(&self) -> (r: (bool, Option<&TypeLayout>)) ensures r.0 == may_be_nil(*self) { unimplemented!() } }
pub struct Reassignment { pub path: ReassignmentPath, pub value: Value }
// ---- the `.field` step of a path
pub uninterp spec fn path_type(p: ReassignmentPath) -> Option<TypeLayout>;          // ReassignmentPath::for_type
pub uninterp spec fn as_self(t: TypeLayout) -> TypeLayout;                           // assume_type_of_self
pub uninterp spec fn is_module_ty(t: TypeLayout) -> bool;                            // the type (wrappers looked through) is a module
impl ReassignmentPath { #[verifier::external_body] pub fn for_type(&self) -> (r: Result<TypeLayout, VErr>) ensures r is Ok <==> path_type(*self) is Some, r is Ok ==> r->Ok_0 == path_type(*self)->Some_0 { unimplemented!() } }
#[verifier::external_body] pub fn assume_type_of_self(t: TypeLayout) -> (r: TypeLayout) ensures r == as_self(t) { unimplemented!() }
#[verifier::external_body] pub fn type_is_module(t: &TypeLayout) -> (r: bool) ensures r == is_module_ty(*t) { unimplemented!() }
// the same kind test on the type as written (an alias / optional / captured wrapper not looked through): NOT known to see every module value
pub uninterp spec fn raw_is_module_ty(t: TypeLayout) -> bool;
#[verifier::external_body] pub fn raw_type_is_module(t: &TypeLayout) -> (r: bool) ensures r == raw_is_module_ty(*t) { unimplemented!() }
#[verifier::external_body] pub fn parse_dot_chain(op: Node, t: &TypeLayout) -> (r: Result<(PathRest, TypeLayout), VErr>) { unimplemented!() }
#[verifier::external_body] pub fn span_of(n: &Node) -> (r: Span) { unimplemented!() }
"""


def build(repo):
    src = Source(repo)
    log = []
    # ---- parse_path, arm Rule::ident, from the lookup result on
    fp = src.fn(FILE, "parse_path")
    try:
        arm = extract_match_arm(fp["body"], "Rule :: ident")
    except Exception as e:
        raise Undecided(f"parse_path: arm Rule::ident not found: {e}")
    body = arm["body"]
    p = Pat("let ( ident , is_callback ) = user_data . get_dependency_flags_from_name ( raw_string ) $$rest ;")
    at = None
    for i in range(len(body)):
        r = p.match_at(body, i)
        if r:
            at = r[0]; break
    if at is None:
        raise Undecided("parse_path[ident]: the lookup `let (ident, is_callback) = user_data.get_dependency_flags_from_name(raw_string)..` not found")
    frag = body[at:]
    bi = translate(frag, [
        Rule("R3", ". to_err_vec ( ) ?", "?", why="error vector wrapper dropped"),
        Rule("R1", "primary . as_span ( )", "span_of ( primary )", why="pest API abstract"),
    ], log, "parse_path[ident]")
    check_closed(bi, "parse_path[ident]")
    # ---- Parser::reassignment
    fr = src.fn(FILE, "reassignment", "impl Parser")
    br = translate(fr["body"], [
        Rule("R6", "input . children ( )", "children ( & input )", why="pest API abstract"),
        Rule("R8", "children . next ( ) . unwrap ( )", "unwrap_node ( children . next ( ) )", why="unwrap on a child: grammar child count (R8)"),
        Rule("R1", "let path_span = value . as_span ( ) ;", "", why="span only feeds diagnostics"),
        Rule("R6", "ReassignmentPath :: parse ( path ) ?", "reassignment_path_parse ( path ) ?", why="path parser: separate obligation (C10.reassign.path-ident) + abstract postfix steps"),
        Rule("R3", "return Err ( vec ! [ new_err ( $$a ) ] ) ;", "return Err ( VErr ) ;", why="diagnostic construction dropped (that a diagnostic IS returned is kept)"),
        Rule("R6", "Self :: value ( value ) ?", "parse_value ( value ) ?", why="sub-parser abstract"),
        Rule("R6", "value . for_type ( & TypecheckFlags :: use_class ( input . user_data ( ) . get_type_of_executing_class ( ) , ) ) . to_err_vec ( ) ?", "value_for_type ( & value , the_class_of ( & input ) ) ?", why="type query abstract"),
        Rule("R1", "let maybe_class = input . user_data ( ) . get_type_of_executing_class ( ) ;", "", why="class for the comparison flags: folded into the abstract comparison"),
        Rule("R6", "! $a . eq_complex ( $$b , & TypecheckFlags :: use_class ( maybe_class . as_ref ( ) . map ( Ref :: clone ) ) $$fl , )",
             lambda b: "! assign_eq_complex ( " + ("& value_ty" if text(b["a"]) == "value_ty" else text(b["a"])) + " , " + ("& value_ty" if text(b["b"]) in ("& value_ty",) else text(b["b"])) + " , & input )",
             why="compatibility test abstract, argument order kept (flags: use_class(..))"),
        Rule("R6", "! $a . eq_complex ( $$b , & TypecheckFlags :: use_class ( maybe_class . as_ref ( ) . map ( Ref :: clone ) ) , )",
             lambda b: "! assign_eq_complex ( " + ("& value_ty" if text(b["a"]) == "value_ty" else text(b["a"])) + " , " + text(b["b"]) + " , & input )",
             why="compatibility test abstract, argument order kept (flags: use_class(..))"),
        Rule("R1", "let hint = $$e ;", "", why="diagnostic text"),
    ], log, "Parser::reassignment")
    check_closed(br, "Parser::reassignment")
    # ---- parse_path, postfix arm Rule::dot_chain
    try:
        armd = extract_match_arm(fp["body"], "Rule :: dot_chain")
    except Exception as e:
        raise Undecided(f"parse_path: arm Rule::dot_chain not found: {e}")
    bd = translate(armd["body"], [
        Rule("R3", ". details ( $$a )", "", why="diagnostic text dropped"),
        Rule("R3", ". to_err_vec ( ) ?", "?", why="error vector wrapper dropped"),
        Rule("R6", "lhs_ty . assume_type_of_self ( & user_data )", "assume_type_of_self ( lhs_ty )", why="abstract"),
        Rule("R6", "matches ! ( lhs_ty . disregard_distractors ( false ) , TypeLayout :: Module ( .. ) )", "type_is_module ( & lhs_ty )", why="kind test on the (unwrapped) type: abstract predicate"),
        Rule("R6", "matches ! ( lhs_ty , TypeLayout :: Module ( .. ) )", "raw_type_is_module ( & lhs_ty )", why="kind test on the type as written (wrappers not looked through): a different abstract predicate"),
        Rule("R6", "Parser :: dot_chain ( Node :: new_with_user_data ( op , Rc :: clone ( & user_data ) ) , Cow :: Borrowed ( & lhs_ty ) , ) ?", "parse_dot_chain ( op , & lhs_ty ) ?", why="sub-parser abstract"),
        Rule("R1", "expected_type . into_owned ( )", "expected_type", why="Cow::into_owned"),
    ], log, "parse_path[dot_chain]")
    check_closed(bd, "parse_path[dot_chain]")
    gen = header(log, f"{FILE}: parse_path (arm Rule::ident, after the lookup; postfix arm Rule::dot_chain), Parser::reassignment") + prelude("parser.rs") + SPEC + f"""
//@ OBL C10.reassign.path-ident
// the root of an assignment path: its const flag is the variable's const flag, whether the variable is the function's own or captured
pub fn path_ident(ident: &Ident, is_callback: bool, primary: &Node) -> (r: Result<(ReassignmentPath, Span, bool), VErr>)
    ensures r is Ok ==> r->Ok_0.2 == ident.read_only && r->Ok_0.0 is Ident && r->Ok_0.0->Ident_0.name == ident.name && r->Ok_0.0->Ident_0.read_only == ident.read_only,
{{
{render(bi, 1)}
}}

//@ OBL C10.reassign.path-field
// `p.field` as an assignment target: const when p is, and ALWAYS const when p is a module (through whatever name the module is reached):
// the members of a module are not written from outside it
pub fn path_field(lhs: Result<(ReassignmentPath, Span, bool), VErr>, op: Node) -> (r: Result<(ReassignmentPath, Span, bool), VErr>)
    ensures r is Ok ==> lhs is Ok && path_type(lhs->Ok_0.0) is Some
        && (lhs->Ok_0.2 ==> r->Ok_0.2) && (is_module_ty(as_self(path_type(lhs->Ok_0.0)->Some_0)) ==> r->Ok_0.2),
{{
{render(bd, 1)}
}}

//@ OBL C10.reassign.const-rejected
pub fn reassignment(input: Node) -> (r: Result<Reassignment, VErr>)
    requires node_children(&input).len() >= 2
    ensures r is Ok ==> ({{
        let path = node_children(&input)[0];
        // C10: an element / field of a const variable is not written
        &&& path_const(path) == Some(false)
        // C03 / C02: the value's type fits the place
        &&& type_of(&r->Ok_0.value, the_class(&input)) is Some
        &&& assign_fits(place_type(path_of(path)), type_of(&r->Ok_0.value, the_class(&input))->Some_0, &input)
        // C03 (re-assignment with a different type): a value that may be nil never goes into a place whose type does not admit nil (`xs[0] = x`, x: int?, xs: [int...]: D50)
        &&& !(may_be_nil(type_of(&r->Ok_0.value, the_class(&input))->Some_0) && !may_be_nil(place_type(path_of(path))))
    }}),
{{
{render(br, 1)}
}}
}} // verus!
fn main() {{}}
"""
    obls = [Obl("C10.reassign.path-field", ["C10", "C11"], fn="parse_path[Rule::dot_chain]", desc="parse_path, `.field` step: const when the object is, always const when the object is a module"), Obl("C10.reassign.path-ident", ["C10", "C11"], fn="parse_path[Rule::ident]", desc="parse_path, root name: the reported const flag is the variable's const flag, captured or not"),
            Obl("C10.reassign.const-rejected", ["C10", "C03", "C02", "C11"], fn="Parser::reassignment", desc="Parser::reassignment: a path whose root is const is rejected; the value's type must fit the place")]
    return gen, obls, log


UNITS = [VUnit("c10_reassign", ["C10", "C03", "C02", "C11"], "element / field assignment: const root rejected, type fits", build)]
UNITS[0].assumes = ["parse_path is a Pratt-parser closure: only the root-name arm (after the scope lookup) is a fragment under contract; the index step passes the flag on unchanged (by inspection) -- not under contract; the field step is obligation C10.reassign.path-field",
                    "pest API, sub-parsers, the compatibility test abstract; diagnostics dropped"]

"""C03: Parser::function_arguments -- a call is accepted only with exactly as many arguments as the signature has parameters, each of a
type the parameter accepts."""
from vlib.rules import *

FILE = "compiler/src/ast/function_arguments.rs"

SPEC = r"""
#[verifier::external_body] pub struct FunctionParameters { x: usize }
pub uninterp spec fn param_types(p: &FunctionParameters) -> Seq<TypeLayout>;
#[verifier::external_body] pub fn to_types(p: &FunctionParameters) -> (r: Vec<TypeLayout>) ensures r@ == param_types(p) { unimplemented!() }
#[verifier::external_body] pub fn params_len(p: &FunctionParameters) -> (r: usize) ensures r == param_types(p).len() { unimplemented!() }
pub uninterp spec fn resolved(t: TypeLayout) -> TypeLayout;                 // get_type_recursively
#[verifier::external_body] pub fn get_type_recursively(t: &TypeLayout) -> (r: &TypeLayout) ensures *r == resolved(*t) { unimplemented!() }
// the comparison the call site performs: expected.eq_complex(supplied, use_class(..).lhs_unwrap(false))
pub uninterp spec fn arg_fits(expected: TypeLayout, supplied: TypeLayout, n: &Node, st: Option<&TypeLayout>) -> bool;
#[verifier::external_body] pub fn arg_eq_complex(expected: &TypeLayout, supplied: &TypeLayout, n: &Node, st: Option<&TypeLayout>) -> (r: bool) ensures r == arg_fits(*expected, *supplied, n, st) { unimplemented!() }
pub uninterp spec fn the_class(n: &Node) -> Option<&ClassType>;
#[verifier::external_body] pub fn the_class_of(n: &Node) -> (r: Option<&ClassType>) ensures r == the_class(n) { unimplemented!() }
pub struct FunctionArguments(pub Vec<Value>);
#[verifier::external_body] pub fn clone_node(n: &Node) -> (r: Node) ensures r == *n { unimplemented!() }
"""


def build(repo):
    src = Source(repo)
    log = []
    f = src.fn(FILE, "function_arguments", "impl Parser")
    inv = ("invariant verif_k <= kids@.len(), kids@ == node_children(&input), expected_types@ == param_types(expected_parameters), result_len <= verif_k, "
           "result@.len() <= result_len, verif_k <= expected_types@.len(), "
           "(errors@.len() == 0 ==> result_len == verif_k && result@.len() == verif_k), "
           "(errors@.len() == 0 ==> forall|j: int| 0 <= j < verif_k ==> #[trigger] type_of(&result@[j], the_class(&input)) is Some "
           "  && arg_fits(expected_types@[j], resolved(type_of(&result@[j], the_class(&input))->Some_0), &input, allow_self_type)) "
           "decreases kids@.len() - verif_k")

    def loop(b):
        i, x = text(b["i"]), text(b["x"])
        return ["let kids = children . items ; let mut verif_k : usize = 0 ; while verif_k < kids . len ( )", G(inv),
                "{", f"let {i} = verif_k ; let {x} = clone_node ( & kids [ {i} ] ) ; verif_k += 1 ;", *b["body"],
                G("proof { assert(result_len <= verif_k); }"), "}"]
    rules = [
        Rule("R6", "let children = input . children ( ) ;", "let children = children ( & input ) ;", why="pest API abstract"),
        Rule("R12", "let mut result = vec ! [ ] ;", "let mut result : Vec < Value > = Vec :: new ( ) ;", why="vec![] with the element type stated"),
        Rule("R12", "let mut errors = vec ! [ ] ;", "let mut errors : Vec < VErr > = Vec :: new ( ) ;", why="vec![] with the element type stated"),
        Rule("R6", "let expected_types : Cow < Vec < Cow < TypeLayout >> > = expected_parameters . to_types ( ) ;", "let expected_types = to_types ( expected_parameters ) ;", why="parameter types of the signature"),
        Rule("R1", "let mut child_span = input . as_span ( ) ;", "", why="span only feeds diagnostics"),
        Rule("R1", "child_span = child . as_span ( ) ;", "", why="span only feeds diagnostics"),
        Rule("R2", "for ( $i , $x ) in children . enumerate ( ) { $$body }", loop, count=1, why="for over Children.enumerate() -> indexed while over the child sequence"),
        Rule("R3", "return Err ( vec ! [ new_err ( $$a ) ] ) ;", "return Err ( VErr ) ;", why="diagnostic construction dropped (that a diagnostic IS returned is kept)"),
        Rule("R6", "Self :: value ( child ) ?", "parse_value ( child ) ?", why="sub-parser abstract"),
        Rule("R6", "value_for_arg . for_type ( & TypecheckFlags :: use_class ( input . user_data ( ) . get_type_of_executing_class ( ) , ) ) . to_err_vec ( ) ?", "value_for_type ( & value_for_arg , the_class_of ( & input ) ) ?", why="type query abstract"),
        Rule("R6", "arg_ty . get_type_recursively ( )", "get_type_recursively ( & arg_ty )", why="alias resolution abstract"),
        Rule("R1", "let maybe_class_type = allow_self_type . and_then ( $$c ) ;", "", why="class selection for the comparison flags: folded into the abstract comparison"),
        Rule("R1", "let active_class = input . user_data ( ) . get_type_of_executing_class ( ) ;", "", why="class selection for the comparison flags"),
        Rule("R1", "let class_sent_for_comparison = maybe_class_type . or ( active_class . as_deref ( ) ) ;", "", why="class selection for the comparison flags"),
        Rule("R6", "! expected_ty_at_idx . eq_complex ( user_gave , & TypecheckFlags :: use_class ( class_sent_for_comparison ) . lhs_unwrap ( false ) , )",
             "! arg_eq_complex ( expected_ty_at_idx , user_gave , & input , allow_self_type )", why="compatibility test abstract (flags: use_class(..).lhs_unwrap(false))"),
        Rule("R1", "let argument_number = idx + 1 ;", "", why="diagnostic text"), Rule("R1", "let hint = $$e ;", "", why="diagnostic text"), Rule("R1", "let error_message = format ! $a ;", "", why="diagnostic text"),
        Rule("R3", "errors . push ( new_err ( $$a ) ) ;", "errors . push ( VErr ) ;", why="diagnostic construction dropped"),
        Rule("R3", "errors . push ( new_err ( $$a ) )", "errors . push ( VErr )", why="diagnostic construction dropped"),
        Rule("R1", "let expected_parameters_len = expected_parameters . len ( ) ;", "let expected_parameters_len = params_len ( expected_parameters ) ;", why="number of parameters"),
        Rule("R1", "let result_plural = $$e ;", "", why="diagnostic text"), Rule("R1", "let expected_plural = $$e ;", "", why="diagnostic text"), Rule("R1", "let msg = format ! $a ;", "", why="diagnostic text"),
        Rule("R3", "return Err ( errors ) ;", "return Err ( VErr ) ;", why="error vector -> Err"),
    ]
    b = translate(f["body"], rules, log, "Parser::function_arguments")
    b = Rule("R11", "result . push ( value_for_arg )", [G("proof { assert(type_of(&value_for_arg, the_class(&input)) is Some); }"), "result . push ( value_for_arg ) ;"], why="").apply(b, log)
    check_closed(b, "Parser::function_arguments")
    gen = header(log, f"{FILE}: Parser::function_arguments") + prelude("parser.rs") + SPEC + f"""
//@ OBL C03.args.count-and-types
#[verifier::loop_isolation(false)]
pub fn function_arguments(input: Node, expected_parameters: &FunctionParameters, allow_self_type: Option<&TypeLayout>) -> (r: Result<FunctionArguments, VErr>)
    ensures r is Ok ==> ({{
        let n = node_children(&input).len();
        // exactly as many arguments as parameters: none missing, none extra
        &&& n == param_types(expected_parameters).len()
        &&& r->Ok_0.0@.len() == n
        // every argument has a type the parameter at its position accepts
        &&& forall|j: int| 0 <= j < n ==> #[trigger] type_of(&r->Ok_0.0@[j], the_class(&input)) is Some
                && arg_fits(param_types(expected_parameters)[j], resolved(type_of(&r->Ok_0.0@[j], the_class(&input))->Some_0), &input, allow_self_type)
    }}),
{{
{render(b, 1)}
}}
}} // verus!
fn main() {{}}
"""
    return gen, [Obl("C03.args.count-and-types", ["C03", "C02"], fn="Parser::function_arguments", desc="Parser::function_arguments: accepted only with exactly as many arguments as parameters, each compatible with its parameter's type")], log


UNITS = [VUnit("c03_args", ["C03", "C02"], "call arguments: count and types against the signature", build)]
UNITS[0].assumes = ["pest API and sub-parsers abstract; the compatibility test (eq_complex with the call site's flags) is uninterpreted; diagnostics dropped"]

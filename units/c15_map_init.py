"""C15 / C13: the pairs of a map literal as the parser hands them to code generation -- Parser::map_initializer (compiler/src/ast/map.rs).
Map::compile (unit c15_seq) evaluates the pairs it is given left to right, each once; so the list it is given must be the pairs as written:
one entry per `key: value` of the source, in source order, key and value from that pair -- also when a key is written twice (the later
insert wins in the MAP, but both values are evaluated, in their places)."""
from vlib.rules import *

FILE = "compiler/src/ast/map.rs"

SPEC = r"""
pub uninterp spec fn origin(v: &Value) -> Node;               // the source node a parsed value came from
#[verifier::external_body] pub fn parse_value_from(n: Node) -> (r: Result<Value, Vec<VErr>>) ensures r is Ok ==> origin(&r->Ok_0) == n, r is Err ==> r->Err_0@.len() > 0 { unimplemented!() }
#[verifier::external_body] pub struct MapType { x: usize }
// ---- typing of the pairs (C03 / C02) ----
pub uninterp spec fn map_key_type(m: &MapType) -> TypeLayout;
pub uninterp spec fn map_value_type(m: &MapType) -> TypeLayout;
impl MapType {
    #[verifier::external_body] pub fn key_type(&self) -> (r: &TypeLayout) ensures *r == map_key_type(self) { unimplemented!() }
    #[verifier::external_body] pub fn value_type(&self) -> (r: &TypeLayout) ensures *r == map_value_type(self) { unimplemented!() }
}
pub uninterp spec fn vtype(v: &Value, input: &Node) -> TypeLayout;          // Value::for_type in the class context of the literal
#[verifier::external_body] pub fn value_type_of(v: &Value, input: &Node) -> (r: TypeLayout) ensures r == vtype(v, input) { unimplemented!() }
// TypeLayout::eq_complex in that class context: abstract, NOT known to be symmetric
pub uninterp spec fn fits(a: TypeLayout, b: TypeLayout, input: &Node) -> bool;
#[verifier::external_body] pub fn eq_complex_in(a: &TypeLayout, b: &TypeLayout, input: &Node) -> (r: bool) ensures r == fits(*a, *b, input) { unimplemented!() }
pub uninterp spec fn may_be_nil(t: TypeLayout) -> bool;                      // TypeLayout::is_optional().0
impl TypeLayout { #[verifier::external_body] pub fn is_optional(&self) -> (r: (bool, Option<&TypeLayout>)) ensures r.0 == may_be_nil(*self) { unimplemented!() } }
// a pair the literal may keep: key and value pass the compatibility test against the map's declared types, and -- from the property (C03:
// an ill-typed program is rejected; a value that may be nil is ill-typed where the type does not admit nil) -- neither is nil-able unless
// the declared type is
pub open spec fn pair_typed(p: (Value, Value), m: &MapType, input: &Node) -> bool {
    // the declared type is the EXPECTED side, the key / value written the SUPPLIED one (D84: the two were swapped)
    &&& fits(map_key_type(m), vtype(&p.0, input), input)
    &&& fits(map_value_type(m), vtype(&p.1, input), input)
    &&& !(may_be_nil(vtype(&p.0, input)) && !may_be_nil(map_key_type(m)))
    &&& !(may_be_nil(vtype(&p.1, input)) && !may_be_nil(map_value_type(m)))
}
#[verifier::external_body] pub fn child_at(c: &Children, k: usize) -> (r: Node) requires k < c.items@.len() ensures r == c.items@[k as int] { unimplemented!() }
#[verifier::external_body] pub fn errs_append(a: &mut Vec<VErr>, b: &mut Vec<VErr>) ensures final(a)@.len() == old(a)@.len() + old(b)@.len() { unimplemented!() }
pub open spec fn pair_of(kv: Node, p: (Value, Value)) -> bool { node_children(&kv).len() >= 2 && origin(&p.0) == node_children(&kv)[0] && origin(&p.1) == node_children(&kv)[1] }
"""


def build(repo):
    src = Source(repo)
    log = []
    f = src.fn(FILE, "map_initializer", "impl Parser")
    INV = ("invariant verif_k <= verif_kids.items@.len(), verif_kids.items@ == node_children(&input), "
           "forall|c: Node| has_rule(&c, \"map_kv\") ==> #[trigger] node_children(&c).len() >= 2, forall|i: int| 0 <= i < verif_kids.items@.len() ==> has_rule(#[trigger] &verif_kids.items@[i], \"map_kv\"), "
           "errors@.len() == 0 ==> result@.len() == verif_k && forall|i: int| 0 <= i < verif_k ==> pair_of(verif_kids.items@[i], #[trigger] result@[i]) && pair_typed(result@[i], map_type, &input), "
           "decreases verif_kids.items@.len() - verif_k,")
    b = translate(f["body"], parser_idioms() + [
        Rule("R1", "let mut errors = vec ! [ ] ;", "let mut errors : Vec < VErr > = Vec :: new ( ) ;", why="type ascription"),
        Rule("R1", "let mut result = vec ! [ ] ;", "let mut result : Vec < ( Value , Value ) > = Vec :: new ( ) ;", why="type ascription"),
        Rule("R2", "for kv_pair in input . children ( ) { $$body }", lambda bd: ["let verif_kids = node_kids ( & input ) ; let mut verif_k : usize = 0 ; while verif_k < verif_kids . items . len ( )", G(INV),
                                                                               "{ let kv_pair = child_at ( & verif_kids , verif_k ) ; verif_k += 1 ;", *bd["body"], "}"], count=1, why="for over the pest children -> indexed while"),
        Rule("R6", "kv_pair . children ( )", "node_kids ( & kv_pair )", why="pest API abstract"),
        Rule("R8", "children . next ( ) . unwrap ( )", "unwrap_node ( children . next ( ) )", why="unwrap on a child: grammar child count (R8)"),
        Rule("R1", "let key_span = key_node . as_span ( ) ;", "", why="span only feeds a diagnostic"),
        Rule("R1", "let value_span = value_node . as_span ( ) ;", "", why="span only feeds a diagnostic"),
        Rule("R6", "Self :: value ( $n )", "parse_value_from ( $n )", why="sub-parser abstract (keeps where the value came from)"),
        Rule("R13", "errors . append ( & mut $e ) ;", "errs_append ( & mut errors , & mut $e ) ;", why="Vec::append"),
        Rule("R13", "errors . append ( & mut $e )", "errs_append ( & mut errors , & mut $e )", why="Vec::append"),
        Rule("R6", "let maybe_class_type = { $$b } ;", "", why="class context: only feeds the type checks"),
        Rule("R6", "$v . for_type ( & TypecheckFlags :: use_class ( maybe_class_type . as_ref ( ) ) ) . unwrap ( )", "value_type_of ( & $v , & input )", why="Value::for_type in the literal's class context: abstract (assumed not to fail on a parsed value)"),
        Rule("R6", "map_type . $kt ( ) . eq_complex ( $$b , & TypecheckFlags :: use_class ( maybe_class_type . as_ref ( ) ) , )", "eq_complex_in ( map_type . $kt ( ) , $$b , & input )", why="TypeLayout::eq_complex in the literal's class context: abstract relation, direction kept"),
        Rule("R6", "map_type . $kt ( ) . eq_complex ( $$b , & TypecheckFlags :: use_class ( maybe_class_type . as_ref ( ) ) )", "eq_complex_in ( map_type . $kt ( ) , $$b , & input )", why="TypeLayout::eq_complex in the literal's class context: abstract relation, direction kept"),
        Rule("R6", "$a . eq_complex ( $$b , & TypecheckFlags :: use_class ( maybe_class_type . as_ref ( ) ) , )", "eq_complex_in ( & $a , $$b , & input )", why="TypeLayout::eq_complex in the literal's class context: abstract relation, direction kept"),
        Rule("R6", "$a . eq_complex ( $$b , & TypecheckFlags :: use_class ( maybe_class_type . as_ref ( ) ) )", "eq_complex_in ( & $a , $$b , & input )", why="TypeLayout::eq_complex in the literal's class context: abstract relation, direction kept"),
        Rule("R3", "errors . push ( new_err ( $$c ) )", "errors . push ( VErr )", why="diagnostic text dropped"),
    ], log, "Parser::map_initializer")
    check_closed(b, "Parser::map_initializer")
    gen = header(log, f"{FILE}: Parser::map_initializer") + prelude("parser.rs") + SPEC + f"""
//@ OBL C15.map.pairs-as-written
pub fn map_initializer(input: Node, map_type: &MapType) -> (r: Result<Vec<(Value, Value)>, Vec<VErr>>)
    requires forall|c: Node| has_rule(&c, "map_kv") ==> #[trigger] node_children(&c).len() >= 2,                                // grammar: a pair has a key and a value
             forall|i: int| 0 <= i < node_children(&input).len() ==> has_rule(#[trigger] &node_children(&input)[i], "map_kv"),   // grammar: the children of the initializer are pairs
    ensures
        // one entry per pair of the source, in source order, key and value of THAT pair -- repeated keys included
        r is Ok ==> r->Ok_0@.len() == node_children(&input).len() && forall|i: int| 0 <= i < r->Ok_0@.len() ==> pair_of(node_children(&input)[i], #[trigger] r->Ok_0@[i]),
        // C03: every pair kept is well typed against the map's declared key / value types
        r is Ok ==> forall|i: int| 0 <= i < r->Ok_0@.len() ==> pair_typed(#[trigger] r->Ok_0@[i], map_type, &input),
{{
{render(b, 1)}
}}
}} // verus!
fn main() {{}}
"""
    return gen, [Obl("C15.map.pairs-as-written", ["C15", "C13", "C03", "C02"], fn="Parser::map_initializer", desc="map_initializer: the pair list handed to code generation is the pairs as written -- one per `key: value`, in order, none merged or dropped; every pair kept passes the compatibility test against the declared key / value types and is not nil-able where the declared type does not admit nil")], log


UNITS = [VUnit("c15_map_init", ["C15", "C13", "C03", "C02"], "map literal: the parser keeps the pairs as written", build)]
UNITS[0].assumes = ["pest API and Parser::value abstract; TypeLayout::eq_complex and is_optional abstract (eq_complex as a relation: expected type first); Value::for_type(..).unwrap() on a parsed value is assumed not to fail (not under contract)", "a failing sub-parser reports at least one error (else the pair would be dropped silently)"]

"""C11 (compile side): Import::compile -- every import form first enters the module (module_entry KEY), then binds."""
from vlib.rules import *

FILE = "compiler/src/ast/import.rs"

SPEC = r"""
#[verifier::external_body] pub fn strlit_vs(s: &'static str) -> (r: VString) ensures text_of(&r) == s@ { unimplemented!() }
#[verifier::external_body] pub struct PathV { x: usize }
#[verifier::external_body] pub struct Lock { x: usize }
pub uninterp spec fn module_key(p: &PathV) -> Seq<char>;            // "<path with .mmm, / separators>#__module__": the run-time cache key
#[verifier::external_body] pub fn module_loader_of(p: &PathV) -> (r: VString) ensures text_of(&r) == module_key(p) { unimplemented!() }
impl ToVs for VString {
    open spec fn as_num(&self) -> int { text_num(text_of(self)) }
    open spec fn as_text(&self) -> Seq<char> { text_of(self) }
    #[verifier::external_body] fn to_vs(&self) -> (r: VString) { unimplemented!() }
}
pub struct Ident { pub name: VString }
#[verifier::external_body] pub fn ident_name(i: &Ident) -> (r: VString) ensures r == i.name { unimplemented!() }
// names.iter().map(Ident::name).map(String::from).collect(): the names, in order
#[verifier::external_body] pub fn ident_names(v: &Vec<Ident>) -> (r: Vec<VString>)
    ensures r@.len() == v@.len(), forall|i: int| 0 <= i < v@.len() ==> #[trigger] r@[i] == v@[i].name { unimplemented!() }
#[verifier::external_body] pub fn can_compile(l: &Lock) -> (r: bool) { unimplemented!() }
#[verifier::external_body] pub fn mark_compiled(l: &Lock) { unimplemented!() }
#[verifier::external_body] pub fn queue_compilation(s: &CompilationState, p: &PathV) { unimplemented!() }
pub fn vec2(a: CompiledItem, b: CompiledItem) -> (r: Vec<CompiledItem>) ensures r@ == seq![a, b] { let mut v = Vec::new(); v.push(a); v.push(b); v }
pub fn vec3(a: CompiledItem, b: CompiledItem, c: CompiledItem) -> (r: Vec<CompiledItem>) ensures r@ == seq![a, b, c] { let mut v = Vec::new(); v.push(a); v.push(b); v.push(c); v }
pub enum Import { Standard { path: PathV, store: Ident, should_queue: Lock }, Names { path: PathV, names: Vec<Ident>, should_queue: Lock } }
"""


def build(repo):
    src = Source(repo)
    ids = opcode_ids(repo)
    log = []
    f = src.fn(FILE, "compile", "impl Compile for Import")
    rules = [
        Rule("R3", "log :: debug ! $a ;", "", why="logging dropped"),
        r_instruction(ids),
        Rule("R1", "( ( store . name ( ) ) ) . to_vs ( )", "ident_name ( store )", why="identifier name"),
        Rule("R6", "should_queue . can_compile ( )", "can_compile ( should_queue )", why="compilation queue abstract"),
        Rule("R6", "should_queue . mark_compiled ( ) ;", "mark_compiled ( should_queue ) ;", why="compilation queue abstract"),
        Rule("R6", "state . queue_compilation ( path . clone ( ) ) ;", "queue_compilation ( state , path ) ;", why="compilation queue abstract"),
        Rule("R9", "format ! ( \"{}#__module__\" , path . with_extension ( \"mmm\" ) . bytecode_str ( ) )", "module_loader_of ( path )", count=2, why="cache key construction abstract (same expression in both forms)"),
        Rule("R2", "names . iter ( ) . map ( Ident :: name ) . map ( String :: from ) . collect ( )", "ident_names ( names )", why="iter().map().collect(): the names in order"),
        Rule("R1", "id : SPLIT_LOOKUP_STORE ,", f"id : {ids['split_lookup_store']}u8 ,", why="opcode constant from instruction_constants.rs"),
        Rule("R12", "vec ! [ ]", "Vec :: new ( )", why="vec![]"),
        Rule("R12", "vec ! [ $$a , $$b , $$c , ]", "vec3 ( $$a , $$b , $$c )", why="vec![a, b, c]"),
        Rule("R12", "vec ! [ $$a , $$b , ]", "vec2 ( $$a , $$b )", why="vec![a, b]"),
        Rule("R1", "Self :: Standard", "Import :: Standard"), Rule("R1", "Self :: Names", "Import :: Names"),
    ]
    b = translate(f["body"], rules, log, "Import::compile")
    check_closed(b, "Import::compile")
    gen = header(log, f"{FILE}: Import::compile") + prelude("compile.rs") + opcode_consts(ids, ["module_entry", "store", "split_lookup_store", "pop"]) + SPEC + f"""
impl Import {{
    //@ OBL C11.import.layout
    pub fn compile(&self, state: &CompilationState) -> (r: Result<Vec<CompiledItem>, VErr>)
        ensures r is Ok ==> ({{
            let out = r->Ok_0@;
            // every import form FIRST enters the module -- its top-level code runs (once: C11.module.once) when the import is
            // executed, before the importer continues -- under the run-time cache key of the imported file
            &&& out.len() >= 2 && is_instr(out[0], MODULE_ENTRY) && nargs(out[0]) == 1
            &&& (self is Standard ==> argt(out[0], 0) == module_key(&self->Standard_path)
                    && out.len() == 2 && is_instr(out[1], STORE) && nargs(out[1]) == 1 && out[1]->arguments@[0] == self->store.name)
            // `import a, b from m`: the listed names, all of them, in order, are copied from the module; the module value is dropped
            &&& (self is Names ==> argt(out[0], 0) == module_key(&self->Names_path)
                    && out.len() == 3 && is_instr(out[1], SPLIT_LOOKUP_STORE) && nargs(out[1]) == self->names@.len()
                    && (forall|i: int| 0 <= i < self->names@.len() ==> #[trigger] out[1]->arguments@[i] == self->names@[i].name)
                    && is_instr(out[2], POP))
        }})
    {{
{render(b, 2)}
    }}
}}
}} // verus!
fn main() {{}}
"""
    return gen, [Obl("C11.import.layout", ["C11"], fn="Import::compile",
                     desc="Import::compile: both forms emit `module_entry KEY` first (KEY = cache key of the imported file), then `store name` / `split_lookup_store names.. ; pop`")], log


UNITS = [VUnit("c11_import", ["C11"], "import statement layout: module entry first", build)]
UNITS[0].assumes = ["the cache key expression is abstract (same text in both forms); that it coincides with the key add_file/execute build is not proved",
                    "compilation queue (queue_compilation / CompilationLock) abstract"]

"""C02: the static type of a named `from` loop counter (Parser::number_loop, arm `Rule::number_loop_bind_name`).  The counter's first value is
the start value, its later values are `counter + step`: `typeof` and every check made on the counter inside the body rely on the type the
identifier is registered with, so that type must be the start value's type (and the type of start + step -- checked against it by the tail of
the function).  The registration is an abstract callee that REQUIRES the start value's type."""
from vlib.rules import *
from vlib.extract import extract_match_arm

FILE = "compiler/src/ast/number_loop.rs"

SPEC = r"""
pub struct Ident { pub name: VStr, pub ty: Option<TypeLayout>, pub read_only: bool }
#[verifier::external_body] pub fn parse_ident(n: Node) -> (r: Result<Ident, VErr>) ensures r is Ok ==> str_view(&r->Ok_0.name) == node_text(&n) && r->Ok_0.ty is None && !r->Ok_0.read_only { unimplemented!() }
pub uninterp spec fn int_type() -> TypeLayout;
#[verifier::external_body] pub fn ty_int() -> (r: TypeLayout) ensures r == int_type() { unimplemented!() }
#[verifier::external_body] pub fn single_child(n: &Node) -> (r: Node) { unimplemented!() }
// the registration of the counter in the loop's scope
#[verifier::external_body] pub fn link_counter(i: &mut Ident, n: &Node, t: TypeLayout, start_ty: &TypeLayout) -> (r: Result<(), VErr>)
    requires t == *start_ty             // C02: the counter is typed like the first value it takes
    ensures final(i).name == old(i).name, final(i).read_only == old(i).read_only, final(i).ty == Some(t) { unimplemented!() }
"""


def build(repo):
    src = Source(repo)
    log = []
    f = src.fn(FILE, "number_loop", "impl Parser")
    try:
        arm = extract_match_arm(f["body"], "Rule :: number_loop_bind_name")
    except Exception as e:
        raise Undecided(f"{FILE}: arm Rule::number_loop_bind_name of Parser::number_loop not found: {e}")
    log.append(("R0", "Rule::number_loop_bind_name => { name = { BODY } }", "fn bind_counter(input, next, start_ty) { BODY }", "fragment: the arm that registers the counter, as a function of the start value's type"))
    b = translate(arm["body"], parser_idioms() + [
        Rule("R6", "next . children ( ) . single ( ) . unwrap ( )", "single_child ( & next )", why="pest API abstract"),
        Rule("R6", "node . as_span ( )", "as_span ( & node )", why="pest API abstract"),
        Rule("R6", "Self :: ident ( node ) . to_err_vec ( ) ?", "parse_ident ( node ) ?", why="sub-parser abstract"),
        Rule("R1", "Cow :: Owned ( TypeLayout :: Native ( NativeType :: Int ) )", "ty_int ( )", why="the literal type `int`"),
        Rule("R1", "Cow :: Owned ( start_ty . clone ( ) )", "clone_ty ( & start_ty )", why="copy of the start value's type"),
        Rule("R1", "Cow :: Owned ( start_ty . to_owned ( ) )", "clone_ty ( & start_ty )", why="copy of the start value's type"),
        Rule("R6", "ident . link_force_no_inherit ( input . user_data ( ) , $$t , ) . to_err_vec ( ) ? ;", "link_counter ( & mut ident , & input , $$t , & start_ty ) ? ;", why="registration of the counter: abstract callee that requires the start value's type"),
        Rule("R6", "ident . link_force_no_inherit ( input . user_data ( ) , $$t ) . to_err_vec ( ) ? ;", "link_counter ( & mut ident , & input , $$t , & start_ty ) ? ;", why="registration of the counter: abstract callee that requires the start value's type"),
        Rule("R1", "name = {", "let name : Option < ( Ident , Span ) > = {", why="assignment to the outer `name` -> the fragment's result"),
    ], log, "Parser::number_loop[bind name]")
    check_closed(b, "number_loop[bind name]")
    gen = header(log, f"{FILE}: Parser::number_loop, arm Rule::number_loop_bind_name") + prelude("parser.rs") + SPEC + f"""
#[verifier::external_body] pub fn clone_ty(t: &TypeLayout) -> (r: TypeLayout) ensures r == *t {{ unimplemented!() }}
//@ OBL C02.number_loop.counter-type
pub fn bind_counter(input: Node, next: Node, start_ty: TypeLayout) -> (r: Result<Option<(Ident, Span)>, VErr>)
    ensures r is Ok ==> r->Ok_0 is Some && r->Ok_0->Some_0.0.ty == Some(start_ty),
{{
{render(b, 1)} ;
    Ok(name)
}}
}} // verus!
fn main() {{}}
"""
    return gen, [Obl("C02.number_loop.counter-type", ["C02", "C03"], fn="Parser::number_loop[bind name]", desc="the named counter of a `from` loop is registered with the type of the start value (the first value it takes)")], log


UNITS = [VUnit("c02_loop_counter", ["C02", "C03"], "from-loop counter: its static type is the type of the values it takes", build)]
UNITS[0].assumes = ["fragment: the arm that registers the counter; that start + step has the same type is the business of the tail (step_output_type: not required to equal it today -- part of the same finding)"]

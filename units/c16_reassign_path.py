"""C16: the assignment-path parser is total.  `parse_path` (compiler/src/ast/reassignment.rs) turns the left side of `place = v` into a path
with two closures over the pest pairs: one for the primary (a name, `self`, or -- the grammar allows it -- a parenthesised path), one for the
postfix steps (`[i]`, `.f`).  Whatever the grammar can hand them, each must answer with a path or a diagnostic: the fall-through arms
(`x => ..`, `other => ..`) must not panic."""
from vlib.rules import *
from vlib.extract import extract_match_arm
from vlib.pattern import Pat
from pathlib import Path

FILE = "compiler/src/ast/reassignment.rs"

SPEC = r"""
use vstd::prelude::*;
verus! {
pub struct VErr;
#[verifier::external_body] pub struct PairV { x: usize }
#[verifier::external_body] pub struct PathV { x: usize }
#[verifier::external_body] pub struct SpanV { x: usize }
#[verifier::external_body] pub struct UserData { x: usize }
#[verifier::external_body] pub struct RuleV { x: usize }
// unimplemented! / unreachable! / todo! / panic!: the compiler crashes -- never allowed on a path the grammar can reach (R8)
#[verifier::external_body] pub fn vpanic() requires false { unimplemented!() }
#[verifier::external_body] pub fn diag(p: &PairV, u: &UserData) -> (r: VErr) { unimplemented!() }
#[verifier::external_body] pub fn errs1(e: VErr) -> (r: Vec<VErr>) ensures r@.len() == 1 { unimplemented!() }
"""


def _fallback_arm(closure_toks, scrutinee, what):
    """the last arm of `match SCRUTINEE { .. }` inside the closure: a binding pattern (`x`, `other`, `_`) that takes every remaining rule"""
    from vlib.extract import split_arms, find_block_after
    try:
        _, o, c = find_block_after(closure_toks, "match " + scrutinee)
    except Exception as e:
        raise Undecided(f"{FILE}: `match {scrutinee}` not found in the {what} closure of parse_path: {e}")
    arms = split_arms(closure_toks[o + 1:c])
    if not arms:
        raise Undecided(f"{FILE}: no arms in the {what} closure")
    for pat, body in arms:
        if len(pat) == 1 and not pat[0].startswith("Rule"):
            return pat[0], body   # the FIRST catch-all arm is the one that takes every remaining rule
    return None, None             # no catch-all arm: the match is exhaustive over Rule by construction (rustc checks it)


def build(repo):
    src = Source(repo)
    log = []
    f = src.fn(FILE, "parse_path")
    body = f["body"]
    parts = {}
    for name in ("map_primary", "map_postfix"):
        r = None
        for i in range(len(body)):
            r = Pat(f". {name} ( $$c )").match_at(body, i)
            if r:
                break
        if not r:
            raise Undecided(f"{FILE}: `.{name}(..)` not found in parse_path")
        parts[name] = r[1]["c"]
    rules = [
        Rule("R8", "unimplemented ! $a", "{ vpanic ( ) ; return Err ( errs1 ( diag ( verif_pair , user_data ) ) ) }", why="unimplemented!: a compiler panic (R8: precondition false)"),
        Rule("R8", "unreachable ! $a", "{ vpanic ( ) ; return Err ( errs1 ( diag ( verif_pair , user_data ) ) ) }", why="unreachable!: a compiler panic (R8)"),
        Rule("R8", "todo ! $a", "{ vpanic ( ) ; return Err ( errs1 ( diag ( verif_pair , user_data ) ) ) }", why="todo!: a compiler panic (R8)"),
        Rule("R8", "panic ! $a", "{ vpanic ( ) ; return Err ( errs1 ( diag ( verif_pair , user_data ) ) ) }", why="panic! (R8)"),
        Rule("R3", "Err ( vec ! [ new_err ( $$a ) ] )", "Err ( errs1 ( diag ( verif_pair , user_data ) ) )", why="a diagnostic (its text is dropped)"),
        Rule("R3", "return Err ( vec ! [ new_err ( $$a ) ] )", "return Err ( errs1 ( diag ( verif_pair , user_data ) ) )", why="a diagnostic (its text is dropped)"),
    ]
    fns, obls = [], []
    # what the grammar can hand the postfix closure (read from grammar.pest on every run)
    import re as _re
    g = (Path(repo) / "compiler/src/grammar.pest").read_text()
    m = _re.search(r"^reassignment_postfix\s*=\s*_?\{([^}]*)\}", g, _re.M)
    if not m:
        raise Undecided("grammar.pest: rule reassignment_postfix not found")
    postfix_rules = sorted(x.strip() for x in m.group(1).split("|"))
    named_postfix = sorted(set(_re.findall(r"Rule :: (\w+) =>", " ".join(parts["map_postfix"]))))
    postfix_unreachable = all(r in named_postfix for r in postfix_rules)
    log.append(("R0", "grammar.pest: reassignment_postfix = " + " | ".join(postfix_rules), "arms named in the postfix closure: " + ", ".join(named_postfix),
                "the fall-through arm of the postfix closure is " + ("unreachable (every alternative of the grammar rule has its own arm): precondition false" if postfix_unreachable else "REACHABLE")))
    for name, scrut, what in (("map_primary", "primary . as_rule ( )", "primary"), ("map_postfix", "op . as_rule ( )", "postfix")):
        var, arm = _fallback_arm(parts[name], scrut, what)
        if var is None:
            arm_txt = "Err(errs1(diag(verif_pair, user_data)))"
            log.append(("R0", f"parse_path, {what} closure", "(no catch-all arm)", "the match lists every rule: nothing to check"))
        else:
            b = translate(list(arm), rules, log, f"parse_path[{what} fall-through]")
            check_closed(b, f"parse_path[{what} fall-through]")
            arm_txt = render(b, 1)
        oid = f"C16.reassign.{what}-total"
        fns.append(f"""
//@ OBL {oid}
// the arm that takes every {what} the other arms do not name: for ANY such pair it answers with a diagnostic, it does not crash the compiler
pub fn {what}_fall_through(verif_pair: &PairV, {(var if var and var != '_' else 'verif_x')}: RuleV, user_data: &UserData) -> (r: Result<(PathV, SpanV, bool), Vec<VErr>>)
    requires {'false' if (what == 'postfix' and postfix_unreachable) else 'true'},
    ensures r is Err,
{{
{arm_txt}
}}
""")
        obls.append(Obl(oid, ["C16", "C03"], fn=f"{what}_fall_through", desc=f"parse_path: the fall-through arm of the {what} closure answers with a diagnostic for every pair the grammar can hand it (no unimplemented! / unreachable!)"))
    gen = header(log, f"{FILE}: parse_path, the fall-through arms of its two closures") + SPEC + "\n".join(fns) + "\n} // verus!\nfn main() {}\n"
    return gen, obls, log


UNITS = [VUnit("c16_reassign_path", ["C16", "C03"], "assignment paths: the parser's fall-through arms are diagnostics, not panics", build)]
UNITS[0].assumes = ["which pairs reach the fall-through arms is the grammar's business (reassignment_expr in parentheses reaches the primary one); the named arms are unit c10_reassign"]


# =====================================================================================================================
# the same question for Parser::declaration (compiler/src/ast/declaration.rs): every alternative of the grammar rule `declaration` either
# has its own arm or lands in a catch-all that is a diagnostic
DECL = "compiler/src/ast/declaration.rs"


def build_decl(repo):
    import re as _re
    src = Source(repo)
    log = []
    f = src.fn(DECL, "declaration", "impl Parser")
    from vlib.extract import find_block_after, split_arms
    body = f["body"]
    try:
        _, o, c = find_block_after(body, "match declaration . as_rule ( )")
    except Exception as e:
        raise Undecided(f"{DECL}: `match declaration.as_rule()` not found in Parser::declaration: {e}")
    arms = split_arms(body[o + 1:c])
    named = sorted({p[2] for p, _ in arms if len(p) == 3 and p[0] == "Rule" and p[1] == "::"})
    catch = next(((p[0], b) for p, b in arms if len(p) == 1 and not p[0].startswith("Rule")), None)
    g = (Path(repo) / "compiler/src/grammar.pest").read_text()
    m = _re.search(r"^declaration\s*=\s*_?\{([^}]*)\}", g, _re.M)
    if not m:
        raise Undecided("grammar.pest: rule declaration not found")
    alts = sorted(x.strip() for x in m.group(1).split("|"))
    unnamed = [a for a in alts if a not in named]
    log.append(("R0", "grammar.pest: declaration = " + " | ".join(alts), "alternatives without an arm of their own: " + (", ".join(unnamed) or "none"), "what can reach the catch-all arm of Parser::declaration"))
    if catch is None:
        arm_txt, var = "Err(errs1(diag(verif_pair, user_data)))", "verif_x"
    else:
        var, arm = catch
        b = translate(list(arm), [
            Rule("R8", "unimplemented ! $a", "{ vpanic ( ) ; return Err ( errs1 ( diag ( verif_pair , user_data ) ) ) }", why="unimplemented!: a compiler panic (R8)"),
            Rule("R8", "unreachable ! $a", "{ vpanic ( ) ; return Err ( errs1 ( diag ( verif_pair , user_data ) ) ) }", why="unreachable!: a compiler panic (R8)"),
            Rule("R8", "todo ! $a", "{ vpanic ( ) ; return Err ( errs1 ( diag ( verif_pair , user_data ) ) ) }", why="todo!: a compiler panic (R8)"),
            Rule("R8", "panic ! $a", "{ vpanic ( ) ; return Err ( errs1 ( diag ( verif_pair , user_data ) ) ) }", why="panic! (R8)"),
            Rule("R3", "return Err ( vec ! [ new_err ( $$a ) ] )", "return Err ( errs1 ( diag ( verif_pair , user_data ) ) )", why="a diagnostic (its text is dropped)"),
            Rule("R3", "Err ( vec ! [ new_err ( $$a ) ] ) ?", "return Err ( errs1 ( diag ( verif_pair , user_data ) ) )", why="a diagnostic (its text is dropped)"),
            Rule("R3", "Err ( vec ! [ new_err ( $$a ) ] )", "return Err ( errs1 ( diag ( verif_pair , user_data ) ) )", why="a diagnostic (its text is dropped)"),
        ], log, "Parser::declaration[catch-all]")
        check_closed(b, "Parser::declaration[catch-all]")
        arm_txt = render(b, 1)
        if var == "_":
            var = "verif_x"
    gen = header(log, f"{DECL}: Parser::declaration, the catch-all arm") + SPEC + f"""
//@ OBL C16.declaration.total
// the arm that takes every statement kind without an arm of its own ({', '.join(unnamed) or 'none: unreachable'}): a diagnostic, never a compiler panic
pub fn declaration_fall_through(verif_pair: &PairV, {var}: RuleV, user_data: &UserData) -> (r: Result<(PathV, SpanV, bool), Vec<VErr>>)
    requires {'true' if unnamed else 'false'},
    ensures r is Err,
{{
{arm_txt}
}}
}} // verus!
fn main() {{}}
"""
    return gen, [Obl("C16.declaration.total", ["C16", "C03"], fn="declaration_fall_through", desc="Parser::declaration: a statement kind the grammar allows but no arm names is answered with a diagnostic (no unreachable!)")], log


UNITS.append(VUnit("c16_declaration", ["C16", "C03"], "statements: the catch-all arm of Parser::declaration is a diagnostic", build_decl))
UNITS[-1].assumes = ["the alternatives of `declaration` are read from grammar.pest on every run"]

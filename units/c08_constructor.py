"""C08: the code a class body runs to construct an object -- tail of Constructor::compile (compiler/src/ast/class/constructor.rs), from the
allocation of the two registers to the end.  "Each constructor call yields a distinct object ...; `is` is true exactly for two references
to the same object": the object handed to the constructor as `self` and the object the constructor call returns must be ONE object, so the
class body may run `make_object` exactly once (every `make_object` mints a new identity), park that object in a register of its own, pass
it as the first argument, and return THAT object after the call."""
from vlib.rules import *
from vlib.pattern import Pat
from units.c15_seq import SPEC as SEQ_SPEC

FILE = "compiler/src/ast/class/constructor.rs"


def _split_items(toks):
    out, cur, d = [], [], 0
    for t in toks:
        if t in ("(", "[", "{"): d += 1
        elif t in (")", "]", "}"): d -= 1
        if t == "," and d == 0:
            if cur: out.append(cur)
            cur = []
        else:
            cur.append(t)
    if cur: out.append(cur)
    return out


def build(repo):
    src = Source(repo)
    log = []
    ids = opcode_ids(repo)
    f = src.fn(FILE, "compile", "impl Compile for Constructor")
    body = f["body"]
    at = None
    p = Pat("let constructor_register = state . poll_temporary_register ( ) ;")
    for i in range(len(body)):
        if p.match_at(body, i):
            at = i; break
    if at is None:
        # the registers may be allocated in another order / another place: take everything after the make_function instruction is built
        p2 = Pat("let make_function_instruction = CompiledItem :: Instruction { $$a } ;")
        for i in range(len(body)):
            r = p2.match_at(body, i)
            if r:
                at = r[0]; break
    if at is None:
        raise Undecided(f"{FILE}: start of the object-construction sequence not found in Constructor::compile")
    frag = list(body[at:])
    log.append(("R0", "Constructor::compile", "from the allocation of the registers to the end", "fragment: the constructor function's own assembly (above) follows the layout of Function::compile (unit c01_function)"))

    def pushes(name):
        return lambda b: " ".join(f"{name} . push ( {text(it)} ) ;" for it in _split_items(b["items"]))

    INV = ("invariant verif_i <= verif_n, verif_n == self.parameters_len - 1, result@.len() == 5 + verif_i, result@.subrange(0, 5) == verif_head, count(state) == verif_c0 + verif_regs, "
           "forall|j: int| 0 <= j < verif_i ==> is_instr(#[trigger] result@[5 + j], ARG) && nargs(result@[5 + j]) == 1 && argn(result@[5 + j], 0) == j decreases verif_n - verif_i")
    b = translate(frag, [
        Rule("R6", "state . poll_temporary_register ( )", "poll_temporary_register ( state )", why="register allocator abstract: hands out the counter value, advances it"),
        Rule("R12", "let mut result = vec ! [ $$items ] ;", lambda bb: "let mut result : Vec < CompiledItem > = Vec :: new ( ) ; " + pushes("result")(bb), count=1, why="vec![a, b, ..] -> pushes"),
        Rule("R12", "result . extend_from_slice ( & [ $$items ] ) ;", pushes("result"), why="extend_from_slice(&[a, b, ..]) -> pushes"),
        Rule("R1", "make_function_instruction ,", "clone_item ( & make_function_instruction ) ,", why="the make_function instruction built above: a parameter of the fragment"),
        Rule("R2", "for i in 0 .. self . parameters . len ( ) - 1 { $$body }",
             lambda bb: ["let verif_n : usize = self . parameters_len - 1 ;", G("let ghost verif_head = result@; let ghost verif_regs = count(state) - verif_c0; proof { verif_head0 = result@; }"), "let mut verif_i : usize = 0 ; while verif_i < verif_n", G(INV),
                         "{ let i = verif_i ; verif_i += 1 ;", *bb["body"], ";", G("proof { assert(result@.subrange(0, 5) =~= verif_head); }"), "}"], count=1, why="for over a range -> counted while (`len() - 1`: a constructor has `self`, R8)"),
        r_instruction(ids),
    ], log, "Constructor::compile[object sequence]")
    if b[-4:] != ["Ok", "(", "result", ")"]:
        raise Undecided("Constructor::compile: final `Ok(result)` not found")
    b = b[:-4] + [G("proof { let out = result@; let n = self.parameters_len - 1; assert(out.subrange(0, 5) =~= verif_head0); "
                     ""
                     "assert(out[0] == verif_head0[0] && out[1] == verif_head0[1] && out[2] == verif_head0[2] && out[3] == verif_head0[3] && out[4] == verif_head0[4]); "
                     "assert forall|i: int| 1 <= i < out.len() implies !is_instr(#[trigger] out[i], MAKE_OBJECT) by { if 5 <= i < 5 + n { let j = i - 5; assert(is_instr(out[5 + j], ARG)); } } "
                     "assert(ctor_layout(out, make_function_instruction, n as int, argn(out[1], 0), argn(out[3], 0))); }")] + b[-4:]
    check_closed(b, "Constructor::compile")
    gen = header(log, f"{FILE}: Constructor::compile, the object-construction sequence") + prelude("compile.rs").replace("pub struct CompilationState;", "") + \
        opcode_consts(ids, ["make_object", "store_fast", "store_skip", "load_fast", "arg", "call", "make_function"]) + SEQ_SPEC + f"""
pub struct ConstructorV {{ pub parameters_len: usize }}
pub open spec fn loads(it: CompiledItem, r: int) -> bool {{ is_instr(it, LOAD_FAST) && nargs(it) == 1 && is_reg_arg(&it->arguments@[0]) && argn(it, 0) == r }}
pub open spec fn stores(it: CompiledItem, r: int) -> bool {{ is_instr(it, STORE_FAST) && nargs(it) == 1 && is_reg_arg(&it->arguments@[0]) && argn(it, 0) == r }}
pub open spec fn ctor_layout(out: Seq<CompiledItem>, mf: CompiledItem, n: int, o: int, c: int) -> bool {{
    &&& o != c && out.len() == 8 + n
    // ONE object: made once, parked in its own register ..
    &&& is_instr(out[0], MAKE_OBJECT) && stores(out[1], o)
    &&& (forall|i: int| 1 <= i < out.len() ==> !is_instr(#[trigger] out[i], MAKE_OBJECT))
    // .. the constructor function parked in another ..
    &&& out[2] == mf && stores(out[3], c)
    // .. called with that object as `self` followed by the call's own arguments in order ..
    &&& loads(out[4], o)
    &&& (forall|j: int| 0 <= j < n ==> is_instr(#[trigger] out[5 + j], ARG) && nargs(out[5 + j]) == 1 && argn(out[5 + j], 0) == j)
    &&& loads(out[5 + n], c) && is_instr(out[6 + n], CALL)
    // .. and THAT object is the value of the construction
    &&& loads(out[7 + n], o)
}}
pub open spec fn ctor_ok(out: Seq<CompiledItem>, mf: CompiledItem, n: int) -> bool {{ exists|o: int, c: int| #[trigger] ctor_layout(out, mf, n, o, c) }}
impl ConstructorV {{
    //@ OBL C08.constructor.one-object
    #[verifier::loop_isolation(false)]
    pub fn object_sequence(&self, state: &mut State, make_function_instruction: CompiledItem) -> (r: Result<Vec<CompiledItem>, VErr>)
        requires self.parameters_len >= 1, is_instr(make_function_instruction, MAKE_FUNCTION),       // a constructor takes `self` (C08.params.self-first)
        ensures r is Ok ==> ctor_ok(r->Ok_0@, make_function_instruction, self.parameters_len - 1),
    {{
        let ghost verif_c0 = count(state); let ghost mut verif_head0: Seq<CompiledItem> = Seq::empty();
{render(b, 2)}
    }}
}}
}} // verus!
fn main() {{}}
"""
    return gen, [Obl("C08.constructor.one-object", ["C08", "C09"], fn="Constructor::compile[object sequence]",
                     desc="Constructor::compile: the class body makes the object exactly once, passes it as `self` and returns that same object (registers distinct, call arguments in order)")], log


UNITS = [VUnit("c08_constructor", ["C08", "C09"], "object construction: one object, passed as self and returned", build)]
UNITS[0].assumes = ["the register allocator hands out distinct registers (counter); the constructor function's own assembly and the make_function instruction are outside the fragment",
                    "`make_object` mints a new identity token per execution (ObjectBuilder::build: not under contract)"]

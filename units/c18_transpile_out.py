"""C18: `mscript transpile X.transpiled.mmm` (and `execute --transpile`) -- transpile_command (src/main.rs).  The binary form is written to a
file of ITS OWN: never over the text it is transpiled from (the transpiler opens the output for writing while it reads the input: an output
equal to the input is an empty file and a lost program -- D124: the dot-file `.transpiled.mmm`), the name derived from the name given
(`with_extension("")`, `with_extension("mmm")`: the `.transpiled` part dropped -- std's Path, an assumed contract), only for a name the
transpiler accepts as text form (is_path_a_transpiled_source: unit c18_transpiled_name); and the name returned -- what `execute --transpile`
then runs -- is the name written to."""
from vlib.rules import *

FILE = "src/main.rs"

SPEC = r"""
use vstd::prelude::*;
verus! {
pub struct VErr;
#[verifier::external_body] pub struct VStr { x: usize }
pub uninterp spec fn text(s: &VStr) -> Seq<char>;
#[verifier::external_body] pub struct PathBufV { x: usize }
pub uninterp spec fn ptext(p: &PathBufV) -> Seq<char>;
// std::path: Path::new(s) is the path spelled s; with_extension replaces what follows the last dot of the file name (assumed library contract)
pub uninterp spec fn with_ext(p: Seq<char>, e: Seq<char>) -> Seq<char>;
#[verifier::external_body] pub fn path_new(s: &VStr) -> (r: PathBufV) ensures ptext(&r) == text(s) { unimplemented!() }
impl PathBufV {
    #[verifier::external_body] pub fn with_extension(&self, e: &'static str) -> (r: PathBufV) ensures ptext(&r) == with_ext(ptext(self), e@) { unimplemented!() }
    #[verifier::external_body] pub fn to_str(&self) -> (r: Option<VStr>) ensures r is Some ==> text(&r->Some_0) == ptext(self) { unimplemented!() }
    #[verifier::external_body] pub fn path_eq(&self, o: &PathBufV) -> (r: bool) ensures ptext(self) == ptext(o) ==> r { unimplemented!() }      // equal spellings are equal paths (Path == compares components: it may also equate `a//b` and `a/b`)
}
pub uninterp spec fn is_text_form_name(s: Seq<char>) -> bool;          // is_path_a_transpiled_source: ends in `.transpiled.mmm` (unit c18_transpiled_name)
#[verifier::external_body] pub fn is_path_a_transpiled_source(s: &VStr) -> (r: bool) ensures r == is_text_form_name(text(s)) { unimplemented!() }
// the transpiler: reads `from`, writes `to`
pub struct Fs { pub written: Ghost<Seq<(Seq<char>, Seq<char>)>> }
#[verifier::external_body] pub fn transpile_file(from: &VStr, to: &VStr, fs: &mut Fs) -> (r: Result<(), VErr>)
    requires text(from) != text(to)                 // the output is opened for writing while the input is read
    ensures final(fs).written@ == old(fs).written@.push((text(from), text(to))) { unimplemented!() }
#[verifier::external_body] pub fn into_box(s: &VStr) -> (r: VStr) ensures r == *s { unimplemented!() }
"""


def build(repo):
    src = Source(repo)
    log = []
    f = src.fn(FILE, "transpile_command")
    b = translate(f["body"], [
        Rule("R3", "bail ! $a", "return Err ( VErr )", why="bail! -> return Err (text dropped)"),
        Rule("R6", "bytecode_dev_transpiler :: is_path_a_transpiled_source ( path )", "is_path_a_transpiled_source ( path )", why="path of the callee"),
        Rule("R6", "Path :: new ( & path )", "path_new ( path )", why="std::path::Path::new: the path spelled by the text"),
        Rule("R6", "Path :: new ( path )", "path_new ( path )", why="std::path::Path::new: the path spelled by the text"),
        Rule("R9", "new_path == path_new ( path )", "new_path . path_eq ( & path_new ( path ) )", why="PartialEq for Path"),
        Rule("R9", "new_path == * path_new ( path )", "new_path . path_eq ( & path_new ( path ) )", why="PartialEq for Path"),
        Rule("R1", "let Some ( new_path ) = new_path . to_str ( ) else", "let Some ( new_path ) = new_path . to_str ( ) else", why=""),
        Rule("R6", "bytecode_dev_transpiler :: transpile_file ( path , new_path ) . context ( $m ) ?", "transpile_file ( path , & new_path , fs ) ?", why="the transpiler run: abstract, with the file system as explicit state; context text dropped"),
        Rule("R1", "Ok ( new_path . into ( ) )", "Ok ( into_box ( & new_path ) )", why="&str -> Box<str>: the same text"),
    ], log, "transpile_command")
    check_closed(b, "transpile_command")
    gen = header(log, f"{FILE}: transpile_command") + SPEC + f"""
//@ OBL C18.transpile.output-is-its-own-file
pub fn transpile_command(path: &VStr, fs: &mut Fs) -> (r: Result<VStr, VErr>)
    ensures
        // one transpiler run at most, and only of a name the transpiler accepts as text form
        r is Ok ==> is_text_form_name(text(path)),
        r is Ok ==> final(fs).written@ == old(fs).written@.push((text(path), text(&r->Ok_0))),
        r is Err ==> final(fs).written@.len() <= old(fs).written@.len() + 1,
        // the name written to is the one derived from the name given -- and it is never the name given
        r is Ok ==> text(&r->Ok_0) == with_ext(with_ext(text(path), ""@), "mmm"@) && text(&r->Ok_0) != text(path),
        !is_text_form_name(text(path)) ==> r is Err && final(fs).written@ == old(fs).written@,
{{
{render(b, 1)}
}}
}} // verus!
fn main() {{}}
"""
    return gen, [Obl("C18.transpile.output-is-its-own-file", ["C18"], fn="transpile_command",
                     desc="transpile_command: only a name the transpiler accepts; the binary goes to the derived name, which is never the input's (the transpiler's precondition: it writes while it reads); the name returned is the name written")], log


UNITS = [VUnit("c18_transpile_out", ["C18"], "transpile writes the binary to a file of its own, named after the text form", build)]
UNITS[0].assumes = ["std::path::Path: new / with_extension / to_str / == as assumed contracts over the spelled text (with_extension uninterpreted: WHICH name is derived is the library's rule)",
                    "transpile_file abstract: one run = one (from, to) pair on the ghost file system; that it must not be given its own input as output is its precondition here"]
